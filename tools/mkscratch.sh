#!/bin/bash
# usage: mkscratch.sh <name> <patch>  -- /dev/shm/<name> = HEAD tree of /repo with the patch applied (remove when done)
rm -rf /dev/shm/$1; mkdir -p /dev/shm/$1
git -C /repo archive HEAD testtools | tar -x -C /dev/shm/$1
patch -d /dev/shm/$1 -p1 -s -i "$(realpath $2)"
