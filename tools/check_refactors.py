#!/usr/bin/env python3
"""False-alarm regression: run quick checks against every saved behaviour-preserving refactoring.

usage: check_refactors.py [Cxx ...]      (properties to run; default: all twenty)
       check_refactors.py --only C12/patch2.diff C12 C17

Every /verif/seeded/refactors/<P>/patchN.diff is applied to a scratch copy of /repo's working
tree under /dev/shm; each requested check must exit 0 on it.  Prints one line per (patch, check)
that is not silent and a summary; exit 1 if any check is not silent.
"""
import glob
import os
import re
import shutil
import subprocess
import sys
from concurrent.futures import ThreadPoolExecutor

PY = "/venv/bin/python"
ALL = [f"C{i:02d}" for i in range(1, 21)]


def prepare(patch):
    tag = patch.split("/")[-2] + "-" + re.sub(r"\D", "", os.path.basename(patch))
    scratch = f"/dev/shm/rfx-{tag}"
    shutil.rmtree(scratch, ignore_errors=True)
    os.makedirs(scratch)
    shutil.copytree("/repo/testtools", os.path.join(scratch, "testtools"), ignore=shutil.ignore_patterns("__pycache__"))
    r = subprocess.run(["patch", "-p1", "-s", "-i", patch], cwd=scratch, capture_output=True, text=True)
    return scratch if r.returncode == 0 else None


def run(job):
    patch, scratch, prop = job
    r = subprocess.run([PY, "-m", "ttsa", "check", prop, "--tier", "quick", "--no-evidence", "--root", scratch], cwd="/verif", capture_output=True, text=True)
    lines = [l.strip() for l in (r.stdout + r.stderr).splitlines() if l.strip().startswith(("rule ", "ANALYSIS"))]
    return patch, prop, r.returncode, lines


def main():
    args = sys.argv[1:]
    only = None
    if args and args[0] == "--only":
        only = args[1]
        args = args[2:]
    props = args or ALL
    patches = sorted(glob.glob("/verif/seeded/refactors/*/patch*.diff"))
    if only:
        patches = [p for p in patches if p.endswith(only)]
    scratches = {}
    for p in patches:
        s = prepare(p)
        if s is None:
            print("DOES-NOT-APPLY", p)
        else:
            scratches[p] = s
    jobs = [(p, s, prop) for p, s in scratches.items() for prop in props]
    bad = 0
    with ThreadPoolExecutor(max_workers=16) as ex:
        for patch, prop, rc, lines in ex.map(run, jobs):
            if rc != 0:
                bad += 1
                short = "/".join(patch.split("/")[-2:])
                print(f"NOT-SILENT {short} {prop} exit={rc}")
                for l in lines[:3]:
                    print("    " + l[:260])
    for s in scratches.values():
        shutil.rmtree(s, ignore_errors=True)
    print(f"{len(jobs) - bad}/{len(jobs)} (patch, check) pairs silent; {bad} not silent")
    return 1 if bad else 0


if __name__ == "__main__":
    sys.exit(main())
