#!/usr/bin/env python3
"""Run one corpus variant (or all of a property's, timed): tools/try_variant.py C03 [name ...]"""
import sys
import time
from concurrent.futures import ProcessPoolExecutor

sys.path.insert(0, "/verif")
from ttsa.selftest import harness  # noqa: E402

prop = sys.argv[1]
names = set(sys.argv[2:])


def go(v):
    t = time.time()
    r = harness._run_variant((prop, "/repo", v, 0))
    return round(time.time() - t, 1), r


if __name__ == "__main__":
    vs = [v for v in harness.variants_for(prop) if not names or v.name in names]
    with ProcessPoolExecutor(16) as ex:
        for secs, r in sorted(ex.map(go, vs), key=lambda x: -x[0]):
            print(secs, r["kind"], r["name"], r["status"], r.get("detail", "")[:300])
            if names:
                for w in r.get("reports", []):
                    print("     ", w)
