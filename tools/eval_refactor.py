#!/usr/bin/env python3
"""Run every quick check against behaviour-preserving refactorings written by sub-agents.

usage: eval_refactor.py <property> <dir with patch1.diff .. patchN.diff [+ equivN.py, notes.md]> [--keep]

Each patch is applied to a scratch copy of /repo's working tree under /dev/shm (never to
/repo itself); `python -m ttsa all --tier quick --no-evidence --root <copy>` must stay
silent (exit 0 for all twenty properties).  For a patch on which some check is NOT silent,
the pinned suite and the agent's equivalence script are run in a scratch worktree, so that the
report says whether the refactoring really is behaviour-preserving (=> false alarm of the
check) or not.  Results are written to /verif/seeded/refactors/<property>/.
"""
import glob
import json
import os
import re
import shutil
import subprocess
import sys

PY = "/venv/bin/python"


def sh(cmd, cwd=None, env=None, timeout=1800):
    r = subprocess.run(cmd, cwd=cwd, env=env, capture_output=True, text=True, timeout=timeout)
    return r.returncode, r.stdout + r.stderr


def main():
    prop, src = sys.argv[1], os.path.abspath(sys.argv[2])
    dest = f"/verif/seeded/refactors/{prop}"
    os.makedirs(dest, exist_ok=True)
    out = {"property": prop, "repo_head": sh(["git", "-C", "/repo", "rev-parse", "--short", "HEAD"])[1].strip(),
           "verif_head": sh(["git", "-C", "/verif", "rev-parse", "--short", "HEAD"])[1].strip(), "patches": {}}
    for patch in sorted(glob.glob(os.path.join(src, "patch*.diff"))):
        name = os.path.basename(patch)
        n = re.sub(r"\D", "", name)
        scratch = f"/dev/shm/rf-{prop}-{n}"
        shutil.rmtree(scratch, ignore_errors=True)
        os.makedirs(scratch)
        shutil.copytree("/repo/testtools", os.path.join(scratch, "testtools"), ignore=shutil.ignore_patterns("__pycache__"))
        rc, o = sh(["patch", "-p1", "-s", "-i", patch], cwd=scratch)
        rec = {"applies": rc == 0}
        if rc != 0:
            rec["apply_error"] = o[-300:]
            out["patches"][name] = rec
            shutil.rmtree(scratch, ignore_errors=True)
            continue
        rec["files"] = sorted(set(re.findall(r"^\+\+\+ b/(\S+)", open(patch).read(), re.M)))
        rc, o = sh([PY, "-m", "ttsa", "all", "--tier", "quick", "--no-evidence", "--root", scratch], cwd="/verif", timeout=1200)
        fired = {}
        cur = None
        for line in o.splitlines():
            m = re.match(r"(C\d\d) exit=(\d)", line)
            if m:
                cur = m.group(1)
                if m.group(2) != "0":
                    fired[cur] = {"exit": int(m.group(2)), "reports": []}
            elif cur in fired and ("rule " in line or "ANALYSIS" in line):
                fired[cur]["reports"].append(line.strip()[:400])
        rec["silent"] = not fired
        rec["checks_not_silent"] = fired
        shutil.rmtree(scratch, ignore_errors=True)
        if fired:
            # is the refactoring really behaviour-preserving?  pinned suite + the agent's own script
            wt = f"/tmp/evalrf-{prop}-{n}"
            sh(["git", "-C", "/repo", "worktree", "remove", "--force", wt])
            sh(["git", "-C", "/repo", "worktree", "add", "--detach", wt, "HEAD"])
            try:
                env = dict(os.environ, PYTHONPATH=wt)
                sh(["git", "-C", wt, "apply", patch])
                rcs, outs = sh([PY, "-m", "pytest", "-q", "-p", "no:cacheprovider", "--timeout=900", "--continue-on-collection-errors"], cwd=wt, env=env)
                summary = [l for l in outs.splitlines() if re.search(r"\d+ passed", l)]
                rec["suite_with_change"] = summary[-1] if summary else outs[-200:]
                eq = os.path.join(src, f"equiv{n}.py")
                if os.path.isfile(eq):
                    rce, oe = sh([PY, eq], cwd=wt, env=env, timeout=600)
                    rec["equiv_script_exit"] = rce
            finally:
                sh(["git", "-C", "/repo", "worktree", "remove", "--force", wt])
                shutil.rmtree(wt, ignore_errors=True)
        shutil.copy(patch, os.path.join(dest, name))
        out["patches"][name] = rec
    if os.path.isfile(os.path.join(src, "notes.md")):
        shutil.copy(os.path.join(src, "notes.md"), os.path.join(dest, "notes.md"))
    with open(os.path.join(dest, "meta.json"), "w") as f:
        json.dump(out, f, indent=1)
    for name, rec in out["patches"].items():
        print(prop, name, "applies" if rec.get("applies") else "DOES-NOT-APPLY", "silent" if rec.get("silent") else "NOT-SILENT " + json.dumps({k: v["reports"][:2] for k, v in rec.get("checks_not_silent", {}).items()})[:700],
              rec.get("suite_with_change", ""), rec.get("equiv_script_exit", ""))


if __name__ == "__main__":
    main()
