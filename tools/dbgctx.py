"""Debug helper: ctx = make('/dev/shm/x', 'C15')"""
import sys
sys.path.insert(0, "/verif")
from ttsa.loader import Repo
from ttsa.report import Context
from ttsa.symbols import ClassTable


def make(root, prop="C00"):
    repo = Repo(root)
    return Context(prop, repo, ClassTable(repo))


def show(res, skip=("ev.calls",), width=300):
    for r in res:
        print(r.kind, str(r.value)[:width])
        for e in r.state.get("ev.calls", ()):
            print("     ", str(e)[:width])
        for k, v in sorted(r.state.as_dict().items()):
            if k not in skip:
                print("    ", k, "=", str(v)[:width])
