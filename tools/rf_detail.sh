#!/bin/bash
# usage: rf_detail.sh <check> -- show report lines for every batch patch on which <check> is not silent (from ${B2LOG:-/tmp/b2_all_2.log})
cd /verif
grep " $1 " ${B2LOG:-/tmp/b2_all_2.log} | awk '{print $2}' | while read p; do
  echo "### $p"
  python3 tools/check_refactors.py --only $p $1 2>&1 | grep "^    " | cut -c1-${2:-420}
done
