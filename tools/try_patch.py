#!/usr/bin/env python3
"""Run quick checks against a copy of /repo's HEAD tree with one patch applied (never touches /repo).

usage: try_patch.py <patch.diff> [Cxx ...]     (default: all twenty)
Prints, per check that is not silent, its first report lines; exit 0 always.
"""
import os
import shutil
import subprocess
import sys
from concurrent.futures import ThreadPoolExecutor

PY = "/venv/bin/python"
ALL = [f"C{i:02d}" for i in range(1, 21)]


def main():
    patch = os.path.abspath(sys.argv[1])
    props = sys.argv[2:] or ALL
    scratch = f"/dev/shm/try-{os.getpid()}"
    shutil.rmtree(scratch, ignore_errors=True)
    os.makedirs(scratch)
    tar = subprocess.run(["git", "-C", "/repo", "archive", "HEAD", "testtools"], capture_output=True)
    subprocess.run(["tar", "-x", "-C", scratch], input=tar.stdout)
    r = subprocess.run(["patch", "-p1", "-s", "-i", patch], cwd=scratch, capture_output=True, text=True)
    if r.returncode != 0:
        print("DOES-NOT-APPLY", r.stdout[-300:], r.stderr[-300:])
        shutil.rmtree(scratch, ignore_errors=True)
        return 0

    def run(prop):
        rr = subprocess.run([PY, "-m", "ttsa", "check", prop, "--tier", "quick", "--no-evidence", "--root", scratch], cwd="/verif", capture_output=True, text=True)
        lines = [l.strip() for l in (rr.stdout + rr.stderr).splitlines() if l.strip().startswith(("rule ", "ANALYSIS"))]
        return prop, rr.returncode, lines

    fired = []
    with ThreadPoolExecutor(max_workers=8) as ex:
        for prop, rc, lines in ex.map(run, props):
            if rc != 0:
                fired.append(prop)
                print(f"{prop} exit={rc}")
                for l in lines[:3]:
                    print("    " + l[:300])
    print("FIRED:", fired)
    shutil.rmtree(scratch, ignore_errors=True)
    return 0


if __name__ == "__main__":
    sys.exit(main())
