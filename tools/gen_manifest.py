#!/usr/bin/env python3
"""Regenerate /verif/MANIFEST.json from ttsa/manifest_data.py (run from /verif)."""
import json
import os
import sys

here = os.path.dirname(os.path.dirname(os.path.abspath(__file__)))
sys.path.insert(0, here)
from ttsa import manifest_data as md  # noqa: E402

PY = "/venv/bin/python"
checks = []
na = []
for pid in [f"C{i:02d}" for i in range(1, 21)]:
    d = md.CHECKS.get(pid)
    if d is None:
        na.append({"property_id": pid, "reason": md.NOT_APPLICABLE.get(pid, "check not built yet (work in progress)")})
        continue
    checks.append({
        "property_id": pid,
        "quick_cmd": f"{PY} -m ttsa check {pid} --tier quick",
        "thorough_cmd": f"{PY} -m ttsa check {pid} --tier thorough",
        "evidence_file": f"/verif/evidence/{pid}.json",
        "replay_cmd_template": f"{PY} -m ttsa explain {{path}}",
        "engine": "ttsa",
        "level_claimed": {"category": "other", "text": d["text"], "design_ref": f"DESIGN.md section 5 ({pid}) as amended by sections 14.4 and 15.4"},
        "level_note": d["note"],
        "technique": d["technique"],
    })
manifest = {
    "version": 1,
    "setup_cmd": f"{PY} -m compileall -q ttsa",
    "hooks": {
        "guard": "TESTTOOLS_VERIF",
        "enable": "none needed: the checks parse /repo's working tree and never import or run it; no hook code exists in /repo",
        "baseline_off_cmd": "cd /repo && /venv/bin/python -m pytest -ra -q -p no:cacheprovider --timeout=900 --continue-on-collection-errors",
        "source_commits": [],
        "add_only": True,
    },
    "engines": [{
        "name": "ttsa",
        "path": "/verif/ttsa",
        "serves_properties": [c["property_id"] for c in checks],
        "kind_free_text": "repository-specific static analysis on the stdlib ast: class table + C3 MRO + call resolution; a structured abstract interpreter (ttsa.absint / effects / objects / generators) that follows the repository's code as written over symbolic environments -- instances built by their real constructors, a heap with aliasing, closures, properties, lazily consumed generators, all paths incl. exceptional ones -- with per-property scenario tables and models of the environment (user code, foreign results, streams, reactor, Deferreds, threads); local alias / mutation analysis and class-table rules; no testtools code is imported or executed, no solver",
    }],
    "checks": checks,
    "notes": md.NOTES,
    "not_applicable": na,
}
with open(os.path.join(here, "MANIFEST.json"), "w") as f:
    json.dump(manifest, f, indent=1)
    f.write("\n")
print(f"{len(checks)} checks, {len(na)} not applicable")
