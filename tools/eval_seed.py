#!/usr/bin/env python3
"""Confirm an independently seeded change and run the checks against it.

usage: eval_seed.py <seed-id> <property> <dir with patch.diff + demo.py [+ notes.md]>

1. in a scratch worktree of /repo: demo passes without the patch, fails with it,
   and the pinned suite result is unchanged (1327 passed, same failures);
2. apply the patch to /repo itself, run every quick check without touching the
   evidence, undo the patch straight afterwards;
3. keep patch, demo and meta.json under /verif/seeded/<seed-id>/.
"""
import json
import os
import re
import shutil
import subprocess
import sys

PY = "/venv/bin/python"
SUITE = [PY, "-m", "pytest", "-q", "-p", "no:cacheprovider", "--timeout=900", "--continue-on-collection-errors", "-x" if False else "-q"]


def sh(cmd, cwd=None, env=None, timeout=1800):
    r = subprocess.run(cmd, cwd=cwd, env=env, capture_output=True, text=True, timeout=timeout)
    return r.returncode, r.stdout + r.stderr


def main():
    seed_id, prop, src = sys.argv[1], sys.argv[2], os.path.abspath(sys.argv[3])
    patch = os.path.join(src, "patch.diff")
    demo = os.path.join(src, "demo.py")
    assert os.path.isfile(patch) and os.path.isfile(demo), "need patch.diff and demo.py"
    wt = f"/tmp/evalwt-{seed_id}"
    sh(["git", "-C", "/repo", "worktree", "remove", "--force", wt])
    rc, out = sh(["git", "-C", "/repo", "worktree", "add", "--detach", wt, "HEAD"])
    assert rc == 0, out
    meta = {"seed": seed_id, "property": prop, "repo_head": sh(["git", "-C", "/repo", "rev-parse", "--short", "HEAD"])[1].strip()}
    try:
        env = dict(os.environ, PYTHONPATH=wt)
        rc0, out0 = sh([PY, demo], cwd=wt, env=env, timeout=600)
        meta["demo_without_change"] = {"exit": rc0, "tail": out0[-400:]}
        rca, outa = sh(["git", "-C", wt, "apply", patch])
        assert rca == 0, "patch does not apply: " + outa
        changed = sh(["git", "-C", wt, "diff", "--stat"])[1]
        meta["files_changed"] = [l.split("|")[0].strip() for l in changed.splitlines() if "|" in l]
        assert not any("/tests/" in f for f in meta["files_changed"]), "patch edits tests"
        rc1, out1 = sh([PY, demo], cwd=wt, env=env, timeout=600)
        meta["demo_with_change"] = {"exit": rc1, "tail": out1[-600:]}
        rcs, outs = sh([PY, "-m", "pytest", "-q", "-p", "no:cacheprovider", "--timeout=900", "--continue-on-collection-errors"], cwd=wt, env=env, timeout=1800)
        summary = [l for l in outs.splitlines() if re.search(r"\d+ passed", l)]
        meta["suite_with_change"] = summary[-1] if summary else outs[-300:]
        m = re.search(r"(\d+) failed, (\d+) passed", meta["suite_with_change"])
        meta["suite_unchanged"] = bool(m and m.group(1) == "38" and m.group(2) == "1327")
        rcc, outc = sh([PY, "-c", "import testtools"], cwd=wt, env=env)
        meta["imports"] = rcc == 0
    finally:
        sh(["git", "-C", "/repo", "worktree", "remove", "--force", wt])
        shutil.rmtree(wt, ignore_errors=True)
    meta["confirmed"] = bool(meta["demo_without_change"]["exit"] == 0 and meta["demo_with_change"]["exit"] != 0 and meta["suite_unchanged"] and meta["imports"])
    # run the checks against /repo with the change applied, then undo it
    assert sh(["git", "-C", "/repo", "status", "--porcelain"])[1].strip() == "", "/repo is not clean"
    fired = {}
    try:
        rca, outa = sh(["git", "-C", "/repo", "apply", patch])
        assert rca == 0, outa
        rc, out = sh([PY, "-m", "ttsa", "all", "--tier", "quick", "--no-evidence"], cwd="/verif", timeout=900)
        cur = None
        for line in out.splitlines():
            m = re.match(r"(C\d\d) exit=(\d)", line)
            if m:
                cur = m.group(1)
                if m.group(2) != "0":
                    fired.setdefault(cur, {"exit": int(m.group(2)), "reports": []})
            elif cur in fired and ("rule " in line or "ANALYSIS" in line):
                fired[cur]["reports"].append(line.strip()[:300])
    finally:
        sh(["git", "-C", "/repo", "checkout", "--", "."])
    assert sh(["git", "-C", "/repo", "status", "--porcelain"])[1].strip() == ""
    meta["checks_reporting"] = fired
    meta["caught_by_claimed_property"] = prop in fired and fired[prop]["exit"] == 1
    meta["caught_by_any"] = any(v["exit"] == 1 for v in fired.values())
    dest = f"/verif/seeded/{seed_id}"
    os.makedirs(dest, exist_ok=True)
    if os.path.abspath(src) != os.path.abspath(dest):
        shutil.copy(patch, os.path.join(dest, "patch.diff"))
        shutil.copy(demo, os.path.join(dest, "demo.py"))
        if os.path.isfile(os.path.join(src, "notes.md")):
            shutil.copy(os.path.join(src, "notes.md"), os.path.join(dest, "notes.md"))
    meta["verif_head"] = sh(["git", "-C", "/verif", "rev-parse", "--short", "HEAD"])[1].strip()
    old_meta_path = os.path.join(dest, "meta.json")
    if os.path.isfile(old_meta_path):
        old = json.load(open(old_meta_path))
        first = old.get("first_evaluation") or {k: old.get(k) for k in ("repo_head", "verif_head", "confirmed", "caught_by_claimed_property", "caught_by_any", "checks_reporting")}
        meta["first_evaluation"] = first
    meta["what_i_ran"] = [
        "scratch worktree of /repo HEAD: demo.py without patch, with patch; pinned pytest command with patch",
        "git -C /repo apply patch.diff; python -m ttsa all --tier quick --no-evidence; git -C /repo checkout -- .",
    ]
    with open(os.path.join(dest, "meta.json"), "w") as f:
        json.dump(meta, f, indent=1)
    print(json.dumps({k: meta[k] for k in ("seed", "property", "confirmed", "suite_with_change", "caught_by_claimed_property", "caught_by_any")}, indent=1))
    for p, v in fired.items():
        print(p, v["exit"], *v["reports"][:3], sep="\n   ")


if __name__ == "__main__":
    main()
