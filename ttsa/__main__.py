"""Command line: ``python -m ttsa check Cxx --tier quick|thorough [--root DIR]``.

Exit codes: 0 property clauses held on everything analysed (possibly with
KNOWN-FINDING lines); 1 with ``VIOLATION property=<id> replay=<path>`` for a
violation not listed in known_findings.json; 2 with ANALYSIS-ERROR /
ANALYSIS-UNDECIDED when the analysis cannot be carried out.
"""

import argparse
import importlib
import json
import os
import sys
import time
import traceback

from .loader import AnalysisError, Repo, Undecided
from .report import VERIF_DIR, Context, write_json
from .symbols import ClassTable

PROPS = [f"C{i:02d}" for i in range(1, 21)]


def run_rules(prop, root, tier, seed):
    """Analyse ``root`` for one property; returns the Context (may raise)."""
    mod = importlib.import_module(f"ttsa.rules.{prop.lower()}")
    repo = Repo(root)
    classes = ClassTable(repo)
    ctx = Context(prop, repo, classes, tier=tier, seed=seed)
    try:
        mod.run(ctx)
    except AnalysisError as e:
        # an anchor could not be followed any further: if real violations were
        # already found on the way, report those (exit 1); otherwise exit 2.
        if not ctx.violations:
            raise
        ctx.note(f"analysis stopped early after reporting violations: {e}")
    ctx.check_floors()
    return ctx, mod


def cmd_check(args):
    prop = args.prop.upper()
    if prop not in PROPS:
        print(f"ANALYSIS-ERROR unknown property {prop}")
        return 2
    tier = args.tier or os.environ.get("VERIF_TIER") or "quick"
    try:
        seed = int(os.environ.get("VERIF_SEED", "0"))
    except ValueError:
        seed = 0
    evidence_dir = args.evidence_dir or os.path.join(VERIF_DIR, "evidence")
    try:
        ctx, mod = run_rules(prop, args.root, tier, seed)
    except ModuleNotFoundError as e:
        if e.name and e.name.startswith("ttsa.rules"):
            print(f"ANALYSIS-ERROR property {prop}: check not implemented")
            return 2
        print("ANALYSIS-ERROR " + "".join(traceback.format_exc()).replace("\n", " | "))
        return 2
    except Undecided as e:
        print(f"ANALYSIS-UNDECIDED property={prop} {e}")
        return 2
    except AnalysisError as e:
        print(f"ANALYSIS-ERROR property={prop} {e}")
        return 2
    except Exception:
        print(f"ANALYSIS-ERROR property={prop} internal error in the checker:")
        traceback.print_exc(file=sys.stdout)
        return 2

    selftest = None
    if tier == "thorough" and not args.no_selftest:
        try:
            from .selftest import harness

            selftest = harness.run_for(prop, args.root, seed)
            for line in selftest.get("weak_lines", []):
                print(line)
        except Exception:
            print("SELFTEST-ERROR (does not affect the verdict):")
            traceback.print_exc(file=sys.stdout)
            selftest = {"error": traceback.format_exc()}

    print(
        f"property={prop} tier={tier} rules={len(ctx.rules)} instances={len(ctx.instances)} "
        f"hold={sum(1 for i in ctx.instances if i.holds)} known={len(ctx.known_hits)} "
        f"violations={len(ctx.violations)} functions={len(ctx.stats['functions_analysed'])} "
        f"cfg_nodes={ctx.stats['cfg_nodes']} states={ctx.stats['states']}"
    )
    if args.verbose:
        for i in ctx.instances:
            v = "ok  " if i.holds else ("KNWN" if i.known else "VIOL")
            print(f"  {v} {i.rule:24s} {i.where:45s} {i.name}  {i.message if not i.holds else ''}")
    for i in ctx.known_hits:
        print(f"KNOWN-FINDING: property={prop} {i.known.get('what')} [{i.rule} at {i.where}]")
    rc = 0
    if not args.no_evidence:
        replay_dir = os.path.join(evidence_dir, "replay")
        # remove stale replay files of this property
        if os.path.isdir(replay_dir):
            for fn in os.listdir(replay_dir):
                if fn.startswith(prop + "-"):
                    try:
                        os.unlink(os.path.join(replay_dir, fn))
                    except OSError:
                        pass
    for n, i in enumerate(ctx.violations):
        rc = 1
        rec = {
            "property": prop,
            "rule": i.rule,
            "rule_description": ctx.rules.get(i.rule, ""),
            "instance": i.name,
            "where": i.where,
            "construct": i.construct,
            "message": i.message,
            "path": i.path,
            "root": os.path.abspath(args.root),
        }
        path = os.path.join(evidence_dir, "replay", f"{prop}-{i.rule}-{n}.json")
        if not args.no_evidence:
            write_json(path, rec)
        print(f"VIOLATION property={prop} replay={path}")
        print(f"  rule {i.rule} at {i.where} ({i.name}): {i.message}")
        if i.path:
            for step in i.path[:25]:
                print(f"    | {step}")
    if not args.no_evidence:
        ev = ctx.evidence(getattr(mod, "EXPLANATION", ""), selftest)
        write_json(os.path.join(evidence_dir, f"{prop}.json"), ev)
    return rc


def cmd_explain(args):
    with open(args.path, encoding="utf-8") as f:
        rec = json.load(f)
    print(json.dumps(rec, indent=1))
    prop = rec["property"]
    root = args.root or "/repo"
    print(f"--- re-running rule {rec['rule']} of {prop} on {root}")
    try:
        ctx, _ = run_rules(prop, root, "quick", 0)
    except AnalysisError as e:
        print(f"ANALYSIS-ERROR {e}")
        return 2
    still = [
        i
        for i in ctx.instances
        if not i.holds and i.rule == rec["rule"] and i.construct == rec["construct"]
    ]
    if still:
        for i in still:
            print(f"STILL VIOLATED at {i.where}: {i.message}")
            for step in i.path or []:
                print(f"    | {step}")
        return 1
    print("not reproduced on this tree (the construct no longer violates the rule)")
    return 0


def cmd_all(args):
    import subprocess
    from concurrent.futures import ThreadPoolExecutor

    def one(p):
        t = time.time()
        cmd = [sys.executable, "-m", "ttsa", "check", p, "--tier", args.tier, "--root", args.root]
        if args.no_evidence:
            cmd.append("--no-evidence")
        r = subprocess.run(cmd, capture_output=True, text=True, cwd=VERIF_DIR)
        return p, r.returncode, r.stdout + r.stderr, time.time() - t

    rc = 0
    with ThreadPoolExecutor(max_workers=16) as ex:
        for p, code, out, dt in ex.map(one, PROPS):
            first = out.strip().splitlines()
            summary = [l for l in first if l.startswith("property=")]
            print(f"{p} exit={code} {dt:.1f}s {summary[0] if summary else ''}")
            for l in first:
                if l.startswith(("VIOLATION", "KNOWN-FINDING", "ANALYSIS", "SELFTEST", "  rule")):
                    print("   " + l)
            rc = max(rc, code)
    return rc


def main(argv=None):
    ap = argparse.ArgumentParser(prog="ttsa")
    sub = ap.add_subparsers(dest="cmd", required=True)
    c = sub.add_parser("check")
    c.add_argument("prop")
    c.add_argument("--tier", choices=["quick", "thorough"])
    c.add_argument("--root", default=os.environ.get("TTSA_ROOT", "/repo"))
    c.add_argument("--evidence-dir")
    c.add_argument("--no-evidence", action="store_true")
    c.add_argument("--no-selftest", action="store_true")
    c.add_argument("-v", "--verbose", action="store_true")
    c.set_defaults(fn=cmd_check)
    e = sub.add_parser("explain")
    e.add_argument("path")
    e.add_argument("--root")
    e.set_defaults(fn=cmd_explain)
    a = sub.add_parser("all")
    a.add_argument("--tier", default="quick")
    a.add_argument("--root", default="/repo")
    a.add_argument("--no-evidence", action="store_true")
    a.set_defaults(fn=cmd_all)
    args = ap.parse_args(argv)
    try:
        return args.fn(args)
    except AnalysisError as e:
        print(f"ANALYSIS-ERROR {e}")
        return 2
    except Exception:
        print("ANALYSIS-ERROR internal error:")
        traceback.print_exc(file=sys.stdout)
        return 2


if __name__ == "__main__":
    sys.exit(main())
