"""ttsa -- testtools static analysis.

Pure-stdlib checkers (ast based) that decide the clauses of the properties
C01..C20 listed in /verif/properties.jsonl from the *source* of the testtools
working tree.  Nothing in this package imports or executes testtools.
"""

__all__ = ["VERSION"]

VERSION = "1"
