"""E8: obligations, violations, known findings, evidence files."""

import json
import os
import time

from .astutil import enclosing_qualname, head, loc
from .loader import AnalysisError

VERIF_DIR = os.path.dirname(os.path.dirname(os.path.abspath(__file__)))
KNOWN_FINDINGS = os.path.join(VERIF_DIR, "known_findings.json")


def construct_key(node, extra=None):
    """``module:qualname::<normalised first line of the statement>``."""
    m = getattr(node, "_module", None)
    mod = m.name if m is not None else "?"
    key = f"{mod}:{enclosing_qualname(node)}"
    if extra is None:
        extra = head(node, 120)
    return f"{key}::{extra}"


class Instance:
    __slots__ = ("rule", "name", "where", "holds", "message", "examined", "path", "construct", "known")

    def __init__(self, rule, name, where, holds, message, examined, path, construct):
        self.rule = rule
        self.name = name
        self.where = where
        self.holds = holds
        self.message = message
        self.examined = examined
        self.path = path
        self.construct = construct
        self.known = None

    def as_dict(self):
        d = {
            "rule": self.rule,
            "instance": self.name,
            "where": self.where,
            "verdict": "holds" if self.holds else ("known-finding" if self.known else "VIOLATED"),
            "examined": self.examined,
        }
        if self.message:
            d["note"] = self.message
        if not self.holds:
            d["construct"] = self.construct
            if self.path:
                d["path"] = self.path
        return d


class Context:
    """One run of one property's rules against one source tree."""

    def __init__(self, prop, repo, classes, tier="quick", seed=0):
        self.prop = prop
        self.repo = repo
        self.classes = classes
        self.tier = tier
        self.seed = seed
        self.instances = []
        self.rules = {}  # rule -> description
        self.notes = []
        self.floors = []
        self.assumptions = []
        self.stats = {"functions_analysed": set(), "cfg_nodes": 0, "states": 0}
        self.t0 = time.time()
        self._known = load_known()

    # -- recording --------------------------------------------------------------
    def rule(self, name, description):
        self.rules[name] = description

    def check(self, rule, name, node, holds, message="", examined=1, path=None, construct=None):
        """Record one rule instance (an obligation) and its verdict."""
        where = loc(node) if node is not None and not isinstance(node, str) else (node or "?")
        if construct is None:
            if node is None or isinstance(node, str):
                construct = name
            else:
                construct = construct_key(node)
        inst = Instance(rule, name, where, bool(holds), message, examined, path, construct)
        from .absint import GUESSED
        guessed, GUESSED[:] = list(GUESSED), []
        if not inst.holds:
            for k in self._known:
                if (
                    k.get("status") == "known"
                    and k.get("property") == self.prop
                    and k.get("rule") == rule
                    and k.get("construct") == construct
                ):
                    inst.known = k
                    break
        if not inst.holds and inst.known is None and guessed:
            # the runs behind this verdict went both ways at a branch the analysis could not decide; the report says so (a
            # problem found on such a run may belong to the way the real code never goes -- the reader is told where to look)
            inst.message = f"{inst.message} [note: {guessed[0]} could not be evaluated by the analysis; both branches were followed]"
        self.instances.append(inst)
        return inst.holds

    def analysed(self, func, cfg=None, states=0):
        if func is not None:
            self.stats["functions_analysed"].add(
                f"{getattr(func, '_module', None) and func._module.name}:{getattr(func, 'lineno', 0)}"
            )
        if cfg is not None:
            self.stats["cfg_nodes"] += len(cfg.nodes)
        self.stats["states"] += states

    def floor(self, rule, minimum, what="instances"):
        """Deferred: evaluated by ``check_floors`` once all rules have run."""
        self.floors.append((rule, minimum, what))

    def check_floors(self):
        """A rule that matches (almost) nothing passes vacuously for ever: fail the
        analysis instead -- unless real violations are being reported anyway."""
        problems = []
        for rule, minimum, what in self.floors:
            n = sum(1 for i in self.instances if i.rule == rule)
            # the confirmed count is a reference, not an exact demand: merging duplicated code into a
            # helper legitimately removes instances.  Below 60% of it the rule is no longer believed.
            need = max(1, (minimum * 6) // 10)
            if n < need:
                problems.append(
                    f"rule {rule} found {n} {what}, fewer than {need} (60% of the {minimum} confirmed by "
                    f"hand on the pinned tree)"
                )
        if problems and not self.violations:
            raise AnalysisError("anchor vanished: " + "; ".join(problems))
        for p in problems:
            self.note("floor not met (violations reported instead): " + p)

    def note(self, text):
        self.notes.append(text)

    def assume(self, text):
        if text not in self.assumptions:
            self.assumptions.append(text)

    # -- results ------------------------------------------------------------------
    @property
    def violations(self):
        return [i for i in self.instances if not i.holds and not i.known]

    @property
    def known_hits(self):
        return [i for i in self.instances if not i.holds and i.known]

    def evidence(self, explanation, selftest=None):
        distinct = {
            (i.rule, i.name, i.where) for i in self.instances if i.examined >= 1
        }
        samples = [i.as_dict() for i in self.instances]
        # keep the file readable: all failing ones + a spread of holding ones
        bad = [s for s in samples if s["verdict"] != "holds"]
        good = [s for s in samples if s["verdict"] == "holds"]
        per_rule = {}
        for i in self.instances:
            r = per_rule.setdefault(i.rule, {"instances": 0, "hold": 0, "examined": 0})
            r["instances"] += 1
            r["hold"] += 1 if i.holds else 0
            r["examined"] += i.examined
        cov = {
            "explanation": explanation,
            "obligations": len(self.instances),
            "discharged": sum(1 for i in self.instances if i.holds),
            "evaluations": len(self.instances),
            "distinct_nontrivial": len(distinct),
            "rule": (
                "one evaluation = one rule instance (a rule template instantiated on one "
                "class / method / call site / abstract exit state of the current /repo "
                "tree); an instance is non-trivial when the rule examined at least one "
                "path, state or site for it; distinct = distinct (rule, instance, location)"
            ),
            "rules": {r: self.rules.get(r, "") for r in per_rule},
            "per_rule": per_rule,
            "samples": bad + good[:400],
            "states": self.stats["states"],
            "cfg_nodes": self.stats["cfg_nodes"],
            "functions_analysed": len(self.stats["functions_analysed"]),
            "modules": dict(sorted(self.repo.consulted.items())),
            "known_findings": [
                {"rule": i.rule, "construct": i.construct, "what": i.known.get("what")}
                for i in self.known_hits
            ],
            "notes": self.notes,
            "exhaustive": True,
            "trusted_base": [
                "ttsa CFG builder and may-raise oracle (DESIGN.md E3)",
                "ttsa class table / MRO / call resolution (DESIGN.md E2, E5)",
                "Python semantics of try/finally/with as modelled by the CFG",
                "frozen exception tables listed in the rule sources",
            ],
        }
        if selftest is not None:
            cov["selftest"] = selftest
        return {
            "property_id": self.prop,
            "tier": self.tier,
            "seed": self.seed,
            "level": "other",
            "coverage": cov,
            "assumptions": self.assumptions,
            "wall_s": round(time.time() - self.t0, 3),
            "violations": len(self.violations),
        }


def load_known():
    try:
        with open(KNOWN_FINDINGS, encoding="utf-8") as f:
            data = json.load(f)
    except FileNotFoundError:
        return []
    return data.get("findings", data) if isinstance(data, dict) else data


def write_json(path, obj):
    os.makedirs(os.path.dirname(path), exist_ok=True)
    tmp = path + ".tmp"
    with open(tmp, "w", encoding="utf-8") as f:
        json.dump(obj, f, indent=1, sort_keys=False, default=str)
        f.write("\n")
    os.replace(tmp, path)
