"""Generators and generator expressions that run as they are consumed.

A call of a generator function evaluates to an object ("genobj", n); nothing of its body has run yet.  Each time
the consumer asks for the next element (a `for` loop, next(), list(), "".join ... -- everything goes through
``pull``), the body advances by one *step* and stops again:

    the top-level statements of the body are the program; a statement without `yield` simply runs; a top-level
    `for` / `while` loop that yields advances one iteration per step; any other statement that yields runs as a
    whole (what it yields is handed out element by element).

A step is a synthesised function -- the statements of that step, with the generator's local variables as
parameters -- run by the ordinary interpreter (Interp.inline); the values of the locals afterwards are kept in
the state under "genobj.<n>.L.<name>", so everything the generator shares with the rest of the program (lists
on the heap, the object it is a method of, iterators it consumes) stays shared.  Effects therefore happen in the
order in which Python would perform them: a generator that pops the next cleanup is asked again only after the
consumer has run the previous one.

A generator expression over something that is itself produced on demand is ("lazycomp", ...): its conditions and
element expression run per element pulled, with the values its free variables had when it was made.

Not followed step by step (they run eagerly, as before: the call evaluates to an iterator over everything the body
yields): generator functions that define closures, nested generator functions with free variables, generators that
use the value of a `yield` expression (send), and decorated ones (contextmanager / inlineCallbacks have their own
models).
"""

import ast
import copy

from .absint import NONE, TOP, Undecided, exc, free_names, lexical_parent, own_names, val, _defines_closures
from .astutil import FUNC_TYPES, dotted

UNBOUND = ("unbound-local",)
ITEM, ONCE = "_gen_item_", "_gen_once_"


def _yields_in(node):
    stack = [node]
    while stack:
        n = stack.pop()
        if isinstance(n, (ast.Yield, ast.YieldFrom)):
            return True
        if isinstance(n, FUNC_TYPES + (ast.Lambda, ast.ClassDef)) and n is not node:
            continue
        stack.extend(ast.iter_child_nodes(n))
    return False


def _rewrite_returns(node):
    """``node`` with every `return` of the generator replaced by `return "ret"` (untouched subtrees are shared)."""
    if isinstance(node, ast.Return):
        return ast.copy_location(ast.Return(value=ast.copy_location(ast.Constant(value="ret"), node)), node)
    if isinstance(node, FUNC_TYPES + (ast.Lambda, ast.ClassDef)):
        return node
    if not any(isinstance(x, ast.Return) for x in ast.walk(node)):
        return node
    new = copy.copy(node)
    for field, value in ast.iter_fields(node):
        if isinstance(value, list):
            setattr(new, field, [_rewrite_returns(x) if isinstance(x, ast.AST) else x for x in value])
        elif isinstance(value, ast.AST):
            setattr(new, field, _rewrite_returns(value))
    return new


class GeneratorProgram:
    """The top-level statements of a generator function, cut into steps."""

    def __init__(self, func):
        self.func = func
        a = func.args
        self.params = [p.arg for p in a.posonlyargs + a.args + a.kwonlyargs] + ([a.vararg.arg] if a.vararg else []) + ([a.kwarg.arg] if a.kwarg else [])
        self.selfname = None
        self.locals = sorted(set(own_names(func)) | {"_gen_yf_"})
        self.segments = []
        pending = []
        for s in func.body:
            if isinstance(s, ast.Expr) and isinstance(s.value, ast.YieldFrom):
                # yield from X  ==  for v in X: yield v
                tgt = ast.copy_location(ast.Name(id="_gen_yf_", ctx=ast.Store()), s)
                load = ast.copy_location(ast.Name(id="_gen_yf_", ctx=ast.Load()), s)
                s = ast.copy_location(ast.For(target=tgt, iter=s.value.value, body=[ast.copy_location(ast.Expr(value=ast.copy_location(ast.Yield(value=load), s)), s)], orelse=[]), s)
            if isinstance(s, (ast.For, ast.While)) and any(_yields_in(x) for x in s.body):
                if pending:
                    self.segments.append(("stmts", pending))
                    pending = []
                self.segments.append(("for" if isinstance(s, ast.For) else "while", s))
            elif _yields_in(s):
                self.segments.append(("stmts", pending + [s]))
                pending = []
            else:
                pending.append(s)
        if pending:
            self.segments.append(("stmts", pending))
        self._steps = {}

    def step(self, key, build):
        f = self._steps.get(key)
        if f is None:
            f = self._steps[key] = build()
        return f


def eligible(func, decorators):
    """Can ``func`` (a generator function) be followed step by step?"""
    if not isinstance(func, ast.FunctionDef) or decorators & {"inlineCallbacks", "contextmanager"}:
        return False
    if _defines_closures(func):
        return False
    outer = lexical_parent(func)
    if outer is not None and isinstance(outer, FUNC_TYPES) and getattr(outer, "_class", None) is not None and outer.args.args and outer.args.args[0].arg in free_names(func):
        return False   # (a generator nested in a method that uses the method's `self`: attribute paths of self are resolved in the method's own frames)
    for n in ast.walk(func):
        if isinstance(n, (ast.Global, ast.Nonlocal)):
            return False
        if isinstance(n, (ast.Yield, ast.YieldFrom)):
            p = getattr(n, "_parent", None)
            if p is not None and not isinstance(p, ast.Expr):
                return False   # the value of the yield expression is used (send)
    return True


class LazyGenerators:
    """Mixin of ObjectDomain (needs: apply / inline through ``interp``, ``_decorators``, ``_pull``)."""

    lazy_generators = True
    generator_budget = 256   # steps one request for an element may take, and elements one exhaustive consumer may take

    # ------------------------------------------------------------------------------------------ making
    def _program(self, func):
        cache = self.__dict__.setdefault("_gen_programs", {})
        got = cache.get(id(func))
        if got is None:
            got = cache[id(func)] = (func, GeneratorProgram(func))
        return got[1]

    def lazy_eligible(self, func):
        cache = self.__dict__.setdefault("_gen_eligible", {})
        got = cache.get(id(func))
        if got is None:
            got = cache[id(func)] = (func, self.lazy_generators and getattr(self, "collect_yields", True) and eligible(func, self._decorators(func)))
        return got[1]

    def _synth(self, prog, name, params, body):
        """A function of the generator's class / module whose parameters are the generator's locals."""
        func = prog.func
        args = ast.arguments(posonlyargs=[], args=[ast.arg(arg=p) for p in params], vararg=None, kwonlyargs=[], kw_defaults=[], kwarg=None, defaults=[])
        f = ast.FunctionDef(name=f"<{func.name}: {name}>", args=args, body=body or [ast.Pass()], decorator_list=[], returns=None, type_comment=None)
        ast.copy_location(f, func)
        ast.fix_missing_locations(f)
        for attr in ("_module", "_class", "_parent"):
            if hasattr(func, attr):
                setattr(f, attr, getattr(func, attr))
        return f

    def make_generator(self, interp, func, argvals, st, caller, receiver=None, is_method=True, closure_env=(), self_value=None, name=None):
        """The call func(**argvals) as a generator object; None when this generator is not followed step by step."""
        if not self.lazy_eligible(func):
            return None
        if (closure_env or (lexical_parent(func) is not None and free_names(func))) and not getattr(self, "closure_cells", False):
            return None   # (a nested generator finds its free variables through the cells of the frame that made it)
        prog = self._program(func)
        method = is_method and getattr(func, "_class", None) is not None and bool(func.args.args)
        selfname = func.args.args[0].arg if method else None
        # binding the arguments (defaults, *args, **kwargs) is the interpreter's: a function with the same signature
        binder = prog.step(("bind",), lambda: self._bind_function(prog))
        n = st.get("ev.gens", 0)
        names = tuple(x for x in prog.params if x != selfname)
        out = []
        for r in interp.inline(binder, argvals, st, caller, receiver=receiver, is_method=is_method, self_value=self_value, closure_env=closure_env, export_locals=(f"genobj.{n}.L", names)):
            if r.kind == "exc":
                out.append(r)
                continue
            eff_receiver = receiver if receiver is not None else (caller.receiver if caller is not None else None)
            s2 = r.state.set("ev.gens", n + 1).set(f"genobj.{n}", ("genstate", func, 0, None, (), (eff_receiver, self_value, bool(method), tuple(closure_env))))
            out.append(val(("genobj", n), s2))
        return out

    def _bind_function(self, prog):
        func = prog.func
        f = ast.FunctionDef(name=f"<{func.name}: bind>", args=func.args, body=[ast.copy_location(ast.Pass(), func)], decorator_list=[], returns=None, type_comment=None)
        ast.copy_location(f, func)
        for attr in ("_module", "_class", "_parent"):
            if hasattr(func, attr):
                setattr(f, attr, getattr(func, attr))
        return f

    # ------------------------------------------------------------------------------------------ stepping
    def _run_step(self, interp, n, prog, stepf, ctx, st, fr, extra=None):
        receiver, self_value, method, closure_env = ctx
        selfname = prog.func.args.args[0].arg if method else None
        names = tuple(x for x in prog.locals if x != selfname)
        argvals = {x: st.get(f"genobj.{n}.L.{x}", UNBOUND) for x in names}
        if extra:
            argvals.update(extra)
        key = f"gen.{fr.depth + 1}"
        saved = st.get(key, None) if st.has(key) else None
        out = []
        for r in interp.inline(stepf, argvals, st.set(key, ()), fr, receiver=receiver, is_method=method, self_value=self_value, closure_env=closure_env, export_locals=(f"genobj.{n}.L", names)):
            ys = r.state.get(key, ())
            s2 = r.state.set(key, saved) if saved is not None else type(st)(frozenset((k, v) for k, v in r.state.items if k != key), r.state.log)
            if any(k_.startswith("outparam.") for k_, _ in s2.items):
                s2 = s2.drop_prefix("outparam.")   # (the final values of the locals are kept with the generator already)
            out.append((r.kind, r.value, tuple(ys), s2))
        return out

    def _params(self, prog, ctx, extra=()):
        selfname = prog.func.args.args[0].arg if ctx[2] else None
        return ([selfname] if selfname else []) + [x for x in prog.locals if x != selfname] + list(extra)

    def _advance(self, interp, g, st, fr):
        """One step of the generator -> list of ("state", state) | ("exc", exception, state)."""
        n = g[1]
        key = f"genobj.{n}"
        _, func, pc, loopiter, buf, ctx = st.get(key)
        prog = self._program(func)
        kind, node = prog.segments[pc]
        sig = ctx[2]

        def finished(s, e=None):
            return s.set(key, ("genstate", func, len(prog.segments), None, (), ctx))

        def const(s):
            return ast.copy_location(ast.Constant(value=s), func)

        def ret(s):
            return ast.copy_location(ast.Return(value=const(s)), func)
        out = []
        if kind == "stmts":
            stepf = prog.step(("stmts", pc, sig), lambda: self._synth(prog, f"statements {pc}", self._params(prog, ctx), [_rewrite_returns(s) for s in node] + [ret("next")]))
            for k, v, ys, s2 in self._run_step(interp, n, prog, stepf, ctx, st, fr):
                if k == "exc":
                    out.append(("exc", v, finished(s2)))
                elif v == ("const", "ret"):
                    out.append(("state", s2.set(key, ("genstate", func, len(prog.segments), None, ys, ctx))))
                else:
                    out.append(("state", s2.set(key, ("genstate", func, pc + 1, None, ys, ctx))))
            return out
        if kind == "for" and loopiter is None:
            # the iterable is evaluated once, when the loop is reached
            stepf = prog.step(("iter", pc, sig), lambda: self._synth(prog, f"iterable of loop {pc}", self._params(prog, ctx), [ast.copy_location(ast.Return(value=node.iter), node)]))
            for k, v, ys, s2 in self._run_step(interp, n, prog, stepf, ctx, st, fr):
                if k == "exc":
                    out.append(("exc", v, finished(s2)))
                    continue
                for r in self.iterator_of(interp, v, s2, fr):
                    if r.kind == "exc":
                        out.append(("exc", r.value, finished(r.state)))
                    elif r.value == TOP:
                        # not a sequence the model can take element by element (the domain has its own way of looping over it):
                        # this loop runs as a whole, from the state before its iterable was evaluated
                        out.append(("state", st.set(key, ("genstate", func, pc, ("whole-loop",), (), ctx))))
                    else:
                        out.append(("state", r.state.set(key, ("genstate", func, pc, r.value, ys, ctx))))
            return out
        if kind == "for" and loopiter == ("whole-loop",):
            stepf = prog.step(("whole", pc, sig), lambda: self._synth(prog, f"loop {pc}", self._params(prog, ctx), [_rewrite_returns(node), ret("next")]))
            for k, v, ys, s2 in self._run_step(interp, n, prog, stepf, ctx, st, fr):
                if k == "exc":
                    out.append(("exc", v, finished(s2)))
                else:
                    out.append(("state", s2.set(key, ("genstate", func, len(prog.segments) if v == ("const", "ret") else pc + 1, None, ys, ctx))))
            return out
        orelse = [_rewrite_returns(s) for s in node.orelse]
        if kind == "for":
            for k_, el, rest, s1 in self._pull(interp, loopiter, st, fr):
                if k_ == "exc":
                    out.append(("exc", el, finished(s1)))
                elif k_ == "unknown":
                    raise Undecided(f"the generator {func.name} iterates something the model cannot follow (line {node.lineno})")
                elif k_ == "end":
                    out.extend(self._loop_over(interp, n, prog, pc, orelse, ctx, s1, fr, finished))
                else:
                    body = ast.copy_location(ast.For(target=node.target, iter=ast.copy_location(ast.Tuple(elts=[ast.copy_location(ast.Name(id=ITEM, ctx=ast.Load()), node)], ctx=ast.Load()), node),
                                                     body=[_rewrite_returns(s) for s in node.body], orelse=[ret("cont")]), node)
                    stepf = prog.step(("for", pc, sig), lambda: self._synth(prog, f"iteration of loop {pc}", self._params(prog, ctx, [ITEM]), [body, ret("break")]))
                    for k, v, ys, s2 in self._run_step(interp, n, prog, stepf, ctx, s1, fr, extra={ITEM: el}):
                        out.extend(self._after_iteration(func, key, prog, pc, rest, ctx, k, v, ys, s2, finished))
            return out
        # while
        test = ast.copy_location(ast.If(test=ast.copy_location(ast.UnaryOp(op=ast.Not(), operand=node.test), node), body=[ret("end")], orelse=[]), node)
        once = ast.copy_location(ast.For(target=ast.copy_location(ast.Name(id=ONCE, ctx=ast.Store()), node), iter=ast.copy_location(ast.Tuple(elts=[const(None)], ctx=ast.Load()), node),
                                         body=[_rewrite_returns(s) for s in node.body], orelse=[ret("cont")]), node)
        stepf = prog.step(("while", pc, sig), lambda: self._synth(prog, f"iteration of loop {pc}", self._params(prog, ctx), [test, once, ret("break")]))
        for k, v, ys, s2 in self._run_step(interp, n, prog, stepf, ctx, st, fr):
            if k == "val" and v == ("const", "end"):
                out.extend(self._loop_over(interp, n, prog, pc, orelse, ctx, s2, fr, finished))
            else:
                out.extend(self._after_iteration(func, key, prog, pc, None, ctx, k, v, ys, s2, finished))
        return out

    def _after_iteration(self, func, key, prog, pc, loopiter, ctx, k, v, ys, s2, finished):
        if k == "exc":
            return [("exc", v, finished(s2))]
        if v == ("const", "ret"):
            return [("state", s2.set(key, ("genstate", func, len(prog.segments), None, ys, ctx)))]
        if v == ("const", "break"):
            return [("state", s2.set(key, ("genstate", func, pc + 1, None, ys, ctx)))]
        if v == ("const", "cont"):
            return [("state", s2.set(key, ("genstate", func, pc, loopiter, ys, ctx)))]
        raise Undecided(f"a step of the generator {func.name} ended in a way the model does not know ({v!r})")

    def _loop_over(self, interp, n, prog, pc, orelse, ctx, st, fr, finished):
        """The loop ran to its end (not by `break`): its else clause, then the next statement."""
        func = prog.func
        key = f"genobj.{n}"
        if not orelse:
            return [("state", st.set(key, ("genstate", func, pc + 1, None, (), ctx)))]
        tail = ast.copy_location(ast.Return(value=ast.copy_location(ast.Constant(value="next"), func)), func)
        stepf = prog.step(("else", pc, ctx[2]), lambda: self._synth(prog, f"else of loop {pc}", self._params(prog, ctx), list(orelse) + [tail]))
        out = []
        for k, v, ys, s2 in self._run_step(interp, n, prog, stepf, ctx, st, fr):
            if k == "exc":
                out.append(("exc", v, finished(s2)))
            else:
                out.append(("state", s2.set(key, ("genstate", func, len(prog.segments) if v == ("const", "ret") else pc + 1, None, ys, ctx))))
        return out

    def iterator_of(self, interp, v, st, fr):
        """iter(v) -> results: an iterator object over ``v`` (itself when it is one)."""
        from .absint import heap_key, is_handle
        if is_handle(v):
            v = st.get(heap_key(v), TOP)   # (a list iterated while it changes: the elements it has now)
        if self.pullable(v):
            return [val(v, st)]
        out = []
        for r in interp._forced([val(v, st)], fr):
            if r.kind == "exc":
                out.append(r)
                continue
            els = interp._exact_elements(r.value)
            if els is None:
                out.append(val(TOP, r.state))
                continue
            k = r.state.get("ev.iters", 0)
            out.append(val(("seqiter", k), r.state.set("ev.iters", k + 1).set(f"it.{k}", ("tuple",) + tuple(els))))
        return out

    @staticmethod
    def _holder_frame():
        """A frame for consuming a generator where no code of the repository is running (a rule reads a result)."""
        from .absint import Frame
        holder = ast.parse("def _a_consumer_of_the_result():\n    pass").body[0]
        return Frame(holder, 0, None, name="<a consumer of the result>", is_method=False)

    # ------------------------------------------------------------------------------------------ consuming
    def pull_generator(self, interp, g, st, fr):
        """next(g) -> list of ("item", element, g, state) | ("end", None, None, state) | ("exc", e, None, state) | ("unknown", ...)."""
        key = f"genobj.{g[1]}"
        out = []
        work = [st]
        for _ in range(self.generator_budget):
            nxt = []
            for s in work:
                gs = s.get(key, None)
                if not (isinstance(gs, tuple) and gs[:1] == ("genstate",)):
                    out.append(("unknown", None, None, s))
                    continue
                _, func, pc, loopiter, buf, ctx = gs
                if buf:
                    out.append(("item", buf[0], g, s.set(key, ("genstate", func, pc, loopiter, tuple(buf[1:]), ctx))))
                    continue
                if pc >= len(self._program(func).segments):
                    out.append(("end", None, None, s))
                    continue
                for res in self._advance(interp, g, s, fr):
                    if res[0] == "exc":
                        out.append(("exc", res[1], None, res[2]))
                    else:
                        nxt.append(res[1])
            work = list(dict.fromkeys(nxt))
            if not work:
                return out
        raise Undecided(f"a generator does not yield its next element within {self.generator_budget} steps")

    def exhaust(self, interp, seq, st, fr):
        """list(seq) for something produced on demand -> results (a tuple of its elements, or an exception)."""
        out = []
        work = [((), seq, st)]
        for _ in range(self.generator_budget):
            nxt = []
            for acc, cur, s0 in work:
                for kind, el, rest, s1 in self._pull(interp, cur, s0, fr):
                    if kind == "end":
                        out.append(val(("tuple",) + acc, s1))
                    elif kind == "exc":
                        out.append(exc(el, s1))
                    elif kind == "unknown":
                        out.append(val(TOP, s1))
                    else:
                        nxt.append((acc + (el,), rest, s1))
            work = list(dict.fromkeys(nxt))
            if not work:
                return out
        raise Undecided(f"a generator consumed to its end yields more than {self.generator_budget} elements")

    # ------------------------------------------------------------------------------------------ generator expressions
    def lazy_comprehension(self, interp, comp, st, fr):
        """(elt for target in <something produced on demand> if ...) -> results, or None (evaluated at once, as before)."""
        if not self.lazy_generators or not isinstance(comp, ast.GeneratorExp) or len(comp.generators) != 1 or comp.generators[0].is_async:
            return None
        if any(isinstance(n, (ast.Lambda, ast.Yield, ast.YieldFrom, ast.NamedExpr)) for n in ast.walk(comp)):
            return None
        gen = comp.generators[0]
        got = interp.eval(gen.iter, st, fr)
        if not got or not all(r.kind == "exc" or self.pullable(r.value) or interp._exact_elements(r.value) is not None for r in got):
            return None
        # (over a sequence known element by element the expression is lazy as well: nothing of it runs unless it is consumed)
        got = [r if r.kind == "exc" or self.pullable(r.value) else x for r in got for x in ([r] if r.kind == "exc" or self.pullable(r.value) else self.iterator_of(interp, r.value, r.state, fr))]
        targets = {n.id for n in ast.walk(gen.target) if isinstance(n, ast.Name)}
        used = sorted({n.id for x in [comp.elt] + list(gen.ifs) for n in ast.walk(x) if isinstance(n, ast.Name)} - targets)
        out = []
        for r in got:
            if r.kind == "exc":
                out.append(r)
                continue
            selfname = fr.selfname
            from .absint import heap_key
            s_cur, env = r.state, []
            for nm in used:
                if nm == selfname or not s_cur.has(fr.local(nm)):
                    continue
                v = s_cur.get(fr.local(nm))
                if getattr(self, "heap", False) and isinstance(v, tuple) and v[:1] in (("kwdict",), ("tuple",), ("set",)):
                    # the expression runs later and elsewhere: a list / dict / set it uses is the same object the frame goes on using
                    k = s_cur.get("ev.heap", 0)
                    s_cur = s_cur.set("ev.heap", k + 1).set(heap_key(("h", k)), v).set(fr.local(nm), ("h", k))
                    v = ("h", k)
                env.append((nm, v))
            ctx = (fr.receiver, fr.instance, selfname)
            out.append(val(("lazycomp", comp, r.value, tuple(env), ctx, fr.func), s_cur))
        return out

    def _comp_step(self, comp, env_names, ctx, host):
        cache = self.__dict__.setdefault("_comp_steps", {})
        key = (id(comp), env_names, ctx[2])
        got = cache.get(key)
        if got is not None:
            return got[1]
        gen = comp.generators[0]
        body = ast.copy_location(ast.Expr(value=ast.copy_location(ast.Yield(value=comp.elt), comp)), comp)
        for cond in reversed(gen.ifs):
            body = ast.copy_location(ast.If(test=cond, body=[body], orelse=[]), comp)
        loop = ast.copy_location(ast.For(target=gen.target, iter=ast.copy_location(ast.Tuple(elts=[ast.copy_location(ast.Name(id=ITEM, ctx=ast.Load()), comp)], ctx=ast.Load()), comp),
                                         body=[body], orelse=[]), comp)
        params = ([ctx[2]] if ctx[2] else []) + list(env_names) + [ITEM]
        args = ast.arguments(posonlyargs=[], args=[ast.arg(arg=p) for p in params], vararg=None, kwonlyargs=[], kw_defaults=[], kwarg=None, defaults=[])
        f = ast.FunctionDef(name="<generator expression>", args=args, body=[loop], decorator_list=[], returns=None, type_comment=None)
        ast.copy_location(f, comp)
        ast.fix_missing_locations(f)
        for attr in ("_module", "_class"):
            if host is not None and hasattr(host, attr):
                setattr(f, attr, getattr(host, attr))
        parent = host
        while parent is not None and not isinstance(parent, (ast.ClassDef, ast.Module)):
            parent = getattr(parent, "_parent", None)
        f._parent = parent if parent is not None else getattr(getattr(host, "_module", None), "tree", None)
        cache[key] = (comp, f)
        return f

    def pull_comprehension(self, interp, seq, st, fr):
        _, comp, source, env, ctx, host = seq
        receiver, self_value, selfname = ctx
        stepf = self._comp_step(comp, tuple(nm for nm, _ in env), ctx, host)
        out = []
        work = [(source, st)]
        for _ in range(self.generator_budget):
            nxt = []
            for src, s0 in work:
                for kind, el, rest, s1 in self._pull(interp, src, s0, fr):
                    if kind != "item":
                        out.append((kind, el, None, s1))
                        continue
                    argvals = dict(env)
                    argvals[ITEM] = el
                    key = f"gen.{fr.depth + 1}"
                    saved = s1.get(key, None) if s1.has(key) else None
                    for r in interp.inline(stepf, argvals, s1.set(key, ()), fr, receiver=receiver, is_method=selfname is not None, self_value=self_value):
                        ys = r.state.get(key, ())
                        s2 = r.state.set(key, saved) if saved is not None else type(s1)(frozenset((k, v) for k, v in r.state.items if k != key), r.state.log)
                        nxt_seq = ("lazycomp", comp, rest, env, ctx, host)
                        if r.kind == "exc":
                            out.append(("exc", r.value, None, s2))
                        elif ys:
                            out.append(("item", ys[0], nxt_seq, s2))
                        else:
                            nxt.append((rest, s2))   # filtered out: the next element of the source
            work = list(dict.fromkeys(nxt))
            if not work:
                return out
        raise Undecided(f"a generator expression does not produce its next element within {self.generator_budget} elements of its source")
