"""E4 (structured part): a small abstract interpreter over finite domains.

``exec`` maps (statement, abstract state) to a set of (exit kind, payload,
state) with exit kinds next / return / raise / break / continue; ``finally``
is re-applied to every exit kind, loops are iterated to a fixed point over the
finite state set, in-package callees can be inlined (method values bound at the
call site) and recursion is closed by iterating callee summaries.

A *domain* object supplies the rule-specific semantics:

  domain.call(interp, call, state, frame)  -> list of Result | None (default)
  domain.truth(value)                      -> 'T' | 'F' | 'TF'
  domain.load_attr(chain, state, frame)    -> value | None (default: state lookup)
  domain.load_attr_multi(chain, state, frame) -> [Result] | None (optional; an attribute read that splits the state)
  domain.match(handler_type, exc, state)   -> 'yes' | 'no' | 'maybe'
  domain.unknown_call(call, state)         -> list of Result for un-modelled calls
  domain.compare(op, left, right)          -> 'T' | 'F' | 'TF' | None (default rules)

States carry a witness log (not part of their identity) so that a violation
can be printed as a path.
"""

import ast
import os
import time

from .astutil import FUNC_TYPES, attr_chain, dotted, norm
from .loader import Undecided

TOP = "Top"
NONE = "None"
NOTNONE = "NotNone"
TRUE = "True"
FALSE = "False"
EMPTY = "Empty"
NONEMPTY = "NonEmpty"


class State:
    __slots__ = ("items", "log", "_hash")

    def __init__(self, items=(), log=()):
        self.items = items if isinstance(items, frozenset) else frozenset(items)
        self.log = log
        self._hash = hash(self.items)

    def __hash__(self):
        return self._hash

    def __eq__(self, other):
        return self.items == other.items

    def get(self, name, default=TOP):
        for k, v in self.items:
            if k == name:
                return v
        return default

    def has(self, name):
        return any(k == name for k, _ in self.items)

    def set(self, name, value):
        new = frozenset((k, v) for k, v in self.items if k != name) | {(name, value)}
        return State(new, self.log)

    def drop_prefix(self, prefix):
        return State(frozenset((k, v) for k, v in self.items if not k.startswith(prefix)), self.log)

    def note(self, entry, cap=3):
        """Append to the witness log (identity-free); repeated entries are capped."""
        if self.log.count(entry) >= cap:
            return self
        return State(self.items, self.log + (entry,))

    def as_dict(self):
        return dict(sorted(self.items))

    def __repr__(self):
        return "{" + ", ".join(f"{k}={v}" for k, v in sorted(self.items)) + "}"


class Result:
    """('val', value, state) or ('exc', excvalue, state)."""

    __slots__ = ("kind", "value", "state")

    def __init__(self, kind, value, state):
        self.kind = kind
        self.value = value
        self.state = state

    def key(self):
        return (self.kind, self.value, self.state)


def dedupe(results):
    seen = {}
    for r in results:
        k = r.key()
        if k not in seen:
            seen[k] = r
    return list(seen.values())


def val(value, state):
    return Result("val", value, state)


def exc(value, state):
    if _TRACE_EXC and value == ("exc", _TRACE_EXC):
        import traceback
        traceback.print_stack(limit=int(os.environ.get("TTSA_TRACE_DEPTH", "6")))
    return Result("exc", value, state)


_TRACE_EXC = os.environ.get("TTSA_TRACE_EXC")


def is_handle(v):
    """("h", n): a reference to the list / dict kept under the state key "heap.<n>" -- an object with more than one
    owner (a variable and an attribute, a caller's local and a callee's parameter, ...)."""
    return isinstance(v, tuple) and len(v) == 2 and v[0] == "h"


def heap_key(h):
    return f"heap.{h[1]}"


def unbox(v, st):
    return st.get(heap_key(v), TOP) if is_handle(v) else v


def unbox_deep(v, st, depth=0, iters=False):
    """``v`` with every heap reference replaced by what it refers to now; with ``iters`` also every iterator object
    over a known sequence by the elements it has left (how a rule reads a value the analysed code returned)."""
    if is_handle(v):
        v = st.get(heap_key(v), TOP)
    if iters and isinstance(v, tuple) and len(v) == 2 and v[0] == "seqiter" and isinstance(st.get(f"it.{v[1]}"), tuple):
        v = st.get(f"it.{v[1]}")
    if isinstance(v, tuple) and depth < 8 and any(isinstance(x, tuple) for x in v):
        return tuple(unbox_deep(x, st, depth + 1, iters) if isinstance(x, tuple) else x for x in v)
    return v


def without_heap(st):
    """The state as the rules read it: every slot holds the content of the object it refers to."""
    if not any(k.startswith("heap.") for k, _ in st.items):
        return st
    return State(frozenset((k, unbox_deep(v, st)) for k, v in st.items if not k.startswith("heap.") and k != "ev.heap"), st.log)


def _empty_container(e):
    """The abstract value of an expression that makes a new empty dict / list / set, else None."""
    if isinstance(e, ast.Dict) and not e.keys:
        return ("kwdict", ())
    if isinstance(e, ast.List) and not e.elts:
        return ("tuple",)
    if isinstance(e, ast.Call) and isinstance(e.func, ast.Name) and not e.args and not e.keywords:
        return {"dict": ("kwdict", ()), "list": ("tuple",), "set": ("set", ("empty",))}.get(e.func.id)
    return None


def _is_local(key):
    """Frame-local keys look like '<depth>:<name>'."""
    i = key.find(":")
    return i > 0 and key[:i].isdigit()


_OWN_NAMES = {}


def own_names(func):
    """Names that are local to ``func`` by Python's scoping rules (parameters and every name bound in its body,
    nested scopes excluded, minus names declared nonlocal / global)."""
    got = _OWN_NAMES.get(id(func))
    if got is not None:
        return got[1]
    a = func.args
    names = {p.arg for p in a.posonlyargs + a.args + a.kwonlyargs}
    if a.vararg:
        names.add(a.vararg.arg)
    if a.kwarg:
        names.add(a.kwarg.arg)
    outer = set()
    if not isinstance(func, ast.Lambda):
        stack = list(func.body)
        while stack:
            n = stack.pop()
            if isinstance(n, FUNC_TYPES + (ast.ClassDef,)):
                names.add(n.name)
                continue
            if isinstance(n, ast.Lambda):
                continue
            if isinstance(n, ast.Name) and isinstance(n.ctx, (ast.Store, ast.Del)):
                names.add(n.id)
            elif isinstance(n, (ast.Import, ast.ImportFrom)):
                names.update((al.asname or al.name).split(".")[0] for al in n.names)
            elif isinstance(n, ast.ExceptHandler) and n.name:
                names.add(n.name)
            elif isinstance(n, (ast.Nonlocal, ast.Global)):
                outer.update(n.names)
            stack.extend(ast.iter_child_nodes(n))
    names -= outer
    _OWN_NAMES[id(func)] = (func, frozenset(names))
    return _OWN_NAMES[id(func)][1]


_HAS_NESTED = {}


def _defines_closures(func):
    got = _HAS_NESTED.get(id(func))
    if got is None:
        body = getattr(func, "body", None)
        stmts = body if isinstance(body, list) else ([body] if body is not None else [])
        found = any(isinstance(n, FUNC_TYPES + (ast.Lambda,)) for s_ in stmts for n in ast.walk(s_))
        got = _HAS_NESTED[id(func)] = (func, found)
    return got[1]


_CAPTURED = {}


def _captured_names(func):
    """Own variables of ``func`` that a function defined inside it reads or writes."""
    got = _CAPTURED.get(id(func))
    if got is None:
        body = func.body if isinstance(func.body, list) else [func.body]
        nested = [n for s_ in body for n in ast.walk(s_) if isinstance(n, FUNC_TYPES + (ast.Lambda,))]
        own = own_names(func)
        got = _CAPTURED[id(func)] = (func, tuple(sorted({n_ for f_ in nested for n_ in free_names(f_) if n_ in own})))
    return got[1]


_FREE = {}


def free_names(func):
    """Names a nested function / lambda reads or writes that are not its own locals."""
    got = _FREE.get(id(func))
    if got is None:
        used = set()
        body = func.body if isinstance(func.body, list) else [func.body]
        for s_ in body:
            for n in ast.walk(s_):
                if isinstance(n, ast.Name):
                    used.add(n.id)
        got = _FREE[id(func)] = (func, frozenset(used - own_names(func)))
    return got[1]


def is_func_value(v):
    return isinstance(v, tuple) and len(v) in (2, 3) and v[0] == "func" and isinstance(v[1], FUNC_TYPES + (ast.Lambda,))


def _plain_type_expr(e):
    """An except clause that names its classes directly: Name / dotted name / tuple of those."""
    if isinstance(e, ast.Tuple):
        return all(_plain_type_expr(x) for x in e.elts)
    return isinstance(e, (ast.Name, ast.Attribute))


def _reads_variable(e, st, fr):
    """An except clause whose class comes from a variable (`except self.failureException:`, `except expected:`): the
    expression has to be evaluated -- the name it ends in says nothing."""
    parts = e.elts if isinstance(e, ast.Tuple) else [e]
    for x in parts:
        root = x
        while isinstance(root, ast.Attribute):
            root = root.value
        if isinstance(root, ast.Name) and (root.id == fr.selfname or st.has(fr.local(root.id))):
            return True
    return False


def lexical_parent(func):
    """The function (or lambda) whose body defines ``func``, or None for methods / module-level functions."""
    n = getattr(func, "_parent", None)
    while n is not None:
        if isinstance(n, FUNC_TYPES + (ast.Lambda,)):
            return n
        if isinstance(n, ast.ClassDef):
            return None
        n = getattr(n, "_parent", None)
    return None


class Frame:
    def __init__(self, func, depth, receiver=None, name=None, is_method=True):
        self.func = func
        self.depth = depth
        self.receiver = receiver  # ClassInfo executing a method body (CHA receiver)
        self.prefix = f"{depth}:"
        self.name = name or getattr(func, "name", "<lambda>")
        self.selfname = None
        self.self_key = "self"   # state prefix of the object whose method runs: "self" for the analysed object, "inst.<n>" for an instance created during the run
        self.instance = None     # the ("inst", n, ClassInfo) value when a method of such an instance runs
        self.caller = None
        self.enclosing = ()   # frames of the lexically enclosing functions that are still executing, innermost first
        self.cellrefs = {}    # free variable -> state key of the cell it shares with the (returned) defining frame
        if is_method and isinstance(func, FUNC_TYPES) and func.args.args and receiver is not None:
            self.selfname = func.args.args[0].arg

    def bind_enclosing(self, caller):
        """Find the live frames of the lexically enclosing functions (closures) in the caller chain."""
        chain = []
        want = lexical_parent(self.func) if isinstance(self.func, FUNC_TYPES + (ast.Lambda,)) else None
        c = caller
        while want is not None and c is not None:
            if c.func is want:
                chain.append(c)
                want = lexical_parent(want)
            c = c.caller
        self.enclosing = tuple(chain)
        if self.selfname is None and isinstance(self.func, FUNC_TYPES + (ast.Lambda,)):
            own = own_names(self.func)
            for e in chain:
                if e.selfname is not None and e.selfname not in own:
                    self.selfname = e.selfname
                    self.self_key = e.self_key
                    self.instance = e.instance
                    break
                own = own | own_names(e.func)

    def local(self, name):
        if name in self.cellrefs:
            return self.cellrefs[name]
        if self.enclosing and isinstance(self.func, FUNC_TYPES + (ast.Lambda,)) and name not in own_names(self.func):
            for e in self.enclosing:
                if name in e.cellrefs:
                    return e.cellrefs[name]
                if name in own_names(e.func):
                    return e.prefix + name   # a free variable: the enclosing function's local
        return self.prefix + name


class DefaultDomain:
    """Conservative defaults; rule modules subclass this."""

    sentinel_values = ()

    def truth(self, value):
        if value in (NONE, FALSE, EMPTY, 0):
            return "F"
        if value in (TRUE, NONEMPTY):
            return "T"
        if isinstance(value, tuple) and value and value[0] in ("sentinel", "obj", "func", "method", "user", "mismatch"):
            return "T"
        return "TF"

    def is_none(self, value):
        if value == NONE:
            return "T"
        if value in (TOP,):
            return "TF"
        return "F"

    def compare(self, op, left, right):
        return None

    def call(self, interp, call, state, frame):
        return None

    def load_attr(self, chain, state, frame):
        return None

    def match(self, handler_type, excvalue, state):
        return "maybe" if handler_type is not None else "yes"

    def unknown_call(self, call, state):
        return [val(TOP, state), exc("exc", state)]

    def iter_kind(self, value):
        """'empty' | 'nonempty' | 'unknown' for the iterable of a for loop."""
        if value == EMPTY:
            return "empty"
        if value == NONEMPTY:
            return "nonempty"
        return "unknown"

    def element(self, itervalue, state, node):
        return TOP

    def store_subscript(self, target, value, state, frame, interp):
        return state

    def with_swallows(self, item, excvalue, state):
        return "no"

    def binop(self, node, left, right):
        return TOP

    def constant(self, node):
        v = node.value
        if v is None:
            return NONE
        if v is True:
            return TRUE
        if v is False:
            return FALSE
        if isinstance(v, (str, bytes)) and len(v) == 0:
            return EMPTY
        return ("const", v) if isinstance(v, (str, int)) else NOTNONE


GUESSED = []   # branches taken both ways because their condition evaluated to "the analysis does not know", since the last verdict


class Interp:
    def __init__(self, domain, max_depth=8, max_states=20000):
        self.domain = domain
        self.max_depth = max_depth
        self.max_states = max_states
        self.max_trips = 600   # iterations of one `while` loop along one path before the analysis gives up on it
        self.summaries = {}
        self.in_progress = set()
        self.changed = False
        self._raw_nodes = set()
        self.steps = 0
        self.max_steps = int(os.environ.get("TTSA_MAX_STEPS", "2000000"))   # per interpretation: beyond it the run is undecided, never silently cut short
        self.max_seconds = float(os.environ.get("TTSA_MAX_SECONDS", "240"))
        self.t0 = time.time()
        self.functions = set()
        self.track_return_sites = False
        self.round_cache = {}

    # ------------------------------------------------------------------ expressions
    def eval(self, e, st, fr, share=False):
        """-> list of Result.  With ``share`` (the value is about to get a second owner: an assignment from a name,
        an argument of an inlined call) a list / dict named by ``e`` is moved to the heap and its handle returned;
        otherwise handles are replaced by the content they refer to, so that consumers see plain values."""
        if share and isinstance(e, (ast.BoolOp, ast.IfExp)) and getattr(self.domain, "heap", False):
            # x or y / a if c else b handing on one of its operands: that operand's own object, not a copy
            for sub in (e.values if isinstance(e, ast.BoolOp) else (e.body, e.orelse)):
                self._raw_nodes.add(id(sub))
            try:
                return self._eval(e, st, fr)
            finally:
                for sub in (e.values if isinstance(e, ast.BoolOp) else (e.body, e.orelse)):
                    self._raw_nodes.discard(id(sub))
        if not share and id(e) in self._raw_nodes:
            share = True
        rs = self._eval(e, st, fr)
        if not getattr(self.domain, "heap", False):
            return rs
        if share and isinstance(e, (ast.Name, ast.Attribute)):
            out = []
            for r in rs:
                if r.kind == "val" and isinstance(r.value, tuple) and r.value[:1] in (("tuple",), ("kwdict",), ("set",)):
                    key = self._key_of(e, fr, r.state, follow=False)
                    if key is not None and r.state.has(key) and r.state.get(key) == r.value:
                        n = r.state.get("ev.heap", 0)
                        h = ("h", n)
                        out.append(val(h, r.state.set("ev.heap", n + 1).set(heap_key(h), r.value).set(key, h)))
                        continue
                out.append(r)
            return out
        if share and isinstance(e, (ast.Call, ast.Subscript, ast.BoolOp, ast.IfExp)):
            return rs
        if any(r.kind == "val" and is_handle(r.value) for r in rs):
            return [Result(r.kind, unbox(r.value, r.state), r.state) if r.kind == "val" and is_handle(r.value) else r for r in rs]
        return rs

    _FRESH_CONTAINER_CALLS = ("list", "dict", "set", "Counter", "collections.Counter", "defaultdict", "collections.defaultdict", "OrderedDict", "collections.OrderedDict")

    def _box_members(self, exprs, r):
        """A list / dict / set made inside another container is an object of its own: it goes to the heap, so that
        `outer[k].append(x)` changes it where every holder of `outer` sees it."""
        if not getattr(self.domain, "heap", False):
            return r
        vals_, st = list(r.value), r.state
        for i, (x, v) in enumerate(zip(exprs, vals_)):
            fresh = isinstance(x, (ast.List, ast.Dict, ast.Set, ast.ListComp, ast.DictComp, ast.SetComp)) or (
                isinstance(x, ast.Call) and dotted(x.func) in self._FRESH_CONTAINER_CALLS)
            if fresh and isinstance(v, tuple) and v[:1] in (("tuple",), ("kwdict",), ("set",)):
                n = st.get("ev.heap", 0)
                st = st.set("ev.heap", n + 1).set(heap_key(("h", n)), v)
                vals_[i] = ("h", n)
        return val(tuple(vals_), st) if st is not r.state else r

    def _eval(self, e, st, fr):
        self.steps += 1
        if self.steps > self.max_steps or (self.steps & 1023 == 0 and time.time() - self.t0 > self.max_seconds):
            raise Undecided("abstract interpretation exceeded its step budget")
        d = self.domain
        if e is None:
            return [val(NONE, st)]
        if isinstance(e, ast.Constant):
            return [val(d.constant(e), st)]
        if isinstance(e, ast.Name):
            if fr.instance is not None and e.id == fr.selfname:
                return [val(fr.instance, st)]
            key = fr.local(e.id)
            if st.has(key):
                return [val(st.get(key), st)]
            v = d.load_attr([e.id], st, fr)
            if v is None:
                deep = getattr(d, "load_attr_interp", None)
                if deep is not None:
                    rs = deep(self, [e.id], st, fr)
                    if rs is not None:
                        return rs
            return [val(TOP if v is None else v, st)]
        if isinstance(e, ast.Attribute):
            ch = attr_chain(e)
            if ((ch and len(ch) >= 3) or (isinstance(e.value, ast.Call) and dotted(e.value.func) == "getattr")) and e.attr == "append" and getattr(d, "heap", False) and isinstance(e.ctx, ast.Load):
                # obj.items.append taken as a value (handed on, called later): bound to the list that attribute holds
                key = self._key_of(e.value, fr, st)
                cur = st.get(key, None) if key is not None else None
                if isinstance(cur, tuple) and cur[:1] == ("tuple",):
                    return [val(("listappend", key), st)]
            if ch and len(ch) >= 3 and e.attr in getattr(d, "SET_METHODS", ()) and getattr(d, "heap", False) and isinstance(e.ctx, ast.Load):
                # obj.tags.update taken as a value: the method bound to the set that attribute holds
                key = self._key_of(e.value, fr, st)
                cur = st.get(key, None) if key is not None else None
                if isinstance(cur, tuple) and cur[:1] == ("set",):
                    return [val(("setmethod", key, e.attr), st)]
            if ch:
                deep = getattr(d, "load_attr_interp", None)
                if deep is not None:
                    rs = deep(self, ch, st, fr)
                    if rs is not None:
                        return rs
                multi = getattr(d, "load_attr_multi", None)
                if multi is not None:
                    rs = multi(ch, st, fr)
                    if rs is not None:
                        return rs
                v = d.load_attr(ch, st, fr)
                if v is not None:
                    return [val(v, st)]
                if fr.selfname and ch[0] == fr.selfname:
                    key = fr.self_key + "." + ".".join(ch[1:])
                    if st.has(key):
                        return [val(st.get(key), st)]
                    return [val(TOP, st)]
            out = []
            of_value = getattr(d, "attr_of_value", None)
            for r in self.eval(e.value, st, fr):
                if r.kind == "exc":
                    out.append(r)
                    continue
                got = of_value(self, r.value, e.attr, r.state, fr) if of_value is not None else None
                if got is not None:
                    out.extend(got)
                else:
                    v = d.load_attr(["<value>", e.attr], r.state, fr)
                    out.append(val(TOP if v is None else v, r.state))
            return out
        if isinstance(e, ast.Call):
            first = self._first_of_comprehension(e, st, fr)
            if first is not None:
                return dedupe(first)
            seqop = self._builtin_on_exact(e, st, fr)
            if seqop is not None:
                return dedupe(seqop)
            lst = self._local_list_update(e, st, fr)
            if lst is not None:
                return dedupe(lst)
            res = d.call(self, e, st, fr)
            if res is not None:
                return dedupe(res)
            # default: evaluate func / args for their effects, then unknown result
            out = []
            for r in self.eval_list([e.func] + [a.value if isinstance(a, ast.Starred) else a for a in e.args] + [k.value for k in e.keywords], st, fr):
                if r.kind == "exc":
                    out.append(r)
                else:
                    out.extend(d.unknown_call(e, r.state))
            return dedupe(out)
        if isinstance(e, ast.UnaryOp) and isinstance(e.op, ast.Not):
            out = []
            for r in self.eval(e.operand, st, fr):
                if r.kind == "exc":
                    out.append(r)
                else:
                    asked = self._object_truth(r.value, r.state, fr)
                    for a in (asked if asked is not None else [r]):
                        if a.kind == "exc":
                            out.append(a)
                            continue
                        t = d.truth(a.value)
                        out.append(val({"T": FALSE, "F": TRUE}.get(t, ("bool",)), a.state))
            return out
        if isinstance(e, ast.UnaryOp) and isinstance(e.op, (ast.USub, ast.UAdd)):
            out = []
            for r in self.eval(e.operand, st, fr):
                if r.kind == "exc":
                    out.append(r)
                elif isinstance(r.value, tuple) and len(r.value) == 2 and r.value[0] == "const" and isinstance(r.value[1], (int, float)) and not isinstance(r.value[1], bool):
                    out.append(val(("const", -r.value[1] if isinstance(e.op, ast.USub) else r.value[1]), r.state))
                else:
                    out.append(val(TOP, r.state))
            return out
        if isinstance(e, ast.BoolOp):
            return self._boolop(e, st, fr)
        if isinstance(e, ast.Compare):
            return self._compare(e, st, fr)
        if isinstance(e, ast.IfExp):
            out = []
            for br, s2 in self.branch(e.test, st, fr):
                if br == "exc":
                    out.append(s2)
                elif br:
                    out.extend(self.eval(e.body, s2, fr))
                else:
                    out.extend(self.eval(e.orelse, s2, fr))
            return dedupe(out)
        if isinstance(e, (ast.List, ast.Tuple, ast.Set)):
            out = []
            # (an element that is a list / dict some name or object already holds stays that object inside the display)
            parts_ = self.eval_list([x.value if isinstance(x, ast.Starred) else x for x in e.elts], st, fr,
                                    share=[isinstance(x, (ast.Name, ast.Attribute, ast.Call, ast.Subscript)) for x in e.elts] if getattr(d, "heap", False) else ())
            if any(isinstance(x, ast.Starred) for x in e.elts):
                parts_ = self._forced_list(parts_, fr)   # [*map(...)]: unpacking consumes the iterator
            for r in parts_:
                if r.kind == "exc":
                    out.append(r)
                else:
                    r = self._box_members(list(e.elts), r)
                    if any(isinstance(x, ast.Starred) for x in e.elts):
                        # [*a, b]: exact when every starred part is an exact sequence
                        items = []
                        for x, xv in zip(e.elts, r.value):
                            if isinstance(x, ast.Starred):
                                els = self._exact_elements(xv) if getattr(d, "exact_lists", False) else None
                                if els is None:
                                    items = None
                                    break
                                items.extend(els)
                            else:
                                items.append(xv)
                        v = ("tuple",) + tuple(items) if items is not None and not isinstance(e, ast.Set) else ("set", ("copy", ("tuple",) + tuple(items))) if items is not None else TOP
                    elif (isinstance(e, ast.Tuple) and (e.elts or getattr(d, "exact_lists", False))) or (isinstance(e, ast.List) and getattr(d, "exact_lists", False)) \
                            or (isinstance(e, ast.Set) and getattr(d, "exact_lists", False) and all(isinstance(x, ast.Constant) for x in e.elts)):
                        # (a set of constants is iterated in source order: one of its possible orders)
                        v = ("tuple",) + tuple(r.value)
                    else:
                        v = EMPTY if not e.elts else NONEMPTY
                    out.append(val(v, r.state))
            return out
        if isinstance(e, ast.Dict):
            out = []
            exact = getattr(d, "exact_dicts", False)
            keyer = getattr(d, "_dkey", None)
            for r in self.eval_list([x if x is not None else ast.Constant(value=None) for x in list(e.keys)] + list(e.values), st, fr):
                if r.kind == "exc":
                    out.append(r)
                    continue
                r = self._box_members([x if x is not None else ast.Constant(value=None) for x in list(e.keys)] + list(e.values), r)
                items = None
                if exact:
                    keys_, vals_ = r.value[: len(e.keys)], r.value[len(e.keys):]
                    items = []
                    for kn, kv, v in zip(e.keys, keys_, vals_):
                        if kn is None:
                            # {**other}: the items of an exact dict, later keys replacing earlier ones
                            v = unbox(v, r.state)
                            if not (isinstance(v, tuple) and v[:1] == ("kwdict",)):
                                items = None
                                break
                            for k2, v2 in v[1]:
                                items = [(k_, v_) for k_, v_ in items if k_ != k2] + [(k2, v2)] if all(k_ != k2 for k_, _ in items) or True else items
                            continue
                        if isinstance(kn, ast.Constant):
                            ok_, key_ = True, kn.value
                        elif keyer is not None:
                            ok_, key_ = keyer(kv)
                        else:
                            ok_, key_ = False, None
                        if not ok_:
                            items = None
                            break
                        items = [(k_, v_) for k_, v_ in items if k_ != key_] + [(key_, v)]
                if items is not None:
                    out.append(val(("kwdict", tuple(items)), r.state))
                else:
                    out.append(val(EMPTY if not e.keys else NONEMPTY, r.state))
            return out
        if isinstance(e, ast.Subscript):
            out = []
            for r in self.eval_list([e.value, e.slice], st, fr):
                if r.kind == "exc":
                    out.append(r)
                    continue
                base, idx = r.value
                v = TOP
                hookm = getattr(d, "subscript_multi", None)
                hm = hookm(base, idx, r.state, fr) if hookm is not None else None
                if hm is not None:
                    out.extend(hm)
                    continue
                hook = getattr(d, "subscript", None)
                hv = hook(base, idx, r.state, fr) if hook is not None else None
                if hv is not None:
                    out.append(val(hv, r.state))
                    continue
                if idx in (TRUE, FALSE):
                    idx = ("const", 1 if idx == TRUE else 0)   # a bool used as an index is 0 / 1
                if getattr(d, "exact_lists", False) and (base in (NONE, TRUE, FALSE) or (isinstance(base, tuple) and base[:1] == ("const",) and isinstance(base[1], (int, float)))):
                    out.append(exc(("exc", "TypeError"), r.state))   # a number / None / a bool is not subscriptable
                    continue
                if isinstance(base, tuple) and base and base[0] == "tuple" and isinstance(idx, tuple) and idx[0] == "const" and isinstance(idx[1], int) and -len(base) < idx[1] < len(base) - 1:
                    v = base[1 + idx[1]] if idx[1] >= 0 else base[idx[1]]
                out.append(val(v, r.state))
            return out
        if isinstance(e, ast.Slice):
            parts = [e.lower, e.upper, e.step]
            out = []
            for r in self.eval_list([p_ for p_ in parts if p_ is not None], st, fr):
                if r.kind == "exc":
                    out.append(r)
                    continue
                it = iter(r.value)
                vals_ = tuple(next(it) if p_ is not None else NONE for p_ in parts)
                out.append(val(("slice",) + vals_, r.state))
            return out
        if isinstance(e, ast.BinOp):
            out = []
            for r in self.eval_list([e.left, e.right], st, fr):
                out.append(r if r.kind == "exc" else val(d.binop(e, r.value[0], r.value[1]), r.state))
            return out
        if isinstance(e, ast.JoinedStr):
            hook = getattr(d, "joined_str", None)
            if hook is None:
                return [val(NOTNONE, st)]
            parts = [v.value if isinstance(v, ast.FormattedValue) else v for v in e.values]
            plain = all(not isinstance(v, ast.FormattedValue) or (v.conversion == -1 and v.format_spec is None) for v in e.values)
            out = []
            for r in self.eval_list(parts, st, fr):
                out.append(r if r.kind == "exc" else val(hook(list(r.value)) if plain else NOTNONE, r.state))
            return out
        if isinstance(e, ast.Lambda):
            return self._closure_with_defaults(e, st, fr)
        if isinstance(e, (ast.ListComp, ast.SetComp, ast.GeneratorExp, ast.DictComp)):
            lhook = getattr(self.domain, "lazy_comprehension", None)
            lazy = lhook(self, e, st, fr) if lhook is not None and isinstance(e, ast.GeneratorExp) else None
            if lazy is not None:
                return dedupe(lazy)
            eager = self._eager_comprehension(e, st, fr)
            if eager is not None:
                return dedupe(eager)
            chook = getattr(self.domain, "comprehension", None)
            if chook is not None:
                got = chook(self, e, st, fr)
                if got is not None:
                    return dedupe(got)
            v = self.domain.load_attr(["<comprehension>", e], st, fr)
            if v is None and getattr(self.domain, "strict_calls", False) and getattr(self.domain, "strict_comprehensions", True) and any(isinstance(n_, ast.Call) for n_ in ast.walk(e)):
                # (its element expression calls things: giving up on it silently would lose what those calls do)
                raise Undecided(f"the comprehension at line {getattr(e, 'lineno', '?')} of {fr.name} iterates something the analysis cannot enumerate")
            return [val(TOP if v is None else v, st)]
        if isinstance(e, ast.NamedExpr):
            out = []
            for r in self.eval(e.value, st, fr):
                out.append(r if r.kind == "exc" else val(r.value, r.state.set(fr.local(e.target.id), r.value)))
            return out
        if isinstance(e, ast.Starred):
            return self.eval(e.value, st, fr)
        if isinstance(e, (ast.Yield, ast.YieldFrom, ast.Await)):
            out = []
            inner = e.value
            inner_results = self.eval(inner, st, fr) if inner is not None else [val(NONE, st)]
            if isinstance(e, ast.YieldFrom):
                inner_results = self._forced(inner_results, fr)   # yield from map(...): the mapped function runs as the elements are handed on
            for r in inner_results:
                if r.kind == "exc":
                    out.append(r)
                else:
                    v = self.domain.load_attr(["<yield>", e, r.value], r.state, fr)
                    if isinstance(v, list):
                        out.extend(v)
                    else:
                        out.append(val(TOP if v is None else v, r.state))
            return out
        return [val(TOP, st)]

    def _local_list_update(self, call, st, fr):
        """x.append(v) / x.extend(seq) on a local that holds a list built in this frame (opt-in per domain)."""
        if not getattr(self.domain, "track_lists", False):
            return None
        f = call.func
        if isinstance(f, ast.Attribute) and f.attr in ("reverse", "clear") and not call.args and not call.keywords:
            key = self._key_of(f.value, fr, st)
            cur = st.get(key, None) if key is not None else None
            if isinstance(cur, tuple) and cur[:1] == ("tuple",):
                return [val(NONE, st.set(key, ("tuple",) + (tuple(reversed(cur[1:])) if f.attr == "reverse" else ())))]
            return None
        if isinstance(f, ast.Attribute) and f.attr == "insert" and len(call.args) == 2 and not call.keywords and isinstance(call.args[0], ast.Constant) and call.args[0].value == 0:
            key = self._key_of(f.value, fr, st)
            cur = st.get(key, None) if key is not None else None
            if isinstance(cur, tuple) and cur[:1] == ("tuple",):
                return [r if r.kind == "exc" else val(NONE, r.state.set(key, ("tuple", r.value) + tuple(r.state.get(key)[1:]))) for r in self.eval(call.args[1], st, fr)]
            return None
        if isinstance(f, ast.Attribute) and f.attr == "pop" and len(call.args) <= 1 and not call.keywords:
            # x.pop() / x.pop(0) on an exact list
            key = self._key_of(f.value, fr, st)
            cur = st.get(key, None) if key is not None else None
            if not (isinstance(cur, tuple) and cur[:1] == ("tuple",)):
                return None
            index = -1
            if call.args:
                try:
                    index = ast.literal_eval(call.args[0])   # (-1 is a unary minus applied to 1)
                except (ValueError, TypeError, SyntaxError):
                    return None
                if not isinstance(index, int) or isinstance(index, bool):
                    return None
            items = list(cur[1:])
            if not -len(items) <= index < len(items):
                return [exc(("exc", "IndexError"), st)]
            popped = items.pop(index)
            return [val(popped, st.set(key, ("tuple",) + tuple(items)))]
        if not (isinstance(f, ast.Attribute) and f.attr in ("append", "extend") and len(call.args) == 1 and not call.keywords):
            return None
        if getattr(self.domain, "heap", False) and any(isinstance(n_, ast.Call) for n_ in ast.walk(f.value)):
            # <a call>.append(v): when the call hands back an object some holder keeps (a list on the heap), that object grows
            got = self.eval(f.value, st, fr, share=True) if self._slot_of(f.value, fr, st) is None else []
            shared = bool(got) and all(r0.kind == "exc" or (is_handle(r0.value) and isinstance(r0.state.get(heap_key(r0.value), None), tuple)
                                                         and r0.state.get(heap_key(r0.value))[:1] == ("tuple",)) for r0 in got)
            if got and not shared:
                return None
            out = []
            for r0 in (got if shared else []):
                if r0.kind == "exc":
                    out.append(r0)
                    continue
                hk = heap_key(r0.value)
                for r in self.eval(call.args[0], r0.state, fr):
                    if r.kind == "exc":
                        out.append(r)
                        continue
                    base = r.state.get(hk)
                    els = [r.value] if f.attr == "append" else self._exact_elements(r.value)
                    out.append(val(NONE, r.state.set(hk, base + tuple(els) if els is not None else TOP)))
            if shared:
                return out
        key = self._key_of(f.value, fr, st)   # a local, or an attribute of self kept in the state
        if key is None or not st.has(key):
            return None
        cur = st.get(key)
        if cur == EMPTY:
            cur = ("tuple",)
        if not (isinstance(cur, tuple) and cur[:1] == ("tuple",)):
            return None
        out = []
        for r in self.eval(call.args[0], st, fr):
            if r.kind == "exc":
                out.append(r)
                continue
            base = r.state.get(key)
            base = ("tuple",) if base == EMPTY else base
            if f.attr == "append":
                new = base + (r.value,)
            else:
                els = self._exact_elements(r.value)
                new = base + tuple(els) if els is not None else TOP
            if new != TOP and len(new) > getattr(self.domain, "list_widening", 5):
                new = NONEMPTY  # widening: an unboundedly growing list is just "non-empty"
            out.append(val(NONE, r.state.set(key, new)))
        return out

    def _builtin_on_exact(self, call, st, fr):
        """tuple(x) / list(x) / any(x) / all(x) / len(x) when x evaluates to an exact sequence."""
        if not (isinstance(call.func, ast.Name) and call.func.id in ("tuple", "list", "any", "all", "len") and len(call.args) == 1 and not call.keywords):
            return None
        arg = call.args[0]
        if not isinstance(arg, (ast.Name, ast.Attribute, ast.ListComp, ast.GeneratorExp, ast.Tuple, ast.List, ast.Call)):
            return None
        rs = self._forced(self.eval(arg, st, fr), fr)
        rs = [Result(r.kind, unbox(r.value, r.state), r.state) if r.kind == "val" and is_handle(r.value) else r for r in rs]   # (a list some object holds: what it holds now)
        if any(r.kind == "val" and self._exact_elements(r.value) is None for r in rs):
            if isinstance(arg, ast.Call):
                # the argument was evaluated (its effects are in rs): finish the call with an unknown result
                out = []
                for r in rs:
                    out.append(r if r.kind == "exc" else val(self._exact_fallback(call.func.id, r.value), r.state))
                return out
            return None
        out = []
        for r in rs:
            if r.kind == "exc":
                out.append(r)
                continue
            els = self._exact_elements(r.value)
            name = call.func.id
            if name in ("tuple", "list"):
                out.append(val(("tuple",) + tuple(els), r.state))
            elif name == "len":
                out.append(val(("const", len(els)), r.state))
            else:
                ts = [self.domain.truth(unbox(v, r.state)) for v in els]   # (an element that is a list some object holds: what it holds now)
                if name == "any":
                    t = "T" if "T" in ts else ("F" if all(x == "F" for x in ts) else "TF")
                else:
                    t = "F" if "F" in ts else ("T" if all(x == "T" for x in ts) else "TF")
                out.append(val({"T": TRUE, "F": FALSE}.get(t, ("bool",)), r.state))
        return out

    @staticmethod
    def _exact_fallback(name, value):
        if name in ("any", "all"):
            return ("bool",)
        if name in ("tuple", "list"):
            return value if value in (EMPTY, NONEMPTY) else TOP
        return TOP

    def _first_of_comprehension(self, call, st, fr):
        """next(<genexp>[, default]) / any(<genexp>) / all(<genexp>) over a single-generator
        comprehension, interpreted as the loop it abbreviates (so the domain's loop hooks apply):
            for target in iter:
                if conds: found = elt; break
        """
        if not (isinstance(call.func, ast.Name) and call.func.id in ("next", "any", "all") and call.args and not call.keywords):
            return None
        comp = call.args[0]
        if not isinstance(comp, (ast.GeneratorExp, ast.ListComp)) or len(comp.generators) != 1 or comp.generators[0].is_async:
            return None
        if call.func.id != "next" and len(call.args) != 1:
            return None
        gen = comp.generators[0]
        found = f"<first@{comp.lineno}:{comp.col_offset}>"
        elt = comp.elt
        if call.func.id == "all":
            elt = ast.UnaryOp(op=ast.Not(), operand=comp.elt)
        body = [ast.Assign(targets=[ast.Name(id=found, ctx=ast.Store())], value=(comp.elt if call.func.id == "next" else ast.Constant(value=True))), ast.Break()]
        conds = list(gen.ifs) + ([elt] if call.func.id != "next" else [])
        if conds:
            test = conds[0] if len(conds) == 1 else ast.BoolOp(op=ast.And(), values=conds)
            body = [ast.If(test=test, body=body, orelse=[])]
        loop = ast.For(target=gen.target, iter=gen.iter, body=body, orelse=[], type_comment=None)
        for n in ast.walk(loop):
            if not hasattr(n, "lineno"):
                n.lineno = comp.lineno
                n.col_offset = comp.col_offset
                n.end_lineno = getattr(comp, "end_lineno", comp.lineno)
                n.end_col_offset = getattr(comp, "end_col_offset", comp.col_offset)
        out = []
        key = fr.local(found)
        st0 = State(frozenset((k, v) for k, v in st.items if k != key), st.log)
        for kind, payload, s2 in self._for(loop, st0, fr):
            if kind == "raise":
                out.append(exc(payload, s2))
                continue
            if kind != "next":
                continue
            hit = s2.has(key)
            v = s2.get(key) if hit else None
            s3 = State(frozenset((k, vv) for k, vv in s2.items if k != key), s2.log)
            if call.func.id == "next":
                if hit:
                    out.append(val(v, s3))
                elif len(call.args) > 1:
                    out.extend(self.eval(call.args[1], s3, fr))
                else:
                    out.append(exc(("framework", "StopIteration"), s3))
            elif call.func.id == "any":
                out.append(val(TRUE if hit else FALSE, s3))
            else:
                out.append(val(FALSE if hit else TRUE, s3))
        return out

    def eval_list(self, exprs, st, fr, share=()):
        """Evaluate left to right; Result.value is the list of values.  ``share``: per expression, whether the
        value gets a second owner (see eval)."""
        acc = [val((), st)]
        for i_, e in enumerate(exprs):
            sh = bool(share) and (share is True or (i_ < len(share) and share[i_]))
            nxt = []
            for r in acc:
                if r.kind == "exc":
                    nxt.append(r)
                    continue
                for r2 in self.eval(e, r.state, fr, share=sh):
                    if r2.kind == "exc":
                        nxt.append(r2)
                    else:
                        nxt.append(val(r.value + (r2.value,), r2.state))
            acc = dedupe(nxt)
        return acc

    def _boolop(self, e, st, fr):
        is_and = isinstance(e.op, ast.And)
        results = []
        pending = [(st, 0)]
        seen = set()
        while pending:
            s, i = pending.pop()
            if (s, i) in seen:
                continue
            seen.add((s, i))
            for r in self.eval(e.values[i], s, fr):
                if r.kind == "exc":
                    results.append(r)
                    continue
                last = i == len(e.values) - 1
                t = self.domain.truth(unbox(r.value, r.state))
                if last:
                    results.append(r)
                    continue
                decided = ("F" if is_and else "T")
                if t in (decided, "TF"):
                    s2 = self.refine(e.values[i], r.state, fr, not is_and)
                    if s2 is not None:
                        v = r.value if t == decided else (FALSE if is_and and r.value in (TOP, ("bool",)) else TRUE if not is_and and r.value == ("bool",) else r.value)
                        results.append(val(v, s2))
                if t != decided:
                    s2 = self.refine(e.values[i], r.state, fr, is_and)
                    if s2 is not None:
                        pending.append((s2, i + 1))
        return dedupe(results)

    def _compare(self, e, st, fr):
        if len(e.ops) != 1:
            out = []
            for r in self.eval_list([e.left] + list(e.comparators), st, fr):
                out.append(r if r.kind == "exc" else val(("bool",), r.state))
            return out
        op = e.ops[0]
        out = []
        if isinstance(op, (ast.In, ast.NotIn)):
            members = self._literal_members(e.comparators[0], fr)
            if members is not None:
                for r in self.eval(e.left, st, fr):
                    if r.kind == "exc":
                        out.append(r)
                        continue
                    l = r.value
                    if l == NONE:
                        hit = None in members
                    elif l in (TRUE, FALSE):
                        hit = (l == TRUE) in members
                    elif isinstance(l, tuple) and len(l) == 2 and l[0] == "const":
                        try:
                            hit = l[1] in members
                        except TypeError:
                            hit = None
                    else:
                        hit = None
                    if hit is None:
                        out.append(val(("bool",), r.state))
                    else:
                        out.append(val(TRUE if hit == isinstance(op, ast.In) else FALSE, r.state))
                return out
        both = self.eval_list([e.left, e.comparators[0]], st, fr)
        if isinstance(op, (ast.In, ast.NotIn)):
            # x in map(...) / a generator: membership consumes the iterator (as far as the model follows: to its end)
            forced = []
            for r in both:
                if r.kind == "val" and getattr(self.domain, "pullable", lambda v: False)(r.value[1]) or (r.kind == "val" and isinstance(r.value[1], tuple) and r.value[1][:1] == ("lazymap",)):
                    for g in self._forced([Result("val", r.value[1], r.state)], fr):
                        forced.append(g if g.kind == "exc" else Result("val", (r.value[0], g.value), g.state))
                else:
                    forced.append(r)
            both = forced
        for r in both:
            if r.kind == "exc":
                out.append(r)
                continue
            l, rr = r.value
            t = self.domain.compare(op, l, rr)
            if t is None:
                t = self._default_compare(op, l, rr)
            if t not in ("T", "F") and (l == TOP or rr == TOP) and len(GUESSED) < 8:
                GUESSED.append(f"`{norm(e)[:70]}` at line {getattr(e, 'lineno', '?')} of {fr.name} (an operand is unknown to the analysis)")
            out.append(val({"T": TRUE, "F": FALSE}.get(t, ("bool",)), r.state))
        return out

    @staticmethod
    def _const_elements(node):
        if isinstance(node, ast.Call) and dotted(node.func) in ("frozenset", "set", "tuple", "list") and len(node.args) == 1:
            node = node.args[0]
        if isinstance(node, (ast.List, ast.Tuple, ast.Set)) and all(isinstance(x, ast.Constant) for x in node.elts):
            return [x.value for x in node.elts]
        return None

    def _literal_members(self, node, fr):
        """Python constants of a literal container, or of a module-level / class-level name bound once to one."""
        got = self._const_elements(node)
        if got is not None or not isinstance(node, (ast.Name, ast.Attribute)):
            return got
        name = node.id if isinstance(node, ast.Name) else node.attr
        n = fr.func
        while n is not None:
            body = getattr(n, "body", None)
            if isinstance(body, list) and isinstance(n, (ast.Module, ast.ClassDef)):
                found = [s_.value for s_ in body if isinstance(s_, ast.Assign) and any(isinstance(t, ast.Name) and t.id == name for t in s_.targets)]
                if len(found) == 1:
                    return self._const_elements(found[0])
            n = getattr(n, "_parent", None)
        return None

    def _default_compare(self, op, l, r):
        d = self.domain
        if isinstance(op, (ast.Is, ast.IsNot)):
            pos = isinstance(op, ast.Is)
            if r == NONE or l == NONE:
                other = l if r == NONE else r
                t = d.is_none(other)
                if t == "TF":
                    return "TF"
                return t if pos else {"T": "F", "F": "T"}[t]
            if self._atomic(l) and self._atomic(r):
                same = l == r
                return ("T" if same else "F") if pos else ("F" if same else "T")
            return "TF"
        if isinstance(op, (ast.Eq, ast.NotEq)):
            pos = isinstance(op, ast.Eq)
            if self._atomic(l) and self._atomic(r):
                same = l == r
                return ("T" if same else "F") if pos else ("F" if same else "T")
            if (self._atomic(l) and self._distinct_from(r, l)) or (self._atomic(r) and self._distinct_from(l, r)):
                return "F" if pos else "T"
            return "TF"
        return "TF"

    def _atomic(self, v):
        return v in (NONE, TRUE, FALSE) or (isinstance(v, tuple) and v and v[0] in ("sentinel", "const"))

    def _distinct_from(self, v, atom):
        """Is abstract value v certainly different from the atomic value atom?"""
        if v == TOP or v == ("bool",):
            return False
        if atom == NONE:
            return self.domain.is_none(v) == "F"
        if isinstance(atom, tuple) and atom[0] == "sentinel":
            return v != TOP and v != atom and not (isinstance(v, tuple) and v[0] == "maybe-sentinel")
        return False

    # ------------------------------------------------------------------ conditions
    def branch(self, test, st, fr):
        """-> list of (True|False|'exc', state-or-Result)"""
        out = []
        for r in self.eval(test, st, fr):
            if r.kind == "exc":
                out.append(("exc", r))
                continue
            asked = self._object_truth(r.value, r.state, fr)
            if asked is not None:
                # an object whose class says when it is true (__bool__ / __len__): that method runs
                for a in asked:
                    if a.kind == "exc":
                        out.append(("exc", a))
                        continue
                    t = self.domain.truth(a.value)
                    if t in ("T", "TF"):
                        out.append((True, a.state))
                    if t in ("F", "TF"):
                        out.append((False, a.state))
                continue
            t = self.domain.truth(r.value)
            if t == "TF" and r.value == TOP and len(GUESSED) < 8:
                # neither the code nor the scenario's environment says which way this goes: the analysis does not know.  Both ways
                # are followed; a rule that then finds a problem must not call it a violation (ttsa.report.Context.check).
                GUESSED.append(f"`{norm(test)[:70]}` at line {getattr(test, 'lineno', '?')} of {fr.name}")
            if t == "TF" and os.environ.get("TTSA_TRACE_FORKS"):
                print("FORK", fr.name, getattr(test, "lineno", "?"), norm(test)[:80], "value", str(r.value)[:160], "operands", [str(x.value)[:100] for n_ in ast.walk(test) if isinstance(n_, ast.Name) for x in self.eval(n_, r.state, fr)],
                      "parts", [str(x.value)[:200] for n_ in (list(getattr(test, "comparators", [])) + ([test.operand] if isinstance(test, ast.UnaryOp) else [])) for x in self.eval(n_, r.state, fr)][:3] if os.environ.get("TTSA_TRACE_FORKS") == "2" else "")
            if t in ("T", "TF"):
                s2 = self.refine(test, r.state, fr, True)
                if s2 is not None:
                    out.append((True, s2))
            if t in ("F", "TF"):
                s2 = self.refine(test, r.state, fr, False)
                if s2 is not None:
                    out.append((False, s2))
        return out

    def _object_truth(self, value, st, fr):
        hook = getattr(self.domain, "object_truth", None)
        return hook(self, value, st, fr) if hook is not None else None

    def _key_of(self, e, fr, st=None, follow=True):
        if follow and st is not None and isinstance(e, ast.Subscript) and getattr(self.domain, "heap", False) \
                and not any(isinstance(n, (ast.Call, ast.NamedExpr, ast.Yield, ast.YieldFrom, ast.Await)) for n in ast.walk(e)):
            # outer[k] naming a list / dict that lives on the heap (evaluating names, attributes and constants has no effects)
            got = self._eval(e, st, fr)
            if len(got) == 1 and got[0].kind == "val" and is_handle(got[0].value):
                return heap_key(got[0].value)
        key = self._slot_of(e, fr, st)
        if follow and key is not None and st is not None and is_handle(st.get(key, None)):
            return heap_key(st.get(key))   # the slot refers to a shared object: reads and in-place updates go to that object
        return key

    def _slot_of(self, e, fr, st=None):
        hook = getattr(self.domain, "key_of", None) if st is not None else None
        if hook is not None:
            got = hook(self, e, st, fr)
            if got is not None:
                return got
        if isinstance(e, ast.Name):
            return fr.local(e.id)
        if isinstance(e, ast.NamedExpr) and isinstance(e.target, ast.Name):
            return fr.local(e.target.id)   # (x := ...) tested for truth: what is learnt is about x
        if st is not None and isinstance(e, ast.Call) and isinstance(e.func, ast.Name) and e.func.id == "getattr" and len(e.args) == 2 and not e.keywords \
                and isinstance(e.args[0], (ast.Name, ast.Attribute)) and not any(isinstance(n_, ast.Call) for n_ in ast.walk(e.args[1])):
            # getattr(x, <constant name>) names the same slot as x.<name>
            got = self.eval(e.args[1], st, fr)
            if len(got) == 1 and got[0].kind == "val" and isinstance(got[0].value, tuple) and got[0].value[:1] == ("const",) and isinstance(got[0].value[1], str) and got[0].value[1].isidentifier():
                return self._slot_of(ast.copy_location(ast.Attribute(value=e.args[0], attr=got[0].value[1], ctx=ast.Load()), e), fr, st)
        ch = attr_chain(e)
        if ch and fr.selfname and ch[0] == fr.selfname and len(ch) >= 2:
            return fr.self_key + "." + ".".join(ch[1:])
        return None

    def refine(self, test, st, fr, truth):
        """Refine the state by assuming ``test`` evaluates to ``truth``; None = infeasible."""
        d = self.domain
        if isinstance(test, ast.UnaryOp) and isinstance(test.op, ast.Not):
            return self.refine(test.operand, st, fr, not truth)
        key = self._key_of(test, fr, st)
        if key is not None and st.has(key):
            v = st.get(key)
            t = d.truth(v)
            if t == "T" and not truth or t == "F" and truth:
                return None
            rs = st
            if t == "TF":
                nv = getattr(d, "refine_truth", lambda v, tr: v)(v, truth)
                if nv is None:
                    return None
                rs = st.set(key, nv)
            hook = getattr(d, "refine", None)
            return hook(self, test, rs, fr, truth) if hook is not None else rs
        if isinstance(test, ast.Compare) and len(test.ops) == 1:
            op = test.ops[0]
            l, r = test.left, test.comparators[0]
            if isinstance(op, (ast.Is, ast.IsNot)) and isinstance(r, ast.Constant) and r.value is None:
                key = self._key_of(l, fr, st)
                if key is not None and st.has(key):
                    v = st.get(key)
                    want_none = truth == isinstance(op, ast.Is)
                    t = d.is_none(v)
                    if want_none:
                        if t == "F":
                            return None
                        return st.set(key, NONE)
                    if t == "T":
                        return None
                    if v == TOP:
                        return st.set(key, NOTNONE)
                    nv = getattr(d, "refine_notnone", lambda v: v)(v)
                    return st.set(key, nv)
        if isinstance(test, ast.BoolOp):
            is_and = isinstance(test.op, ast.And)
            if truth == is_and:
                # all operands have that truth value
                s = st
                for v in test.values:
                    s = self.refine(v, s, fr, truth)
                    if s is None:
                        return None
                return s
        hook = getattr(d, "refine", None)
        if hook is not None:
            return hook(self, test, st, fr, truth)
        return st

    # ------------------------------------------------------------------ statements
    def exec_block(self, stmts, states, fr):
        """states: iterable of State -> list of (kind, payload, State)"""
        out = []
        cur = list(dict.fromkeys(states))
        for s in stmts:
            if not cur:
                break
            nxt = {}
            for st in cur:
                for kind, payload, s2 in self.exec(s, st, fr):
                    if kind == "next":
                        nxt.setdefault(s2, None)
                    else:
                        out.append((kind, payload, s2))
            cur = list(nxt)
            if len(cur) > self.max_states:
                raise Undecided(f"abstract state set exceeded its budget after line {getattr(s, 'lineno', '?')} of {fr.name}")
        out.extend(("next", None, st) for st in cur)
        return self._dd(out)

    @staticmethod
    def _dd(outs):
        seen = {}
        for o in outs:
            if o not in seen:
                seen[o] = None
        return list(seen)

    def assign(self, target, value, st, fr):
        if isinstance(target, ast.Name):
            key = fr.local(target.id)
            hook = getattr(self.domain, "rebound", None)
            if hook is not None and st.has(key):
                old = st.get(key)
                return hook(old, st.set(key, value), fr)
            return st.set(key, value)
        if isinstance(target, ast.Attribute):
            hook_p = getattr(self.domain, "assign_attribute", None)
            if hook_p is not None:
                got = hook_p(self, target, value, st, fr)   # obj.name = v where the class of obj declares name as a property: its setter runs
                if got is not None:
                    return got
            ch = attr_chain(target)
            if ch and fr.selfname and ch[0] == fr.selfname and len(ch) >= 3 and getattr(self.domain, "heap", False):
                hook_on = getattr(self.domain, "store_attr_on", None)
                bases = self.eval(target.value, st, fr)
                if hook_on is not None and len(bases) == 1 and bases[0].kind == "val":
                    r = hook_on(bases[0].value, target.attr, value, bases[0].state, fr)
                    if r is not None:
                        return r
            if ch and fr.selfname and ch[0] == fr.selfname:
                hook = getattr(self.domain, "store_attr", None)
                key = fr.self_key + "." + ".".join(ch[1:])
                if hook is not None:
                    r = hook(key, value, st, fr)
                    if r is not None:
                        return r
                return st.set(key, value)
            hook = getattr(self.domain, "store_attr_on", None)
            if hook is not None and isinstance(target.value, ast.Name) and st.has(fr.local(target.value.id)):
                r = hook(st.get(fr.local(target.value.id)), target.attr, value, st, fr)
                if r is not None:
                    return r
            if hook is not None and ch and len(ch) >= 3:
                # a.b.c = v: the object a.b evaluates to (reading attributes has no effects) gets the attribute
                bases = self.eval(target.value, st, fr)
                if len(bases) == 1 and bases[0].kind == "val":
                    r = hook(bases[0].value, target.attr, value, bases[0].state, fr)
                    if r is not None:
                        return r
            if hook is not None and not ch and not any(isinstance(n_, (ast.Call, ast.NamedExpr)) for n_ in ast.walk(target.value)):
                # <expression>.name = v (xs[i].name = v ...): the object the expression evaluates to gets the attribute
                bases = self.eval(target.value, st, fr)
                if len(bases) == 1 and bases[0].kind == "val":
                    r = hook(bases[0].value if not is_handle(bases[0].value) else bases[0].value, target.attr, value, bases[0].state, fr)
                    if r is not None:
                        return r
            if getattr(self.domain, "strict_calls", False) and len(GUESSED) < 8 and not target.attr.startswith("__"):
                GUESSED.append(f"the assignment `{norm(target)[:60]} = ...` at line {getattr(target, 'lineno', '?')} of {fr.name} (the analysis cannot tell which object it changes)")
            return st
        if isinstance(target, (ast.Tuple, ast.List)):
            if is_handle(value):
                value = st.get(heap_key(value), TOP)   # unpacking reads what the list holds now
            stars = [i for i, t in enumerate(target.elts) if isinstance(t, ast.Starred)]
            if len(stars) == 1 and isinstance(value, tuple) and value[:1] == ("tuple",) and len(value) - 1 >= len(target.elts) - 1 and getattr(self.domain, "exact_lists", False):
                # a, *rest, z = <exact sequence>
                items, k = list(value[1:]), stars[0]
                after = len(target.elts) - k - 1
                parts = items[:k] + [("tuple",) + tuple(items[k: len(items) - after])] + items[len(items) - after:]
                for t, v in zip(target.elts, parts):
                    st = self.assign(t.value if isinstance(t, ast.Starred) else t, v, st, fr)
                return st
            for i, t in enumerate(target.elts):
                v = TOP
                if isinstance(value, tuple) and value and value[0] == "tuple" and len(value) - 1 == len(target.elts):
                    v = value[1 + i]
                hook = getattr(self.domain, "unpack", None)
                if hook is not None:
                    hv = hook(value, i, len(target.elts))
                    if hv is not None:
                        v = hv
                if isinstance(t, ast.Starred):
                    t = t.value
                st = self.assign(t, v, st, fr)
            return st
        if isinstance(target, ast.Subscript):
            return self.domain.store_subscript(target, value, st, fr, self)
        return st

    def exec(self, s, st, fr):
        d = self.domain
        hook = getattr(d, "exec_hook", None)
        if hook is not None:
            r = hook(self, s, st, fr)
            if r is not None:
                return r
        if isinstance(s, ast.Expr):
            return [("raise", r.value, r.state) if r.kind == "exc" else ("next", None, r.state) for r in self.eval(s.value, st, fr)]
        if isinstance(s, ast.Assign):
            out = []
            shared = isinstance(s.value, (ast.Name, ast.Attribute, ast.Call, ast.BoolOp, ast.IfExp, ast.Subscript)) and all(isinstance(t, (ast.Name, ast.Attribute)) for t in s.targets)
            values = self.eval(s.value, st, fr, share=shared)
            if any(isinstance(t, (ast.Tuple, ast.List)) for t in s.targets):
                values = self._forced(values, fr)   # a, b = map(...): unpacking consumes the iterator
                values = [Result(r.kind, ("tuple",) + tuple(r.value[1:]), r.state) if r.kind == "val" and isinstance(r.value, tuple) and r.value[:1] == ("lazyseq",) else r for r in values]
            for r in values:
                if r.kind == "exc":
                    out.append(("raise", r.value, r.state))
                    continue
                s2 = r.state
                if r.value in (NONE, TRUE, FALSE) and any(isinstance(t, (ast.Tuple, ast.List)) for t in s.targets):
                    if _TRACE_EXC == "TypeError":
                        print("UNPACK-TYPEERROR in", fr.name, "line", s.lineno, norm(s)[:100])
                    out.append(("raise", ("exc", "TypeError"), s2))   # cannot unpack None / a bool
                    continue
                if isinstance(r.value, tuple) and r.value[:1] == ("tuple",) and any(
                        isinstance(t, (ast.Tuple, ast.List)) and not any(isinstance(x, ast.Starred) for x in t.elts) and len(t.elts) != len(r.value) - 1 for t in s.targets):
                    out.append(("raise", ("exc", "ValueError"), s2))   # wrong number of values to unpack
                    continue
                value = r.value
                if len(s.targets) > 1 and getattr(d, "heap", False) and isinstance(value, tuple) and value[:1] in (("tuple",), ("kwdict",), ("set",)) \
                        and isinstance(s.value, (ast.List, ast.Dict, ast.Set, ast.ListComp, ast.DictComp, ast.SetComp, ast.Call)):
                    # a = b = []: one new object with two names
                    n_ = s2.get("ev.heap", 0)
                    s2 = s2.set("ev.heap", n_ + 1).set(heap_key(("h", n_)), value)
                    value = ("h", n_)
                for t in s.targets:
                    s2 = self.assign(t, value, s2, fr)
                out.append(("next", None, s2))
            return self._dd(out)
        if isinstance(s, ast.AnnAssign):
            if s.value is None:
                return [("next", None, st)]
            return self.exec(ast.copy_location(ast.Assign(targets=[s.target], value=s.value), s), st, fr)
        if isinstance(s, ast.AugAssign):
            out = []
            for r in self.eval(s.value, st, fr):
                if r.kind == "exc":
                    out.append(("raise", r.value, r.state))
                    continue
                hook = getattr(d, "augassign", None)
                s2 = hook(self, s, r.value, r.state, fr) if hook else None
                if s2 is None and isinstance(s.target, (ast.Name, ast.Attribute)) and getattr(d, "heap", False):
                    # x op= v on plain values is x = x op v
                    load = ast.copy_location(ast.Name(id=s.target.id, ctx=ast.Load()) if isinstance(s.target, ast.Name) else ast.Attribute(value=s.target.value, attr=s.target.attr, ctx=ast.Load()), s.target)
                    fake = ast.copy_location(ast.BinOp(left=load, op=s.op, right=s.value), s)
                    for cur in self.eval(load, r.state, fr):
                        if cur.kind == "exc":
                            out.append(("raise", cur.value, cur.state))
                        else:
                            out.append(("next", None, self.assign(s.target, d.binop(fake, cur.value, r.value), cur.state, fr)))
                    continue
                if s2 is None:
                    s2 = self.assign(s.target, TOP, r.state, fr)
                out.append(("next", None, s2))
            return self._dd(out)
        if isinstance(s, ast.Return):
            out = []
            for r in self.eval(s.value, st, fr, share=isinstance(s.value, (ast.Name, ast.Attribute, ast.Call))):   # returning a list / dict the object keeps: the caller gets that object
                if r.kind == "exc":
                    out.append(("raise", r.value, r.state))
                else:
                    s2 = r.state
                    if fr.depth == 0 and self.track_return_sites:
                        s2 = s2.set("ev.retsite", s.lineno)
                    out.append(("return", r.value, s2))
            return out
        if isinstance(s, ast.Raise):
            if s.exc is None:
                cur = st.get("<handling>", "exc")
                return [("raise", cur, st)]
            out = []
            for r in self.eval(s.exc, st, fr):
                if r.kind == "exc":
                    out.append(("raise", r.value, r.state))
                else:
                    hook = getattr(d, "raised_value", None)
                    v = hook(s, r.value, r.state, fr) if hook else ("raised", norm(s.exc)[:40])
                    if _TRACE_EXC and _TRACE_EXC in repr(v):
                        c_, chain_ = fr, []
                        while c_ is not None:
                            chain_.append(c_.name)
                            c_ = c_.caller
                        print("RAISE", v if len(repr(v)) < 80 else repr(v)[:80], "at line", s.lineno, "in", " <- ".join(chain_[:6]))
                    out.append(("raise", v, r.state))
            return self._dd(out)
        if isinstance(s, ast.ImportFrom) and getattr(d, "import_from", None) is not None:
            s2 = d.import_from(self, s, st, fr)
            return [("next", None, s2 if s2 is not None else st)]
        if isinstance(s, ast.Pass) or isinstance(s, (ast.Import, ast.ImportFrom, ast.Global, ast.Nonlocal)):
            return [("next", None, st)]
        if isinstance(s, FUNC_TYPES):
            out = []
            for c_r in self._closure_with_defaults(s, st, fr):
                if c_r.kind == "exc":
                    out.append(("raise", c_r.value, c_r.state))
                    continue
                closure, st_c = c_r.value, c_r.state
                hook = getattr(d, "decorate_nested", None)
                if s.decorator_list and hook is not None:
                    got = hook(self, s, closure, st_c, fr)
                    if got is not None:
                        out.extend(("raise", r.value, r.state) if r.kind == "exc" else ("next", None, r.state.set(fr.local(s.name), r.value)) for r in got)
                        continue
                out.append(("next", None, st_c.set(fr.local(s.name), closure)))
            return out
        if isinstance(s, ast.ClassDef):
            return [("next", None, st)]
        if isinstance(s, ast.Break):
            return [("break", None, st)]
        if isinstance(s, ast.Continue):
            return [("continue", None, st)]
        if isinstance(s, ast.Delete):
            s2 = st
            for t in s.targets:
                if isinstance(t, ast.Name):
                    s2 = State(frozenset((k, v) for k, v in s2.items if k != fr.local(t.id)), s2.log)
                else:
                    hook = getattr(d, "delete", None)
                    if hook:
                        s2 = hook(self, t, s2, fr) or s2
            return [("next", None, s2)]
        if isinstance(s, ast.Assert):
            out = []
            for br, s2 in self.branch(s.test, st, fr):
                if br == "exc":
                    out.append(("raise", s2.value, s2.state))
                elif br:
                    out.append(("next", None, s2))
                else:
                    out.append(("raise", ("raised", "AssertionError"), s2))
            return self._dd(out)
        if isinstance(s, ast.If):
            out = []
            for br, s2 in self.branch(s.test, st, fr):
                if br == "exc":
                    out.append(("raise", s2.value, s2.state))
                elif br:
                    out.extend(self.exec_block(s.body, [s2], fr))
                else:
                    out.extend(self.exec_block(s.orelse, [s2], fr))
            return self._dd(out)
        if isinstance(s, ast.While):
            return self._while(s, st, fr)
        if isinstance(s, (ast.For, ast.AsyncFor)):
            return self._for(s, st, fr)
        if isinstance(s, ast.Try):
            return self._try(s, st, fr)
        if isinstance(s, (ast.With, ast.AsyncWith)):
            return self._with(s, st, fr)
        raise Undecided(f"statement kind {type(s).__name__} at line {getattr(s, 'lineno', 0)} not modelled")

    def _while(self, s, st, fr):
        out = []
        seen = set()
        work = [(st, 0)]
        exits = []
        while work:
            cur, trips = work.pop()
            if cur in seen:
                continue
            seen.add(cur)
            if len(seen) > self.max_states:
                raise Undecided(f"loop state set exceeded its budget in the loop at line {s.lineno} of {fr.name}")
            if trips > self.max_trips:
                raise Undecided(f"the loop at line {s.lineno} of {fr.name} does not end within {self.max_trips} iterations")
            for br, s2 in self.branch(s.test, cur, fr):
                if br == "exc":
                    out.append(("raise", s2.value, s2.state))
                elif br:
                    for kind, payload, s3 in self.exec_block(s.body, [s2], fr):
                        if kind in ("next", "continue"):
                            work.append((s3, trips + 1))
                        elif kind == "break":
                            out.append(("next", None, s3))
                        else:
                            out.append((kind, payload, s3))
                else:
                    exits.append(s2)
        if exits:
            out.extend(self.exec_block(s.orelse, exits, fr) if s.orelse else [("next", None, e) for e in exits])
        return self._dd(out)

    def _for(self, s, st, fr):
        out = []
        d = self.domain
        sources = []
        for r in self.eval(s.iter, st, fr):
            # something produced on demand (a generator ...) is asked for its elements one at a time, below; anything else is a sequence now
            lazily = r.kind == "val" and getattr(d, "lazy_generators", False) and getattr(d, "pullable", lambda v: False)(r.value)
            sources.extend([r] if lazily else self._forced([r], fr))
        for r in sources:
            if r.kind == "exc":
                out.append(("raise", r.value, r.state))
                continue
            exact = self._exact_elements(r.value)
            if exact is not None:
                out.extend(self._for_exact(s, exact, r.state, fr))
                continue
            puller = getattr(d, "pull", None)
            if puller is not None and getattr(d, "pullable", lambda v: False)(r.value):
                # an iterator whose elements come into being as they are asked for (iter(f, sentinel), map over it ...):
                # one element at a time, each with the state the previous iteration left
                work = [(r.value, r.state)]
                exits = []
                for _ in range(getattr(d, "pull_limit", 64) + 1):
                    nxt = []
                    for seq, cur in work:
                        for kind_, el, rest, s1 in puller(self, seq, cur, fr):
                            if kind_ == "end":
                                exits.append(s1)
                            elif kind_ == "exc":
                                out.append(("raise", el, s1))
                            elif kind_ == "unknown":
                                raise Undecided(f"the loop at line {s.lineno} of {fr.name} iterates something the model cannot follow")
                            else:
                                for kind, payload, s3 in self.exec_block(s.body, [self.assign(s.target, el, s1, fr)], fr):
                                    if kind in ("next", "continue"):
                                        nxt.append((rest, s3))
                                    elif kind == "break":
                                        out.append(("next", None, s3))
                                    else:
                                        out.append((kind, payload, s3))
                    work = list(dict.fromkeys(nxt))
                    if not work:
                        break
                else:
                    raise Undecided(f"the loop at line {s.lineno} of {fr.name} does not end within the analysis budget")
                if exits:
                    out.extend(self.exec_block(s.orelse, exits, fr) if s.orelse else [("next", None, e) for e in exits])
                continue
            kind0 = d.iter_kind(r.value)
            seen = set()
            sh = getattr(d, "for_start", None)
            work = [(sh(self, s, r.value, r.state, fr) if sh is not None else r.state, True)]
            exits = []
            while work:
                cur, first = work.pop()
                if (cur, first) in seen:
                    continue
                seen.add((cur, first))
                if len(seen) > self.max_states:
                    raise Undecided(f"loop state set exceeded its budget in the loop at line {s.lineno} of {fr.name}")
                may_iter = not (first and kind0 == "empty")
                may_done = not (first and kind0 == "nonempty")
                hook = getattr(d, "for_step", None)
                if hook is not None:
                    hr = hook(self, s, r.value, cur, fr, first)
                    if hr is not None:
                        may_iter, may_done = hr
                if may_done:
                    dh = getattr(d, "for_done", None)
                    exits.append(dh(self, s, r.value, cur, fr) if dh is not None else cur)
                if may_iter:
                    el = d.element(r.value, cur, s)
                    els = el if isinstance(el, list) else [el]
                    for elv in els:
                        s2 = self.assign(s.target, elv, cur, fr)
                        ehook = getattr(d, "iter_step_effect", None)
                        if ehook is not None:
                            s2 = ehook(self, s, r.value, s2, fr) or s2
                        for kind, payload, s3 in self.exec_block(s.body, [s2], fr):
                            if kind in ("next", "continue"):
                                work.append((s3, False))
                            elif kind == "break":
                                out.append(("next", None, s3))
                            else:
                                out.append((kind, payload, s3))
            if exits:
                out.extend(self.exec_block(s.orelse, exits, fr) if s.orelse else [("next", None, e) for e in exits])
        return self._dd(out)

    def _forced(self, results, fr):
        """Let the domain turn lazy sequence values (map objects ...) into exact ones, running their effects now."""
        hook = getattr(self.domain, "force_sequence", None)
        if hook is None:
            return results
        out = []
        for r in results:
            if r.kind == "val":
                got = hook(self, r.value, r.state, fr)
                if got is not None:
                    out.extend(got)
                    continue
            out.append(r)
        return out

    def _forced_list(self, results, fr):
        """Like _forced, for results whose value is a tuple of evaluated arguments: every lazy sequence among them is consumed."""
        hook = getattr(self.domain, "force_sequence", None)
        if hook is None:
            return results
        out = []
        for r in results:
            if r.kind != "val" or not isinstance(r.value, tuple):
                out.append(r)
                continue
            cur = [((), r.state)]
            failed = []
            for v in r.value:
                nxt = []
                for acc, s_ in cur:
                    got = hook(self, v, s_, fr) if isinstance(v, tuple) else None
                    if got is None:
                        nxt.append((acc + (v,), s_))
                        continue
                    for g in got:
                        if g.kind == "exc":
                            failed.append(g)
                        else:
                            nxt.append((acc + (g.value,), g.state))
                cur = nxt
            out.extend(failed)
            out.extend(val(acc, s_) for acc, s_ in cur)
        return out

    def _exact_elements(self, value):
        """Element values of an abstract sequence whose length and order are known, else None."""
        hook = getattr(self.domain, "iter_exact", None)
        if hook is not None:
            got = hook(value)
            if got is not None:
                return list(got)
        if isinstance(value, tuple) and value[:1] in (("tuple",), ("lazyseq",)):
            return list(value[1:])
        return None

    def _for_exact(self, s, elements, st, fr):
        out = []
        cur = [st]
        for elv in elements:
            nxt = []
            for c in cur:
                s2 = self.assign(s.target, elv, c, fr)
                for kind, payload, s3 in self.exec_block(s.body, [s2], fr):
                    if kind in ("next", "continue"):
                        nxt.append(s3)
                    elif kind == "break":
                        out.append(("next", None, s3))
                    else:
                        out.append((kind, payload, s3))
            cur = list(dict.fromkeys(nxt))
            if not cur:
                break
        if cur:
            out.extend(self.exec_block(s.orelse, cur, fr) if s.orelse else [("next", None, c) for c in cur])
        return self._dd(out)

    def _eager_comprehension(self, comp, st, fr):
        """[elt for target in <exact sequence> if conds for ...] -> ("tuple", v0, v1, ...); None when an
        iterated value is not an exact sequence (the domain's <comprehension> hook decides then)."""
        if any(g.is_async for g in comp.generators):
            return None
        is_dict = isinstance(comp, ast.DictComp)
        if is_dict and not (getattr(self.domain, "exact_dicts", False) and getattr(self.domain, "_dkey", None) is not None):
            return None
        gens = comp.generators
        excs = []

        def run(gi, states):
            if gi == len(gens):
                done = []
                for c, acc in states:
                    if is_dict:
                        for r2 in self.eval_list([comp.key, comp.value], c, fr):
                            if r2.kind == "exc":
                                excs.append(r2)
                            else:
                                done.append((r2.state, acc + ((r2.value[0], r2.value[1]),)))
                        continue
                    for r2 in self.eval(comp.elt, c, fr):
                        if r2.kind == "exc":
                            excs.append(r2)
                        else:
                            done.append((r2.state, acc + (r2.value,)))
                return done
            gen = gens[gi]
            result = []

            def element(elv, c2, acc2):
                """One element of the iterated sequence: the conditions, then the inner clauses / the element expression."""
                got = []
                passing = [self.assign(gen.target, elv, c2, fr)]
                for cond in gen.ifs:
                    keep = []
                    for s3 in passing:
                        for br, s4 in self.branch(cond, s3, fr):
                            if br == "exc":
                                excs.append(s4)
                            elif br:
                                keep.append(s4)
                            else:
                                got.append((s4, acc2))
                    passing = keep
                sub = run(gi + 1, [(s3, acc2) for s3 in passing])
                if sub is None:
                    return None
                got.extend(sub)
                return got
            puller, pullable = getattr(self.domain, "pull", None), getattr(self.domain, "pullable", None)
            for c, acc in states:
                sources = self.eval(gen.iter, c, fr)
                lazily = puller is not None and bool(sources) and all(r.kind == "exc" or (pullable(r.value) and getattr(self.domain, "lazy_generators", False)) for r in sources)
                for r in (sources if lazily else self._forced(sources, fr)):
                    if r.kind == "exc":
                        excs.append(r)
                        continue
                    if lazily:
                        # produced on demand (a generator ...): the next element is asked for after the previous one was dealt with
                        work = [(r.value, r.state, acc)]
                        for _ in range(getattr(self.domain, "generator_budget", 256)):
                            nxt = []
                            for seq, c2, acc2 in work:
                                for kind_, el, rest, s1 in puller(self, seq, c2, fr):
                                    if kind_ == "end":
                                        result.append((s1, acc2))
                                    elif kind_ == "exc":
                                        excs.append(exc(el, s1))
                                    elif kind_ == "unknown":
                                        return None
                                    else:
                                        got = element(el, s1, acc2)
                                        if got is None:
                                            return None
                                        nxt.extend((rest, s_, a_) for s_, a_ in got)
                            work = list(dict.fromkeys(nxt))
                            if not work:
                                break
                        else:
                            raise Undecided(f"the comprehension at line {comp.lineno} of {fr.name} does not end within the analysis budget")
                        continue
                    exact = self._exact_elements(unbox(r.value, r.state))   # (a list some object holds: the elements it has now)
                    if exact is None:
                        if os.environ.get("TTSA_TRACE_COMP"):
                            print("COMP-NOT-EXACT", fr.name, norm(gen.iter)[:60], str(r.value)[:200])
                        return None
                    cur = [(r.state, acc)]
                    for elv in exact:
                        nxt = []
                        for c2, acc2 in cur:
                            got = element(elv, c2, acc2)
                            if got is None:
                                return None
                            nxt.extend(got)
                        cur = list(dict.fromkeys(nxt))
                    result.extend(cur)
            return result

        final = run(0, [(st, ())])
        if final is None:
            return None
        if is_dict:
            out = list(excs)
            for c, acc in final:
                items = {}
                exact = True
                for k_, v_ in acc:
                    ok_, pk = self.domain._dkey(unbox(k_, c))
                    if not ok_:
                        exact = False
                        break
                    items[pk] = v_   # (a later entry with the same key replaces the earlier one, in place)
                out.append(val(("kwdict", tuple(items.items())) if exact else TOP, c))
            return out
        tag = "lazyseq" if isinstance(comp, ast.GeneratorExp) else "tuple"
        return excs + [val((tag,) + acc, c) for c, acc in final]

    def _try(self, s, st, fr):
        d = self.domain
        results = []
        body = self.exec_block(s.body, [st], fr)
        for kind, payload, s2 in body:
            if kind == "raise" and s.handlers:
                remaining = True
                for h in s.handlers:
                    dyn = getattr(d, "match_dynamic", None)
                    m = dyn(self, h.type, payload, s2, fr) if dyn is not None and h.type is not None and (not _plain_type_expr(h.type) or _reads_variable(h.type, s2, fr)) else None
                    if m is None:
                        m = d.match(h.type, payload, s2)
                    if m == "no":
                        continue
                    hkey = "<handling>"
                    outer = s2.get(hkey, None) if s2.has(hkey) else None
                    s3 = s2.set(hkey, payload)
                    if h.name:
                        s3 = s3.set(fr.local(h.name), payload)
                    for k2, p2, s4 in self.exec_block(h.body, [s3], fr):
                        # leaving the handler: the exception being handled is the outer one again (or none)
                        s4 = s4.set(hkey, outer) if outer is not None else State(frozenset((k_, v_) for k_, v_ in s4.items if k_ != hkey), s4.log)
                        results.append((k2, p2, s4))
                    if m == "yes":
                        remaining = False
                        break
                if remaining:
                    if _TRACE_EXC and _TRACE_EXC in repr(payload):
                        print("UNCAUGHT-BY", fr.name, "line", s.lineno, [norm(h.type) if h.type is not None else None for h in s.handlers], payload)
                    results.append((kind, payload, s2))
            elif kind == "next" and s.orelse:
                results.extend(self.exec_block(s.orelse, [s2], fr))
            else:
                results.append((kind, payload, s2))
        if not s.finalbody:
            return self._dd(results)
        out = []
        for kind, payload, s2 in self._dd(results):
            for k2, p2, s3 in self.exec_block(s.finalbody, [s2], fr):
                if k2 == "next":
                    out.append((kind, payload, s3))
                else:
                    out.append((k2, p2, s3))
        return self._dd(out)

    def _contextmanager_rewrite(self, s, st, fr):
        """`with helper(args) [as x]: BODY` where helper is a generator-based context manager defined in this module (a method
        of self, a module-level or nested function) with a single `yield` statement and no `return`: its body is executed
        in place with the `yield` replaced by BODY -- PRE; try: BODY finally: POST, whatever nesting the yield sits in.
        The helper's parameters and locals are renamed apart and its parameters bound to the argument expressions."""
        import copy
        classes = getattr(self.domain, "classes", None)
        if len(s.items) != 1 or classes is None or not isinstance(s.items[0].context_expr, ast.Call):
            return None
        call = s.items[0].context_expr
        if any(isinstance(a, ast.Starred) for a in call.args) or any(k.arg is None for k in call.keywords):
            return None
        hit = self.resolve_callee(call, st, fr, classes)
        if hit is None:
            return None
        f, _, bind_self = hit
        if not isinstance(f, FUNC_TYPES) or not any((dotted(dd) or "").split(".")[-1] == "contextmanager" for dd in f.decorator_list):
            return None
        if getattr(f, "_module", None) is not getattr(fr.func, "_module", None) or f.args.kwarg or f.args.posonlyargs:
            return None
        own_stmts = []
        stack = list(f.body)
        while stack:
            n = stack.pop()
            if isinstance(n, FUNC_TYPES + (ast.Lambda, ast.ClassDef)):
                continue
            own_stmts.append(n)
            stack.extend(ast.iter_child_nodes(n))
        yields = [n for n in own_stmts if isinstance(n, (ast.Yield, ast.YieldFrom))]
        returns = [n for n in own_stmts if isinstance(n, ast.Return)]
        if not yields or any(isinstance(y, ast.YieldFrom) for y in yields) or any(r_.value is not None for r_ in returns):
            return None
        ystmts = [getattr(y, "_parent", None) for y in yields]
        if not all(isinstance(ys, ast.Expr) and ys.value is y for ys, y in zip(ystmts, yields)):
            return None
        if len(yields) > 1 or returns:
            # several yields (one per branch) and bare returns: the spliced body sits in a one-trip loop and `return` leaves it;
            # that needs a with-body without break / continue of its own
            def own_jumps(stmts):
                for x in stmts:
                    if isinstance(x, (ast.Break, ast.Continue)):
                        return True
                    if isinstance(x, (ast.For, ast.While, ast.AsyncFor) + FUNC_TYPES + (ast.ClassDef,)):
                        continue
                    for field in ("body", "orelse", "finalbody"):
                        if own_jumps(getattr(x, field, None) or []):
                            return True
                    if isinstance(x, ast.Try) and any(own_jumps(h.body) for h in x.handlers):
                        return True
                return False
            if own_jumps(s.body) or any(isinstance(n, (ast.For, ast.While)) and any(y in list(ast.walk(n)) for y in yields) for n in own_stmts):
                return None
        ystmt = ystmts[0]
        params = [p.arg for p in f.args.args]
        if bind_self:
            if not params or not fr.selfname:
                return None
            self_param, params = params[0], params[1:]
        else:
            self_param = None
        if len(call.args) > len(params) and not f.args.vararg:
            return None
        # rename the helper's own names apart (its self stays the caller's self)
        tag = f"__cm{s.lineno}_{getattr(f, 'name', 'f')}_"
        own = set(own_names(f))
        ren = {n_: tag + n_ for n_ in own if n_ != self_param}
        if self_param is not None:
            ren[self_param] = fr.selfname

        class _Ren(ast.NodeTransformer):
            def visit_Name(self, node):
                if node.id in ren:
                    return ast.copy_location(ast.Name(id=ren[node.id], ctx=node.ctx), node)
                return node

            def visit_arg(self, node):
                return node

        marker = "__ttsa_cm_yield__"
        body_src = [x for x in f.body if not (isinstance(x, ast.Expr) and isinstance(x.value, ast.Constant) and isinstance(x.value.value, str))]
        holder = ast.Module(body=copy.deepcopy(body_src), type_ignores=[])
        # mark the yield statement in the copy (same position in a parallel walk)
        orig_nodes = [n for x in body_src for n in ast.walk(x)]
        copy_nodes = [n for x in holder.body for n in ast.walk(x)]
        if len(orig_nodes) != len(copy_nodes):
            return None
        ycopies = [copy_nodes[orig_nodes.index(ys)] for ys in ystmts]
        rcopies = [copy_nodes[orig_nodes.index(r_)] for r_ in returns]
        ycopy = ycopies[0]
        holder = _Ren().visit(holder)

        def replacement_for(yc):
            yval = yc.value.value if isinstance(yc.value, ast.Yield) else None
            bound = [ast.Assign(targets=[s.items[0].optional_vars], value=yval or ast.Constant(value=None))] if s.items[0].optional_vars is not None else []
            return bound + list(s.body)

        def splice(stmts):
            out = []
            for x in stmts:
                if any(x is yc for yc in ycopies):
                    out.extend(replacement_for(x))
                    continue
                if any(x is rc for rc in rcopies):
                    out.append(ast.copy_location(ast.Break(), x))   # the generator ends here: so does the with statement
                    continue
                for field in ("body", "orelse", "finalbody"):
                    sub = getattr(x, field, None)
                    if isinstance(sub, list):
                        setattr(x, field, splice(sub))
                if isinstance(x, ast.Try):
                    for h in x.handlers:
                        h.body = splice(h.body)
                out.append(x)
            return out

        spliced = splice(holder.body)
        if len(ycopies) > 1 or rcopies:
            spliced = [ast.For(target=ast.Name(id=tag + "once", ctx=ast.Store()), iter=ast.Tuple(elts=[ast.Constant(value=None)], ctx=ast.Load()), body=spliced, orelse=[], type_comment=None)]
        # bind the parameters to the argument expressions (evaluated in the caller's scope), then defaults
        prologue = []
        given = {}
        for p_, a_ in zip(params, call.args):
            given[p_] = a_
        for k in call.keywords:
            if k.arg not in params or k.arg in given:
                return None
            given[k.arg] = k.value
        defaults = dict(zip([p.arg for p in f.args.args][len(f.args.args) - len(f.args.defaults):], f.args.defaults))
        for p_ in params:
            src = given.get(p_, defaults.get(p_))
            if src is None:
                return None
            prologue.append(ast.Assign(targets=[ast.Name(id=ren.get(p_, p_), ctx=ast.Store())], value=src))
        if f.args.vararg:
            # *names: the positional arguments beyond the named parameters, as a tuple
            va = f.args.vararg.arg
            prologue.append(ast.Assign(targets=[ast.Name(id=ren.get(va, va), ctx=ast.Store())], value=ast.Tuple(elts=list(call.args[len(params):]), ctx=ast.Load())))
        new = prologue + spliced
        for n in new:
            for sub in ast.walk(n):
                if not hasattr(sub, "lineno"):
                    sub.lineno, sub.col_offset, sub.end_lineno, sub.end_col_offset = s.lineno, s.col_offset, s.lineno, s.col_offset
        # the copied statements live, lexically, where the with-statement is
        from .loader import _annotate   # noqa: F401  (parent pointers for nested scopes / closures)
        for n in prologue + [x for x in spliced if x not in s.body]:
            stack = [(n, getattr(s, "_parent", None))]
            while stack:
                node, parent = stack.pop()
                if getattr(node, "_module", None) is not None and node in s.body:
                    continue
                node._parent = parent
                node._module = getattr(s, "_module", None)
                node._func = getattr(s, "_func", None)
                node._class = getattr(s, "_class", None)
                for ch_ in ast.iter_child_nodes(node):
                    if any(ch_ is b_ for b_ in s.body):
                        continue
                    stack.append((ch_, node))
        self.functions.add(f)
        return new

    def _with(self, s, st, fr):
        d = self.domain
        if len(s.items) > 1 and getattr(d, "with_object", None) is not None:
            # `with a, b:` is `with a: with b:`
            inner = ast.copy_location(ast.With(items=s.items[1:], body=s.body, type_comment=None), s)
            outer = ast.copy_location(ast.With(items=s.items[:1], body=[inner], type_comment=None), s)
            for n_ in (inner, outer):
                n_._parent = getattr(s, "_parent", None)
                n_._module = getattr(s, "_module", None)
                n_._func = getattr(s, "_func", None)
                n_._class = getattr(s, "_class", None)
            return self._with(outer, st, fr)
        rewritten = self._contextmanager_rewrite(s, st, fr) if getattr(d, "inline_contextmanagers", False) else None
        if rewritten is not None:
            return self.exec_block(rewritten, [st], fr)
        if len(s.items) == 1 and getattr(d, "with_object", None) is not None:
            out = []
            rest = []
            for r in self.eval(s.items[0].context_expr, st, fr):
                if r.kind == "exc":
                    out.append(("raise", r.value, r.state))
                    continue
                got = d.with_object(self, s, s.items[0], r.value, r.state, fr)
                if got is None:
                    rest.append(r)
                else:
                    out.extend(got)
            if not rest:
                return self._dd(out)
            if out:
                raise Undecided("a with-statement's context manager is an object of the model on some paths only")
        out = []
        entered = [st]
        for item in s.items:
            nxt = []
            for cur in entered:
                for r in self.eval(item.context_expr, cur, fr):
                    if r.kind == "exc":
                        out.append(("raise", r.value, r.state))
                    else:
                        s2 = r.state
                        if item.optional_vars is not None:
                            s2 = self.assign(item.optional_vars, TOP, s2, fr)
                        hook = getattr(d, "with_enter", None)
                        if hook is not None:
                            hr = hook(self, item, r.value, s2, fr)
                            if hr is not None:
                                for rr in hr:
                                    if rr.kind == "exc":
                                        out.append(("raise", rr.value, rr.state))
                                    elif item.optional_vars is not None and getattr(d, "enter_returns_self", False):
                                        nxt.append(self.assign(item.optional_vars, rr.value, rr.state, fr))   # `as x`: what __enter__ returned
                                    else:
                                        nxt.append(rr.state)
                                continue
                        nxt.append(s2)
            entered = nxt
        for kind, payload, s2 in self.exec_block(s.body, entered, fr):
            hook = getattr(d, "with_exit", None)
            if hook is not None:
                s2 = hook(self, s, kind, payload, s2, fr) or s2
            if kind == "raise" and any(d.with_swallows(i, payload, s2) in ("yes", "maybe") for i in s.items):
                out.append(("next", None, s2))
                if all(d.with_swallows(i, payload, s2) != "yes" for i in s.items):
                    out.append((kind, payload, s2))
            else:
                out.append((kind, payload, s2))
        return self._dd(out)

    # ------------------------------------------------------------------ calls
    lazy_request = None   # the generator function whose next call should give a generator object (set by the domain around a call it resolved)
    lazy_made = False

    def _constant_tuple(self, node):
        """The value of a tuple display made of constants and such tuples only, else None."""
        if isinstance(node, ast.Constant):
            return self.domain.constant(node)
        if isinstance(node, ast.Tuple):
            parts = [self._constant_tuple(x) for x in node.elts]
            return None if any(p is None for p in parts) else ("tuple",) + tuple(parts)
        return None

    def inline(self, func, argvals, st, caller, receiver=None, name=None, is_method=True, closure_env=(), self_value=None, export_locals=None):
        """Execute ``func`` with params bound to abstract values; -> list of Result.

        argvals: dict param name -> abstract value (missing params -> TOP or
        their default when it is a constant).
        """
        depth = caller.depth + 1 if caller is not None else 0
        if depth > self.max_depth:
            chain, f_ = [], caller
            while f_ is not None and len(chain) < 30:
                chain.append(getattr(getattr(f_, "func", None), "name", "<lambda>"))
                f_ = getattr(f_, "parent", None) or getattr(f_, "caller", None)
            raise Undecided(f"inlining bound {self.max_depth} exceeded at {getattr(func, 'name', '<lambda>')} (called from {' <- '.join(chain)})")
        if self.lazy_request is not None and self.lazy_request is func:
            self.lazy_request = None
            made = self.domain.make_generator(self, func, argvals, st, caller, receiver=receiver, is_method=is_method, closure_env=closure_env, self_value=self_value)
            if made is not None:
                self.lazy_made = True
                return made
        if getattr(self.domain, "strict_calls", False) and any((dotted(dd) or "").split(".")[-1] == "contextmanager" for dd in getattr(func, "decorator_list", ())):
            # (where the analysis can, it splices the manager's body around the with-block; a call that gets here would run that
            #  body, both halves, before the block)
            raise Undecided(f"the generator-based context manager {getattr(func, 'name', '?')} is used in a way the analysis cannot follow (in {getattr(caller, 'name', '?')})")
        raw = any(n_ == "<raw>" for n_, _ in closure_env)
        if raw:
            closure_env = tuple(kv for kv in closure_env if kv[0] != "<raw>")
        elif getattr(func, "decorator_list", None) and getattr(self.domain, "decorated_call", None) is not None:
            # calling a decorated function is calling what its decorators made of it
            got = self.domain.decorated_call(self, func, argvals, st, caller, receiver, is_method, self_value)
            if got is not None:
                return got
        self.functions.add(func)
        fr = Frame(func, depth, receiver if receiver is not None else (caller.receiver if caller else None), name,
                   is_method=is_method and getattr(func, "_class", None) is not None)
        fr.caller = caller
        if self_value is not None and isinstance(func, FUNC_TYPES) and func.args.args:
            # a method of an object created during the run: `self.x` lives under inst.<n>.x
            fr.selfname = func.args.args[0].arg
            fr.self_key = f"inst.{self_value[1]}"
            fr.instance = self_value
        fr.bind_enclosing(caller)
        # The callee sees only the global part of the state (event monitors, self.*) and, for a nested
        # function, the locals of its lexically enclosing frames (which it may also rebind or mutate);
        # the other callers' frame locals pass through unchanged.  Summaries keyed by
        # (function, globals, arguments) close recursion.
        shared = {e.prefix for e in fr.enclosing}
        # frames further up that define nested functions stay visible too: a closure handed down as an argument
        # (or stored and called back) may be invoked from here and must find its free variables
        c_ = caller
        while c_ is not None:
            if _defines_closures(c_.func):
                shared.add(c_.prefix)
            c_ = c_.caller
        shared = tuple(sorted(shared))
        caller_locals = frozenset((k, v) for k, v in st.items if _is_local(k) and not (shared and k.startswith(shared)))
        entry = State(frozenset((k, v) for k, v in st.items if not _is_local(k) or (shared and k.startswith(shared))), st.log)
        cell_n = None
        if getattr(self.domain, "closure_cells", False) and _defines_closures(func):
            captured = _captured_names(func)
            if captured:
                # the variables this function shares with the functions defined in it live in cells from the start:
                # closures made here stay valid wherever they are handed (returned, passed down, stored)
                cell_n = entry.get("ev.cells", 0)
                entry = entry.set("ev.cells", cell_n + 1)
                for n_ in captured:
                    fr.cellrefs[n_] = f"cell.{cell_n}.{n_}"
                if fr.selfname is not None and fr.selfname in captured:
                    # `self` is not a variable of the state (it is the frame's object): the closures that use it find it in its cell
                    entry = entry.set(fr.cellrefs[fr.selfname], fr.instance if fr.instance is not None else ("self",))
        # a closure whose defining frame has returned: its free variables come from the captured environment;
        # ("ref", key) entries alias a list / dict that still lives in a caller's variable
        env_locals = []
        for name_, v_ in closure_env:
            if isinstance(v_, tuple) and len(v_) == 2 and v_[0] == "ref" and v_[1].startswith("cell."):
                # a cell shared with the defining frame and its other closures: reads and writes go straight to it (the
                # frame that made this closure -- not another activation of the same function that happens to be running)
                fr.cellrefs[name_] = v_[1]
                continue
            if any(name_ in own_names(e.func) for e in fr.enclosing):
                continue
            if False:
                pass
            elif isinstance(v_, tuple) and len(v_) == 2 and v_[0] == "ref":
                env_locals.append((name_, st.get(v_[1], TOP), v_[1]))
            else:
                env_locals.append((name_, v_, None))
        for name_, v_, _ in env_locals:
            entry = entry.set(fr.local(name_), v_)
        key = (id(func), entry, tuple(sorted((k, repr(v)) for k, v in argvals.items())), fr.self_key, tuple(sorted(fr.cellrefs.items())), export_locals)
        if key in self.in_progress:
            return [Result(r.kind, r.value, State(r.state.items | caller_locals, r.state.log)) for r in self.summaries.get(key, [])]
        cached = self.round_cache.get(key)
        if cached is not None:
            # the callee sees only globals + arguments, so its outcomes can be reused within a round;
            # witness logs continue from the caller's log
            results, n = cached
            return [Result(r.kind, r.value, State(r.state.items | caller_locals, st.log + r.state.log[n:])) for r in results]
        self.in_progress.add(key)
        try:
            s0 = entry
            a = func.args
            allp = a.posonlyargs + a.args + a.kwonlyargs
            defaults = dict(zip([p.arg for p in (a.posonlyargs + a.args)][len(a.posonlyargs + a.args) - len(a.defaults):], a.defaults))
            defaults.update({p.arg: dflt for p, dflt in zip(a.kwonlyargs, a.kw_defaults) if dflt is not None})
            for p in allp:
                if p.arg == fr.selfname:
                    continue
                if p.arg in argvals:
                    v = argvals[p.arg]
                elif p.arg in defaults and any(n_ == f"<default {p.arg}>" for n_, _ in closure_env):
                    v = next(v_ for n_, v_ in closure_env if n_ == f"<default {p.arg}>")   # evaluated when the function was defined
                elif p.arg in defaults and isinstance(defaults[p.arg], ast.Constant):
                    v = self.domain.constant(defaults[p.arg])
                elif p.arg in defaults and isinstance(defaults[p.arg], ast.Tuple) and getattr(self.domain, "exact_lists", False) and self._constant_tuple(defaults[p.arg]) is not None:
                    v = self._constant_tuple(defaults[p.arg])   # an immutable default (tuples of constants, nested)
                elif p.arg in defaults and getattr(self.domain, "heap", False) and _empty_container(defaults[p.arg]) is not None:
                    # a mutable default is one object, made when the function is defined and shared by all its calls
                    v = ("h", f"default:{getattr(func, 'name', '')}:{p.arg}:{defaults[p.arg].lineno}")
                    if not s0.has(heap_key(v)):
                        s0 = s0.set(heap_key(v), _empty_container(defaults[p.arg]))
                elif p.arg in defaults and getattr(self.domain, "default_value", None) is not None:
                    v = self.domain.default_value(defaults[p.arg], func)
                else:
                    v = TOP
                s0 = s0.set(fr.local(p.arg), v)
            if a.vararg:
                s0 = s0.set(fr.local(a.vararg.arg), argvals.get(a.vararg.arg, argvals.get("*", TOP)))
            if a.kwarg:
                s0 = s0.set(fr.local(a.kwarg.arg), argvals.get(a.kwarg.arg, argvals.get("**", TOP)))
            if isinstance(func, ast.Lambda):
                outs = [("raise", r.value, r.state) if r.kind == "exc" else ("return", r.value, r.state)
                        for r in self.eval(func.body, s0, fr, share=isinstance(func.body, (ast.Name, ast.Attribute)))]
            else:
                outs = self.exec_block(func.body, [s0], fr)
            results = []
            mutable_tags = (("kwdict",), ("tuple",)) if getattr(self.domain, "list_outparams", False) else (("kwdict",),)
            mutable_params = [p_ for p_ in [x.arg for x in allp] if isinstance(argvals.get(p_), tuple) and argvals[p_][:1] in mutable_tags]
            for kind, payload, s2 in outs:
                if kind == "return" and isinstance(payload, tuple) and not isinstance(func, ast.Lambda) and _defines_closures(func):
                    # closures leaving their defining frame (returned, or inside a returned object) take the
                    # values of their free variables along
                    own = own_names(func)

                    def close_over(v, depth=0):
                        if isinstance(v, tuple) and len(v) == 2 and v[0] == "func" and isinstance(v[1], FUNC_TYPES + (ast.Lambda,)):
                            if lexical_parent(v[1]) is func:
                                env = tuple(sorted(((n_, s2.get(fr.local(n_))) for n_ in free_names(v[1]) if n_ in own and s2.has(fr.local(n_))), key=lambda kv: kv[0]))
                                return ("func", v[1], env) if env else v
                            return v
                        if isinstance(v, tuple) and depth < 6:
                            return tuple(close_over(x, depth + 1) if isinstance(x, tuple) else x for x in v)
                        return v
                    payload = close_over(payload)
                # variables reached through ("ref", key) entries of the closure environment: hand changes back
                for name_, v0, ref in env_locals:
                    if ref is not None and s2.has(fr.local(name_)) and s2.get(fr.local(name_)) != v0:
                        s2 = s2.set(ref, s2.get(fr.local(name_)))
                finals = {p_: s2.get(fr.local(p_), None) for p_ in mutable_params}
                if cell_n is not None:
                    s2 = self._release_cells(cell_n, payload, s2, fr)
                s3 = s2.drop_prefix(fr.prefix)
                if export_locals is not None:
                    # the frame of a generator step: what its locals hold now stays with the generator object
                    for n_ in export_locals[1]:
                        s3 = s3.set(f"{export_locals[0]}.{n_}", s2.get(fr.local(n_)) if s2.has(fr.local(n_)) else ("unbound-local",))
                # a dict handed in by the caller and changed in place: hand the final content back
                for p_ in mutable_params:
                    final = finals[p_]
                    if is_handle(final):
                        final = s2.get(heap_key(final), final)   # (the parameter was moved to the heap inside the callee: what that object holds now)
                    if final is not None and final != argvals[p_]:
                        s3 = s3.set("outparam." + p_, final)
                if kind == "return":
                    results.append(val(payload, s3))
                elif kind == "next":
                    results.append(val(NONE, s3))
                elif kind == "raise":
                    results.append(exc(payload, s3))
                else:
                    raise Undecided(f"{kind} escaped from function {fr.name}")
            results = dedupe(results)
            old = self.summaries.get(key)
            if old is None or {r.key() for r in old} != {r.key() for r in results}:
                self.summaries[key] = results
                self.changed = True
            self.round_cache[key] = (results, len(entry.log))
            return [Result(r.kind, r.value, State(r.state.items | caller_locals, r.state.log)) for r in results]
        finally:
            self.in_progress.discard(key)

    @staticmethod
    def _release_cells(cell_n, payload, st, fr):
        """A frame that shared variables with its closures returns: unless one of those closures lives on (in the
        value returned / raised or anywhere in the state outside this frame), its cells go away with it."""
        prefix = f"cell.{cell_n}."

        def mentions(v, depth=0):
            if isinstance(v, tuple):
                if len(v) == 2 and v[0] == "ref" and isinstance(v[1], str) and v[1].startswith(prefix):
                    return True
                if depth < 10:
                    return any(mentions(x, depth + 1) for x in v if isinstance(x, tuple))
            return False
        if mentions(payload):
            return st
        for k, v in st.items:
            if k.startswith(fr.prefix) or k.startswith(prefix):
                continue
            if mentions(v):
                return st
        st = st.drop_prefix(prefix)
        if st.get("ev.cells", 0) == cell_n + 1:
            st = st.set("ev.cells", cell_n) if cell_n else State(frozenset((k, v) for k, v in st.items if k != "ev.cells"), st.log)
        return st

    def _closure_with_defaults(self, node, st, fr):
        """A lambda / nested def becomes a value: defaults that are not literals (`lambda test=test: ...`) are evaluated now, in
        the defining frame, and travel with the function."""
        base = self._closure_value(node, fr)
        a = node.args
        named = list(zip([p.arg for p in (a.posonlyargs + a.args)][len(a.posonlyargs + a.args) - len(a.defaults):], a.defaults)) + \
            [(p.arg, dflt) for p, dflt in zip(a.kwonlyargs, a.kw_defaults) if dflt is not None]
        todo = [(n_, e_) for n_, e_ in named if not isinstance(e_, ast.Constant) and self._constant_tuple(e_) is None and _empty_container(e_) is None]
        if not todo or not getattr(self.domain, "closure_cells", False):
            return [val(base, st)]
        out = []
        for r in self.eval_list([e_ for _, e_ in todo], st, fr, share=[True] * len(todo)):
            if r.kind == "exc":
                out.append(r)
                continue
            extra = tuple((f"<default {n_}>", v_) for (n_, _), v_ in zip(todo, r.value))
            out.append(val(("func", node, (base[2] if len(base) == 3 else ()) + extra), r.state))
        return out

    def _closure_value(self, node, fr):
        """The value of a lambda / nested def: its code and, under closure cells, references to the cells of the
        variables it shares with the frames around it."""
        if not getattr(self.domain, "closure_cells", False):
            return ("func", node)
        env = []
        for n_ in sorted(free_names(node)):
            key = fr.cellrefs.get(n_)
            if key is None:
                for e_ in fr.enclosing:
                    if n_ in e_.cellrefs:
                        key = e_.cellrefs[n_]
                        break
                    if n_ in own_names(e_.func):
                        break
            if key is not None:
                env.append((n_, ("ref", key)))
        return ("func", node, tuple(env)) if env else ("func", node)

    def _to_cells(self, func, fr, payload, st):
        """Closures leave their defining frame: the variables they share with it (and with each other) move to
        cells -- state keys "cell.<n>.<name>" that outlive the frame; every closure of this frame refers to them."""
        own = own_names(func)
        nested = [n for s_ in func.body for n in ast.walk(s_) if isinstance(n, FUNC_TYPES + (ast.Lambda,))]
        captured = sorted({n_ for f_ in nested for n_ in free_names(f_) if n_ in own and st.has(fr.local(n_))})

        def escaping(v, depth=0):
            if is_func_value(v) and len(v) == 2:
                return lexical_parent(v[1]) is func
            return isinstance(v, tuple) and depth < 6 and any(escaping(x, depth + 1) for x in v if isinstance(x, tuple))
        if not captured or not escaping(payload):
            return payload, st
        n = st.get("ev.cells", 0)
        st = st.set("ev.cells", n + 1)

        def env_of(node):
            return tuple((n_, ("ref", f"cell.{n}.{n_}")) for n_ in captured if n_ in free_names(node))

        def close(v, depth=0):
            if is_func_value(v) and len(v) == 2 and lexical_parent(v[1]) is func:
                env = env_of(v[1])
                return ("func", v[1], env) if env else v
            if isinstance(v, tuple) and depth < 6:
                return tuple(close(x, depth + 1) if isinstance(x, tuple) else x for x in v)
            return v
        for n_ in captured:
            st = st.set(f"cell.{n}.{n_}", close(st.get(fr.local(n_))))
        return close(payload), st

    # ------------------------------------------------------------------ generic inlining of in-repo callees
    def resolve_callee(self, call, st, fr, classes):
        """(def node, receiver ClassInfo or None, bind_self) for a call whose target is decided by the
        source alone: self.m(...), super().m(...), Class.m(self, ...), a module-level function, a
        function nested in an enclosing function, or a local holding ("func", node) -- else None."""
        func = call.func
        ch = attr_chain(func)
        if ch and len(ch) == 2 and fr.selfname and ch[0] == fr.selfname and fr.receiver is not None and classes is not None:
            owner, f = classes.resolve_method(fr.receiver, ch[1])
            if isinstance(f, FUNC_TYPES) and owner is not None and (not owner.external or (owner.module.name, owner.name) in getattr(self.domain, "followed_externals", ())):
                static = any(dotted(d) == "staticmethod" for d in f.decorator_list)
                return f, fr.receiver, not static
        if ch and len(ch) == 2 and ch[0] == "super()" and fr.receiver is not None and classes is not None:
            own = getattr(fr.func, "_class", None)
            owner_ci = classes.get(fr.func._module.name, own.name) if own is not None and hasattr(fr.func, "_module") else None
            if owner_ci is not None:
                owner, f = classes.resolve_method(fr.receiver, ch[1], after=owner_ci)
                if isinstance(f, FUNC_TYPES) and owner is not None and (not owner.external or (owner.module.name, owner.name) in getattr(self.domain, "followed_externals", ())):
                    return f, fr.receiver, True
        if isinstance(func, ast.Name):
            key = fr.local(func.id)
            if st.has(key):
                v = st.get(key)
                if isinstance(v, tuple) and len(v) in (2, 3) and v[0] == "func" and isinstance(v[1], FUNC_TYPES + (ast.Lambda,)):
                    return v[1], fr.receiver, False
                return None
            # nested def in an enclosing function, then module level
            n = fr.func
            while n is not None:
                body = getattr(n, "body", None)
                if isinstance(body, list):
                    for s_ in body:
                        if isinstance(s_, FUNC_TYPES) and s_.name == func.id and s_ is not fr.func:
                            return s_, (fr.receiver if not isinstance(n, ast.Module) else None), False
                n = getattr(n, "_parent", None)
            # imported from another module of the repository
            mod = getattr(fr.func, "_module", None)
            if classes is not None and mod is not None and hasattr(classes, "lookup_function"):
                f = classes.lookup_function(mod, func.id)
                if f is not None and f is not fr.func:
                    return f, None, False
        return None

    def call_function(self, f, call, st, fr, receiver=None, bind_self=True, closure_env=(), self_value=None):
        """Evaluate the arguments of ``call`` and inline ``f`` with them bound to its parameters."""
        exprs = [a.value if isinstance(a, ast.Starred) else a for a in call.args] + [k.value for k in call.keywords]
        params = [p.arg for p in f.args.posonlyargs + f.args.args]
        if bind_self and params:
            params = params[1:]
        kwonly = [p.arg for p in f.args.kwonlyargs]
        out = []
        share = [not isinstance(a, ast.Starred) for a in call.args] + [k.arg is not None for k in call.keywords]
        for r in self.eval_list(exprs, st, fr, share=share):
            if r.kind == "exc":
                out.append(r)
                continue
            posvals, kwvals, unknown_star = [], [], False
            for a, v in zip(call.args, r.value[: len(call.args)]):
                if isinstance(a, ast.Starred):
                    if isinstance(v, tuple) and v[:1] == ("tuple",):
                        posvals.extend(v[1:])
                    else:
                        unknown_star = True
                else:
                    posvals.append(v)
            for k, v in zip(call.keywords, r.value[len(call.args):]):
                if k.arg is not None:
                    kwvals.append((k.arg, v))
                elif isinstance(v, tuple) and v[:1] == ("kwdict",):
                    kwvals.extend(v[1])
                else:
                    unknown_star = True
            argvals = {}
            for i, v in enumerate(posvals):
                if i < len(params):
                    argvals[params[i]] = v
            extra_pos = tuple(posvals[len(params):])
            extra_kw = []
            for k, v in kwvals:
                if k in params or k in kwonly:
                    argvals[k] = v
                else:
                    extra_kw.append((k, v))
            if f.args.vararg is not None:
                argvals[f.args.vararg.arg] = TOP if unknown_star else ("tuple",) + extra_pos
            if f.args.kwarg is not None:
                argvals[f.args.kwarg.arg] = TOP if unknown_star else ("kwdict", tuple(extra_kw))
            if unknown_star:
                for p_ in params + kwonly:
                    argvals.setdefault(p_, TOP)
            # arguments that are plain names: the callee may have changed the dict they refer to
            back = {}
            for i, a in enumerate(call.args):
                if isinstance(a, ast.Name) and i < len(params):
                    back[params[i]] = fr.local(a.id)
            for k in call.keywords:
                if k.arg is not None and isinstance(k.value, ast.Name):
                    back[k.arg] = fr.local(k.value.id)
            for rr in self.inline(f, argvals, r.state, fr, receiver=receiver, is_method=bind_self, closure_env=closure_env, self_value=self_value):
                s2 = rr.state
                if rr.kind == "val" and isinstance(rr.value, tuple) and len(rr.value) == 3 and rr.value[0] == "func" and back and getattr(self.domain, "list_outparams", False):
                    # the closure captured a parameter that aliases one of our variables (a list to be filled, ...)
                    env = tuple((n_, ("ref", back[n_]) if n_ in back and isinstance(v_, tuple) and v_[:1] in (("tuple",), ("kwdict",)) else v_) for n_, v_ in rr.value[2])
                    rr = Result(rr.kind, ("func", rr.value[1], env), rr.state)
                for p_, ckey in back.items():
                    if s2.has("outparam." + p_):
                        s2 = s2.set(ckey, s2.get("outparam." + p_))
                if any(k_.startswith("outparam.") for k_, _ in s2.items):
                    s2 = s2.drop_prefix("outparam.")
                out.append(Result(rr.kind, rr.value, s2))
        return out

    def auto_inline(self, call, st, fr, classes=None):
        """Inline the callee when the source decides it; None when it does not."""
        hit = self.resolve_callee(call, st, fr, classes)
        if hit is None:
            return None
        f, receiver, bind_self = hit
        env = ()
        if isinstance(call.func, ast.Name) and st.has(fr.local(call.func.id)):
            v = st.get(fr.local(call.func.id))
            if isinstance(v, tuple) and len(v) == 3 and v[0] == "func":
                env = v[2]
        self_value = None
        ch = attr_chain(call.func)
        if fr.instance is not None and bind_self and ch and len(ch) == 2 and ch[0] in (fr.selfname, "super()"):
            self_value = fr.instance   # self.m() / super().m() inside a method of an instance: the same instance
        return self.call_function(f, call, st, fr, receiver=receiver, bind_self=bind_self, closure_env=env, self_value=self_value)

    def analyze(self, func, argvals, st, receiver=None, name=None, max_rounds=12):
        """Top-level entry: iterate until callee summaries are stable."""
        for _ in range(max_rounds):
            self.changed = False
            self.round_cache = {}
            res = self.inline(func, argvals, st, None, receiver=receiver, name=name)
            if not self.changed:
                break
        if getattr(self.domain, "lazy_generators", False) and any(r.kind == "val" and isinstance(r.value, tuple) and r.value[:1] in (("genobj",), ("lazycomp",)) for r in res):
            # the analysed function hands back a generator: the rules read what it yields (and what producing it does)
            res = [x for r in res for x in (self._forced([r], None) if r.kind == "val" and isinstance(r.value, tuple) and r.value[:1] in (("genobj",), ("lazycomp",)) else [r])]
        if getattr(self.domain, "heap", False):
            res = dedupe([Result(r.kind, unbox_deep(r.value, r.state, iters=True), without_heap(r.state)) for r in res])
        return res
