"""E1: load and parse the repository's sources (never imports them)."""

import ast
import hashlib
import os
import sysconfig


class AnalysisError(Exception):
    """The analysis cannot be carried out (anchor vanished, syntax error...).

    Mapped to exit code 2 -- never to a VIOLATION and never to a pass.
    """


class Undecided(AnalysisError):
    """An idiom inside an anchor is not one the rule understands."""


class Module:
    def __init__(self, name, path, relpath, source):
        self.name = name
        self.path = path
        self.relpath = relpath
        self.source = source
        self.digest = hashlib.sha256(source.encode("utf-8")).hexdigest()[:16]
        try:
            self.tree = ast.parse(source, filename=path)
        except SyntaxError as e:
            raise AnalysisError(f"syntax error in {relpath}: {e}")
        _annotate(self.tree, self)

    def __repr__(self):
        return f"<Module {self.name}>"


def _annotate(tree, module):
    """Give every node a parent pointer, its enclosing function/class, module."""
    tree._parent = None
    tree._func = None
    tree._class = None
    tree._module = module
    stack = [tree]
    while stack:
        node = stack.pop()
        for child in ast.iter_child_nodes(node):
            child._parent = node
            child._module = module
            if isinstance(node, (ast.FunctionDef, ast.AsyncFunctionDef, ast.Lambda)):
                child._func = node
                child._class = node._class
            elif isinstance(node, ast.ClassDef):
                child._func = None
                child._class = node
            else:
                child._func = node._func
                child._class = node._class
            if isinstance(child, (ast.FunctionDef, ast.AsyncFunctionDef, ast.Lambda)) and child.args.posonlyargs:
                # def f(self, x, /, *a): positional-only parameters are parameters like the others for what this analysis follows
                child.args.args = list(child.args.posonlyargs) + list(child.args.args)
                child.args.posonlyargs = []
            if isinstance(node, ast.ClassDef) and isinstance(child, (ast.FunctionDef, ast.AsyncFunctionDef)) and child.name.startswith("__") and not child.name.endswith("__"):
                child.name = "_" + node.name.lstrip("_") + child.name   # (a private method is stored under its mangled name)
            if isinstance(child, ast.Attribute) and child._class is not None and child.attr.startswith("__") and not child.attr.endswith("__"):
                # Python's name mangling, done here once: inside a class body `x.__a` *is* `x._Class__a`, which is also how
                # getattr(x, "_Class__a") / vars(x) outside the class spell it
                child.attr = "_" + child._class.name.lstrip("_") + child.attr
            stack.append(child)


class Repo:
    """All non-test modules of the ``testtools`` package under ``root``."""

    def __init__(self, root="/repo", package="testtools"):
        self.root = os.path.abspath(root)
        self.package = package
        self.modules = {}
        self.consulted = {}
        pkgdir = os.path.join(self.root, package)
        if not os.path.isdir(pkgdir):
            raise AnalysisError(f"package directory {pkgdir} not found")
        for dirpath, dirnames, filenames in os.walk(pkgdir):
            rel = os.path.relpath(dirpath, self.root)
            parts = rel.split(os.sep)
            if "tests" in parts[1:]:
                dirnames[:] = []
                continue
            dirnames[:] = sorted(d for d in dirnames if d != "__pycache__")
            for fn in sorted(filenames):
                if not fn.endswith(".py"):
                    continue
                path = os.path.join(dirpath, fn)
                relpath = os.path.relpath(path, self.root)
                modparts = relpath[:-3].split(os.sep)
                if modparts[-1] == "__init__":
                    modparts = modparts[:-1]
                name = ".".join(modparts)
                with open(path, encoding="utf-8") as f:
                    source = f.read()
                self.modules[name] = Module(name, path, relpath, source)
        self._external = {}

    def module(self, name):
        """Return the module, recording that a rule consulted it."""
        m = self.modules.get(name)
        if m is None:
            raise AnalysisError(f"anchor vanished: module {name} not found")
        self.consulted[m.relpath] = m.digest
        return m

    def external(self, name):
        """Parse (never import) an out-of-repo module, e.g. unittest.result."""
        if name in self._external:
            return self._external[name]
        candidates = []
        stdlib = sysconfig.get_paths()["stdlib"]
        purelib = sysconfig.get_paths()["purelib"]
        rel = name.replace(".", os.sep)
        for base in (stdlib, purelib):
            candidates.append(os.path.join(base, rel + ".py"))
            candidates.append(os.path.join(base, rel, "__init__.py"))
        for path in candidates:
            if os.path.isfile(path):
                with open(path, encoding="utf-8") as f:
                    source = f.read()
                m = Module(name, path, path, source)
                m.is_external = True
                self._external[name] = m
                return m
        self._external[name] = None
        return None

    def digest(self):
        h = hashlib.sha256()
        for name in sorted(self.modules):
            h.update(name.encode())
            h.update(self.modules[name].digest.encode())
        return h.hexdigest()[:16]
