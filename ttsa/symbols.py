"""E2: symbol and class tables, C3 MRO, method resolution (home-made CHA)."""

import ast

from .astutil import FUNC_TYPES, attr_chain, dotted, is_stub_body
from .loader import AnalysisError

# out-of-repo bases we parse (never import) so that inherited attributes are known
EXTERNAL_MODULES = {
    "unittest": "unittest",
    "unittest.result": "unittest.result",
    "unittest.case": "unittest.case",
    "unittest.suite": "unittest.suite",
    "fixtures": "fixtures",
    "fixtures.fixture": "fixtures.fixture",
}


class ClassInfo:
    def __init__(self, module, node, external=False):
        self.module = module
        self.node = node
        self.name = node.name
        self.external = external
        self.methods = {}  # name -> FunctionDef
        self.aliases = {}  # name -> expr (class-level ``a = b``)
        self.attrs = {}  # class-level assignments name -> value expr
        self.properties = {}  # name -> (getter name/def, setter name/def)
        self.bases = []  # resolved ClassInfo or None (unknown / builtin)
        self.base_exprs = list(node.bases)
        for stmt in node.body:
            self._collect(stmt)

    def _collect(self, stmt):
        if isinstance(stmt, FUNC_TYPES):
            deco = [dotted(d) or dotted(getattr(d, "func", None) or d) for d in stmt.decorator_list]
            if "property" in deco:
                self.properties[stmt.name] = (stmt, self.properties.get(stmt.name, (None, None))[1])
                self.methods.setdefault(stmt.name, stmt)
            elif any(d and d.endswith(".setter") for d in deco):
                g = self.properties.get(stmt.name, (None, None))[0]
                self.properties[stmt.name] = (g, stmt)
            else:
                self.methods[stmt.name] = stmt
        elif isinstance(stmt, ast.Assign):
            for t in stmt.targets:
                if isinstance(t, ast.Name):
                    self.attrs[t.id] = stmt.value
                    v = stmt.value
                    if isinstance(v, ast.Name):
                        self.aliases[t.id] = v
                    # property(g, s) / property(fget=g, fset=s) / property(g).setter(s)
                    chained = None
                    if isinstance(v, ast.Call) and isinstance(v.func, ast.Attribute) and v.func.attr == "setter" and len(v.args) == 1 and not v.keywords:
                        chained, v = v.args[0], v.func.value
                    if (
                        isinstance(v, ast.Call)
                        and isinstance(v.func, ast.Name)
                        and v.func.id == "property"
                        and all(k.arg in ("fget", "fset", "doc", "fdel") for k in v.keywords)
                    ):
                        given = dict(zip(("fget", "fset"), v.args[:2]))
                        given.update({k.arg: k.value for k in v.keywords})
                        g = given.get("fget")
                        s = chained if chained is not None else given.get("fset")
                        self.properties[t.id] = (g, s)
        elif isinstance(stmt, ast.AnnAssign) and isinstance(stmt.target, ast.Name):
            if stmt.value is not None:
                self.attrs[stmt.target.id] = stmt.value
        elif isinstance(stmt, (ast.If, ast.Try)):
            for sub in ast.iter_child_nodes(stmt):
                if isinstance(sub, ast.stmt):
                    self._collect(sub)

    @property
    def qual(self):
        return f"{self.module.name}:{self.name}"

    def __repr__(self):
        return f"<Class {self.qual}>"

    def own_method(self, name):
        """The def bound to ``name`` in this class body (following ``a = b``)."""
        seen = set()
        while name in self.aliases and name not in self.methods and name not in seen:
            seen.add(name)
            name = self.aliases[name].id
        return self.methods.get(name)

    def defines(self, name):
        return name in self.methods or name in self.attrs or name in self.properties


class ClassTable:
    def __init__(self, repo):
        self.repo = repo
        self.by_module = {}  # module name -> {class name -> ClassInfo}
        self.all = []
        for m in repo.modules.values():
            self._index_module(m, external=False)
        self._ext_loaded = set()
        for ci in list(self.all):
            self._resolve_bases(ci)
        self._mro_cache = {}

    # -- indexing ---------------------------------------------------------
    def _index_module(self, m, external):
        d = self.by_module.setdefault(m.name, {})
        for node in ast.walk(m.tree):
            if isinstance(node, ast.ClassDef) and isinstance(
                getattr(node, "_parent", None), (ast.Module, ast.If, ast.Try)
            ):
                ci = ClassInfo(m, node, external)
                d[node.name] = ci
                self.all.append(ci)
        return d

    def _load_external(self, modname):
        if modname in self._ext_loaded:
            return self.by_module.get(modname, {})
        self._ext_loaded.add(modname)
        m = self.repo.external(modname)
        if m is None:
            return {}
        d = self._index_module(m, external=True)
        for ci in list(d.values()):
            self._resolve_bases(ci)
        return d

    # -- name resolution ----------------------------------------------------
    def imports_of(self, module):
        """name -> ('module', modname) | ('from', modname, attr) for a module."""
        cached = getattr(module, "_imports", None)
        if cached is not None:
            return cached
        out = {}
        for node in ast.walk(module.tree):
            if isinstance(node, ast.Import):
                for a in node.names:
                    if a.asname:
                        out[a.asname] = ("module", a.name)
                    else:
                        out[a.name.split(".")[0]] = ("module", a.name.split(".")[0])
            elif isinstance(node, ast.ImportFrom):
                base = node.module or ""
                if node.level:
                    pkg = module.name.split(".")
                    if not module.path.endswith("__init__.py"):
                        pkg = pkg[:-1]
                    if node.level > 1:
                        pkg = pkg[: len(pkg) - (node.level - 1)]
                    base = ".".join(pkg + ([node.module] if node.module else []))
                for a in node.names:
                    out[a.asname or a.name] = ("from", base, a.name)
        module._imports = out
        return out

    def lookup(self, module, name, _depth=0):
        """Resolve a simple class name as seen from ``module``."""
        if _depth > 6:
            return None
        d = self.by_module.get(module.name, {})
        if name in d:
            return d[name]
        imp = self.imports_of(module).get(name)
        if imp and imp[0] == "from":
            return self.lookup_in(imp[1], imp[2], _depth + 1)
        # a module-level alias of a class: `AnnotatedMismatch = PostfixedMismatch` (bound once, to a plain name)
        bound = [s_ for s_ in module.tree.body if isinstance(s_, ast.Assign) and any(isinstance(t, ast.Name) and t.id == name for t in s_.targets)]
        if len(bound) == 1 and isinstance(bound[0].value, ast.Name) and bound[0].value.id != name:
            return self.lookup(module, bound[0].value.id, _depth + 1)
        return None

    def lookup_function(self, module, name, _depth=0):
        """A module-level function of the repository visible under ``name`` in ``module`` (defined there or
        imported with `from ... import`), else None."""
        if _depth > 6 or module is None:
            return None
        for s_ in module.tree.body:
            if isinstance(s_, (ast.FunctionDef, ast.AsyncFunctionDef)) and s_.name == name:
                return s_
        imp = self.imports_of(module).get(name)
        if imp and imp[0] == "from" and imp[1] in self.repo.modules:
            src = self.repo.module(imp[1])
            return self.lookup_function(src, imp[2], _depth + 1)
        return None

    def lookup_in(self, modname, name, _depth=0):
        if _depth > 6:
            return None
        if modname in self.repo.modules:
            return self.lookup(self.repo.modules[modname], name, _depth + 1)
        if modname.split(".")[0] in ("unittest", "fixtures"):
            d = self._load_external(modname)
            if name in d:
                return d[name]
            m = self.repo.external(modname)
            if m is not None:
                imp = self.imports_of(m).get(name)
                if imp and imp[0] == "from":
                    return self.lookup_in(imp[1], imp[2], _depth + 1)
        return None

    def resolve_expr(self, module, expr):
        """Resolve a base-class expression (Name or dotted) to a ClassInfo."""
        chain = attr_chain(expr)
        if not chain:
            return None
        if len(chain) == 1:
            return self.lookup(module, chain[0])
        imp = self.imports_of(module).get(chain[0])
        if imp and imp[0] == "module":
            modname = ".".join([imp[1]] + chain[1:-1])
            return self.lookup_in(modname, chain[-1])
        if imp and imp[0] == "from":
            modname = ".".join([imp[1], imp[2]] + chain[1:-1])
            return self.lookup_in(modname, chain[-1])
        return None

    def _resolve_bases(self, ci):
        ci.bases = [self.resolve_expr(ci.module, b) for b in ci.base_exprs]

    def get(self, modname, clsname):
        self.repo.module(modname)
        ci = self.by_module.get(modname, {}).get(clsname)
        if ci is None:
            raise AnalysisError(f"anchor vanished: class {modname}:{clsname}")
        return ci

    def find(self, clsname):
        """All in-repo classes with this simple name."""
        return [c for c in self.all if c.name == clsname and not c.external]

    # -- MRO ----------------------------------------------------------------
    def mro(self, ci):
        if ci in self._mro_cache:
            return self._mro_cache[ci]
        self._mro_cache[ci] = [ci]  # recursion guard
        seqs = [self.mro(b) for b in ci.bases if b is not None]
        seqs.append([b for b in ci.bases if b is not None])
        seqs = [list(s) for s in seqs]
        result = [ci]
        while True:
            seqs = [s for s in seqs if s]
            if not seqs:
                break
            for s in seqs:
                cand = s[0]
                if not any(cand in t[1:] for t in seqs):
                    break
            else:
                # inconsistent hierarchy; fall back to depth-first order
                cand = seqs[0][0]
            result.append(cand)
            for s in seqs:
                if s and s[0] is cand:
                    del s[0]
        self._mro_cache[ci] = result
        return result

    def is_subclass(self, ci, other):
        return other in self.mro(ci)

    def has_base_named(self, ci, name):
        """Does the MRO (incl. unresolved base names) contain ``name``?"""
        for c in self.mro(ci):
            if c.name == name:
                return True
            for b in c.base_exprs:
                ch = attr_chain(b)
                if ch and ch[-1] == name:
                    return True
        return False

    def subclasses(self, ci, strict=False):
        return [
            c for c in self.all if ci in self.mro(c) and not (strict and c is ci)
        ]

    def resolve_method(self, ci, name, after=None):
        """(defining ClassInfo, def node) for ``ci().name``; ``after`` = super()."""
        mro = self.mro(ci)
        if after is not None:
            if after in mro:
                mro = mro[mro.index(after) + 1 :]
            else:
                mro = self.mro(after)[1:]
        for c in mro:
            f = c.own_method(name)
            if f is not None:
                return c, f
            if name in c.properties:
                g = c.properties[name][0]
                if isinstance(g, ast.Name):
                    f = c.own_method(g.id)
                    if f is not None:
                        return c, f
                elif isinstance(g, FUNC_TYPES):
                    return c, g
            if name in c.attrs:
                return c, c.attrs[name]
        return None, None

    def resolve_attr_owner(self, ci, name):
        for c in self.mro(ci):
            if c.defines(name):
                return c
        return None

    def is_abstract_stub(self, func):
        return isinstance(func, FUNC_TYPES) and is_stub_body(func) == "abstract"


def instance_attrs_assigned(func):
    """Names X for every ``self.X = ...`` (incl. augmented / tuple) in func."""
    out = set()
    if not isinstance(func, FUNC_TYPES) or not func.args.args:
        return out
    selfname = func.args.args[0].arg
    for n in ast.walk(func):
        targets = []
        if isinstance(n, ast.Assign):
            targets = n.targets
        elif isinstance(n, (ast.AugAssign, ast.AnnAssign)):
            targets = [n.target]
        elif isinstance(n, (ast.For, ast.AsyncFor)):
            targets = [n.target]
        elif isinstance(n, ast.With):
            targets = [i.optional_vars for i in n.items if i.optional_vars is not None]
        for t in targets:
            for sub in ast.walk(t):
                if (
                    isinstance(sub, ast.Attribute)
                    and isinstance(sub.value, ast.Name)
                    and sub.value.id == selfname
                    and isinstance(sub.ctx, ast.Store)
                ):
                    out.add(sub.attr)
    return out


def mangle(clsname, attr):
    if attr.startswith("__") and not attr.endswith("__"):
        return "_" + clsname.lstrip("_") + attr
    return attr
