"""A reusable abstract-interpretation domain that observes *effects*: which tracked calls a function
makes, in which order and with which abstract arguments, under a chosen environment of attribute
values.  In-repo helpers (self.m(), super().m(), module-level and nested functions) are inlined, so a
rule written against the log does not care whether the code was split into helpers, re-nested, or
had its conditions inverted.

    dom = EffectDomain(classes, attrs={"self.failfast": TRUE}, track=lambda d: d == "self.stop")
    for r in run(dom, func, receiver, argvals): r.state.get("ev.calls")  -> ((dotted, args, kwargs), ...)
"""

import ast
import os

from .absint import EMPTY, FALSE, NONE, NONEMPTY, NOTNONE, TOP, TRUE, DefaultDomain, Interp, Result, State, exc, unbox, unbox_deep, val
from .astutil import FUNC_TYPES, attr_chain, dotted, norm

DELETED = ("deleted-attribute",)   # what the state holds for an attribute of a wrapped object removed with delattr / del


class EffectDomain(DefaultDomain):
    track_lists = True
    exact_dicts = True
    exact_lists = True
    inline_contextmanagers = True
    list_widening = 12

    def __init__(self, classes, attrs=None, track=None, results=None, raises=None, consts=True, inline=True, log_cap=12, lacks=(), oracle=None, ctors=(), track_stores=(), log_reads=()):
        self.classes = classes
        self.attrs = dict(attrs or {})
        self.track = track or (lambda d: False)
        self.results = dict(results or {})   # dotted -> [values] a call may return
        self.raises = dict(raises or {})     # dotted -> [exception values] a call may raise
        self.consts = consts
        self.inline = inline
        self.log_cap = log_cap
        self.lacks = set(lacks)             # {(object id, attribute)} a wrapped object does not have
        self.oracle = oracle               # (name, pos, kw) -> [("val", v) | ("exc", e)] | None: behaviour of a wrapped object's method
        self.ctors = set(ctors)             # callables whose result is the symbolic object ("new", name, args, kwargs)
        self.log_reads = set(log_reads)     # data attributes of wrapped objects whose reads are logged as "<id>.<attr>:read"
        self.track_stores = set(track_stores)  # "self.<attr>" keys whose assignments are logged as ("store:<key>", (value,), (), "ok")

    # -- values -------------------------------------------------------------------------
    def constant(self, node):
        if not self.consts:
            return super().constant(node)
        if node.value is None:
            return NONE
        if node.value is True:
            return TRUE
        if node.value is False:
            return FALSE
        return ("const", node.value)

    def truth(self, value):
        if isinstance(value, tuple) and len(value) == 2 and value[0] == "const":
            return "T" if value[1] else "F"
        if isinstance(value, tuple) and value[:1] in (("bound",), ("wobj",), ("new",)):
            return "T"
        if value == ("set", ("empty",)):
            return "F"
        if isinstance(value, tuple) and value[:1] == ("set",) and len(value) == 2:
            els = self._set_elements(value)   # a set built by decided steps from known elements: empty or not
            if els is not None:
                return "T" if els else "F"
        if isinstance(value, tuple) and value[:1] in (("attr",), ("set",)):
            return "TF"
        if isinstance(value, tuple) and value[:1] == ("tuple",):
            return "T" if len(value) > 1 else "F"
        if isinstance(value, tuple) and value[:1] == ("kwdict",):
            return "T" if value[1] else "F"
        return super().truth(value)

    def is_none(self, value):
        if isinstance(value, tuple) and value[:1] in (("const",), ("bound",), ("wobj",), ("tuple",), ("kwdict",), ("ret",), ("arg",), ("new",), ("set",), ("concat",), ("methodcaller",), ("lazymap",)):
            return "F"
        if isinstance(value, tuple) and value[:1] == ("attr",):
            return "TF"   # the value of an attribute of a symbolic object is anything
        return super().is_none(value)

    PURE_STR_METHODS = {"split", "rsplit", "partition", "rpartition", "startswith", "endswith", "removeprefix", "removesuffix", "find", "rfind",
                        "index", "count", "strip", "lstrip", "rstrip", "lower", "upper", "replace", "join", "format", "encode", "decode", "isdigit"}

    @staticmethod
    def _py(v):
        """(True, python value) for an abstract value that is a known constant."""
        if v == NONE:
            return True, None
        if v == TRUE:
            return True, True
        if v == FALSE:
            return True, False
        if isinstance(v, tuple) and len(v) == 2 and v[0] == "const":
            return True, v[1]
        if isinstance(v, tuple) and v[:1] in (("tuple",), ("lazyseq",)):
            items = [EffectDomain._py(x) for x in v[1:]]
            if all(ok for ok, _ in items):
                return True, tuple(x for _, x in items)
        return False, None

    @staticmethod
    def _abs(x):
        if x is None:
            return NONE
        if x is True:
            return TRUE
        if x is False:
            return FALSE
        if isinstance(x, (tuple, list)):
            return ("tuple",) + tuple(EffectDomain._abs(y) for y in x)
        return ("const", x)

    def _sort_elements(self, els):
        """Sort an exact sequence the way list.sort() would: ("ok", sorted) | ("exc", TypeError) | None (not decidable).
        Constants sort by value; (key, object) pairs sort by their constant key -- a None among strings, or two
        equal keys followed by objects that cannot be ordered, raise TypeError like the real comparison."""
        pys = [self._py(x) for x in els]
        if all(ok_ for ok_, _ in pys):
            try:
                return ("ok", tuple(self._abs(v) for v in sorted(p_ for _, p_ in pys)))
            except TypeError:
                return ("exc", ("exc", "TypeError"))
        if all(isinstance(x, tuple) and x[:1] == ("tuple",) and len(x) >= 2 for x in els):
            keys = [self._py(x[1]) for x in els]
            if all(ok_ for ok_, _ in keys):
                ks = [k_ for _, k_ in keys]
                try:
                    order = sorted(range(len(ks)), key=lambda i: ks[i])
                except TypeError:
                    return ("exc", ("exc", "TypeError"))
                if len(set(map(repr, ks))) != len(ks):
                    return ("exc", ("exc", "TypeError"))   # equal keys: the objects themselves would be compared
                return ("ok", tuple(els[i] for i in order))
        return None

    def comprehension(self, interp, comp, st, fr):
        """{k: v for target in <exact sequence> if conds} -> an exact dict"""
        if not isinstance(comp, ast.DictComp) or len(comp.generators) != 1 or comp.generators[0].is_async:
            return None
        gen = comp.generators[0]
        out = []
        for r in interp._forced(interp.eval(gen.iter, st, fr), fr):
            if r.kind == "exc":
                out.append(r)
                continue
            els = interp._exact_elements(r.value)
            if els is None:
                return None
            cur = [(r.state, ())]
            for elv in els:
                nxt = []
                for c, acc in cur:
                    states = [interp.assign(gen.target, elv, c, fr)]
                    for cond in gen.ifs:
                        keep = []
                        for s3 in states:
                            for br, s4 in interp.branch(cond, s3, fr):
                                if br == "exc":
                                    out.append(s4)
                                elif br:
                                    keep.append(s4)
                                else:
                                    nxt.append((s4, acc))
                        states = keep
                    for s3 in states:
                        for r2 in interp.eval_list([comp.key, comp.value], s3, fr):
                            if r2.kind == "exc":
                                out.append(r2)
                                continue
                            ok_, k_ = self._dkey(r2.value[0])
                            if not ok_:
                                return None
                            nxt.append((r2.state, tuple(x for x in acc if x[0] != k_) + ((k_, r2.value[1]),)))
                cur = nxt
            out.extend(val(("kwdict", acc), c) for c, acc in cur)
        return out

    def augassign(self, interp, stmt, value, st, fr):
        """x op= v on a local or self attribute whose current value is known: x = x op v"""
        key = interp._key_of(stmt.target, fr, st)
        if key is None or not st.has(key):
            return None
        new = self.binop(stmt, st.get(key), value)
        return interp.assign(stmt.target, new, st, fr)

    def joined_str(self, values):
        """f"{a}/{b}" is the concatenation of its parts"""
        parts = []
        for v in values:
            if isinstance(v, tuple) and v[:1] == ("concat",):
                parts.extend(v[1:])
            else:
                parts.append(v)
        if all(isinstance(p_, tuple) and p_[:1] == ("const",) and isinstance(p_[1], (str, int)) and not isinstance(p_[1], bool) for p_ in parts):
            return ("const", "".join(str(p_[1]) for p_ in parts))
        if all(p_ != TOP for p_ in parts):
            return ("concat",) + tuple(parts)
        return NOTNONE

    def binop(self, node, left, right):
        okl, pl = self._py(left)
        okr, pr = self._py(right)
        if okl and okr and isinstance(pl, (bool, int)) and isinstance(pr, (bool, int)) and isinstance(node.op, (ast.BitOr, ast.BitAnd, ast.BitXor)):
            return self._abs(pl | pr if isinstance(node.op, ast.BitOr) else pl & pr if isinstance(node.op, ast.BitAnd) else pl ^ pr)
        if okl and okr and isinstance(pl, bool) and isinstance(pr, (bool, int)) or okl and okr and isinstance(pr, bool) and isinstance(pl, int):
            # booleans in arithmetic are 0 / 1
            if isinstance(node.op, ast.Add):
                return self._abs(int(pl) + int(pr))
            if isinstance(node.op, ast.Sub):
                return self._abs(int(pl) - int(pr))
            if isinstance(node.op, ast.Mult):
                return self._abs(int(pl) * int(pr))
        if okl and okr and isinstance(pl, (int, str, bytes)) and isinstance(pr, (int, str, bytes)) and not isinstance(pl, bool) and not isinstance(pr, bool):
            try:
                if isinstance(node.op, ast.Add):
                    return self._abs(pl + pr)
                if isinstance(node.op, ast.Sub):
                    return self._abs(pl - pr)
                if isinstance(node.op, ast.Mult) and isinstance(pl, int) and isinstance(pr, int):
                    return self._abs(pl * pr)
                if isinstance(node.op, ast.Mult) and (isinstance(pl, int) != isinstance(pr, int)) and abs(pl if isinstance(pl, int) else pr) <= 200:
                    return self._abs(pl * pr)   # "=" * 70
            except TypeError:
                pass
        if isinstance(node.op, ast.Mod) and okl and okr and isinstance(pl, str):
            try:
                return self._abs(pl % pr)
            except (TypeError, ValueError):
                pass
        if isinstance(node.op, ast.Mod) and okl and isinstance(pl, str) and right != TOP and getattr(self, "heap", False):
            return ("fmt", left, right)   # text made from this template and these values, some of them not known exactly
        if isinstance(left, tuple) and isinstance(right, tuple) and left[:1] == ("set",) and right[:1] == ("set",):
            op = {ast.BitOr: "union", ast.Sub: "minus", ast.BitAnd: "meet"}.get(type(node.op))
            if op:
                return ("set", (op, left[1], right[1]))
        if isinstance(node.op, ast.Add):
            parts = []
            for v in (left, right):
                if isinstance(v, tuple) and v[:1] == ("concat",):
                    parts.extend(v[1:])
                elif isinstance(v, tuple) and v[:1] == ("tuple",) and isinstance(left, tuple) and left[:1] == ("tuple",) and isinstance(right, tuple) and right[:1] == ("tuple",):
                    return left + right[1:]
                else:
                    parts.append(v)
            if all(isinstance(p_, tuple) and p_[:1] == ("const",) and isinstance(p_[1], str) for p_ in parts):
                return ("const", "".join(p_[1] for p_ in parts))
            if all(p_ != TOP for p_ in parts):
                return ("concat",) + tuple(parts)
        return TOP

    def _same_element(self, a, b):
        """True / False when two abstract values are known to be equal / different as set elements, else None."""
        if a == TOP or b == TOP:
            return None
        if a == b:
            return True
        if any(isinstance(v, tuple) and v[:1] == ("sym",) and isinstance(v[1], str) and v[1].startswith(("<object #", "<module sentinel")) for v in (a, b)):
            return False   # a plain object() is equal to itself only
        for x, y in ((a, b), (b, a)):
            if isinstance(x, tuple) and x[:1] == ("typeof",) and isinstance(x[1], tuple) and x[1][:1] == ("exc",) and isinstance(y, tuple) and y[:1] in (("excclass",), ("ctorref",), ("classref",)):
                cname = y[1].split(".")[-1] if isinstance(y[1], str) else getattr(y[1], "name", None)
                return x[1][1] == cname   # type(e) is exactly that class
        oka, ka = self._dkey(a)
        okb, kb = self._dkey(b)
        if oka and okb:
            return ka == kb
        return None

    SET_METHODS = ("update", "difference_update", "add", "discard", "remove", "intersection_update", "copy", "union", "difference")

    def set_method(self, key, name, arg, st):
        """<the set kept under the state key>.name(arg) -> results."""
        cur = st.get(key)
        op = {"update": "union", "union": "union", "difference_update": "minus", "difference": "minus", "add": "with", "discard": "without", "remove": "without", "intersection_update": "meet"}.get(name)
        if name == "remove":
            there = self._set_member(arg, cur[1]) if arg is not None else None
            out = []
            if there is not True:
                out.append(exc(("exc", "KeyError"), st))
            if there is not False:
                out.append(val(NONE, st.set(key, ("set", (op, cur[1], arg)))))
            return out
        if name == "copy":
            return [val(("set", ("copy", cur)), st)]
        if name in ("union", "difference"):
            return [val(("set", (op, cur[1], arg)), st)]
        return [val(NONE, st.set(key, ("set", (op, cur[1], arg))))]

    def _set_elements(self, expr, depth=0):
        """The elements of the set an expression builds, when every step is decided (a list without duplicates), else None."""
        if isinstance(expr, tuple) and expr[:1] == ("set",) and len(expr) == 2:
            expr = expr[1]
        if isinstance(expr, tuple) and expr[:1] == ("tuple",):
            out = []
            for el in expr[1:]:
                same = [self._same_element(el, o) for o in out]
                if None in same:
                    return None
                if True not in same:
                    out.append(el)
            return out
        if not isinstance(expr, tuple) or not expr or depth > 12:
            return None
        tag = expr[0]
        if tag == "empty":
            return []
        if tag == "copy" and len(expr) == 2:
            return self._set_elements(expr[1], depth + 1)
        if tag in ("with", "without") and len(expr) == 3:
            base = self._set_elements(expr[1], depth + 1)
            if base is None:
                return None
            same = [self._same_element(expr[2], o) for o in base]
            if None in same:
                return None
            if tag == "with":
                return base if True in same else base + [expr[2]]
            return [o for o, s_ in zip(base, same) if not s_]
        if tag in ("union", "minus", "meet") and len(expr) == 3:
            a, b = self._set_elements(expr[1], depth + 1), self._set_elements(expr[2], depth + 1)
            if a is None or b is None:
                return None
            def has(x, seq):
                v = [self._same_element(x, o) for o in seq]
                return None if None in v and True not in v else True in v
            if tag == "union":
                out = list(a)
                for x in b:
                    h = has(x, out)
                    if h is None:
                        return None
                    if not h:
                        out.append(x)
                return out
            keep = []
            for x in a:
                h = has(x, b)
                if h is None:
                    return None
                if h == (tag == "meet"):
                    keep.append(x)
            return keep
        return None

    def _set_member(self, x, expr, depth=0):
        """Is x a member of the set the expression builds?  True / False / None (not decided)."""
        if not isinstance(expr, tuple) or not expr or depth > 12:
            return None
        tag = expr[0]
        if tag == "empty":
            return False
        if tag in ("with", "without") and len(expr) == 3:
            same = self._same_element(x, expr[2])
            if same is True:
                return tag == "with"
            if same is False:
                return self._set_member(x, expr[1], depth + 1)
            return None
        if tag == "copy" and len(expr) == 2:
            v = expr[1]
            if isinstance(v, tuple) and v[:1] == ("set",) and len(v) == 2:
                return self._set_member(x, v[1], depth + 1)
            if isinstance(v, tuple) and v[:1] == ("tuple",):
                verdicts = [self._same_element(x, el) for el in v[1:]]
                if True in verdicts:
                    return True
                return False if all(v_ is False for v_ in verdicts) else None
            return None
        if tag in ("union", "minus", "meet") and len(expr) == 3:
            def side(e_):
                if isinstance(e_, tuple) and e_[:1] == ("set",) and len(e_) == 2:
                    e_ = e_[1]
                return self._set_member(x, e_, depth + 1)
            a, b = side(expr[1]), side(expr[2])
            if tag == "union":
                return True if True in (a, b) else False if (a is False and b is False) else None
            if tag == "minus":
                return False if (a is False or b is True) else True if (a is True and b is False) else None
            return True if (a is True and b is True) else False if False in (a, b) else None
        return None

    def _values_equal(self, a, b, depth=0):
        """True / False when two abstract values are known to compare equal / unequal, else None."""
        if a == TOP or b == TOP or depth > 6:
            return None
        ka, kb = isinstance(a, tuple) and a[:1] == ("kwdict",), isinstance(b, tuple) and b[:1] == ("kwdict",)
        if ka and kb:
            da, db = dict(a[1]), dict(b[1])
            if set(da) != set(db):
                return False
            verdicts = [self._values_equal(da[k], db[k], depth + 1) for k in da]
            return False if False in verdicts else (None if None in verdicts else True)
        if ka != kb and (self._py(a)[0] or self._py(b)[0]):
            return False
        ta, tb = isinstance(a, tuple) and a[:1] == ("tuple",), isinstance(b, tuple) and b[:1] == ("tuple",)
        if ta and tb:
            if len(a) != len(b):
                return False
            verdicts = [self._values_equal(x, y, depth + 1) for x, y in zip(a[1:], b[1:])]
            return False if False in verdicts else (None if None in verdicts else True)
        return self._same_element(a, b)

    def compare(self, op, left, right):
        if isinstance(op, (ast.Eq, ast.NotEq)) and all(isinstance(v, tuple) and v[:1] == ("kwdict",) for v in (left, right)):
            same = self._values_equal(left, right)
            if same is not None:
                return "T" if same == isinstance(op, ast.Eq) else "F"
        if isinstance(op, (ast.In, ast.NotIn)) and isinstance(right, tuple) and right[:1] == ("kwdict",):
            ok_, key_ = self._dkey(left)
            if ok_:
                hit = any(k == key_ for k, _ in right[1])
                return "T" if hit == isinstance(op, ast.In) else "F"
        if isinstance(op, (ast.In, ast.NotIn)) and isinstance(right, tuple) and right[:1] == ("set",) and len(right) == 2:
            hit = self._set_member(left, right[1])
            if hit is not None:
                return "T" if hit == isinstance(op, ast.In) else "F"
        if isinstance(op, (ast.In, ast.NotIn)) and isinstance(right, tuple) and right[:1] == ("table",):
            ok, k = self._py(left)
            if ok:
                hit = k in dict(right[1])
                return "T" if hit == isinstance(op, ast.In) else "F"
        if isinstance(op, (ast.Is, ast.IsNot)) and left != right and TOP not in (left, right) and any(
                isinstance(v, tuple) and v[:1] == ("sym",) and isinstance(v[1], str) and v[1].startswith("<module sentinel") for v in (left, right)) and all(
                isinstance(v, tuple) and v and v[0] in self.IDENTITY_TAGS + ("const", "tuple", "kwdict", "set") or v in (NONE, TRUE, FALSE) for v in (left, right)):
            # a module-level `object()` sentinel is identical to nothing but itself
            return "F" if isinstance(op, ast.Is) else "T"
        if isinstance(op, (ast.Eq, ast.NotEq, ast.Is, ast.IsNot)) and TOP not in (left, right) and any(
                isinstance(v, tuple) and v[:1] == ("sym",) and isinstance(v[1], str) and v[1].startswith(("<object #", "<module sentinel")) for v in (left, right)):
            # a plain object() compares equal to itself only
            return "T" if (left == right) == isinstance(op, (ast.Eq, ast.Is)) else "F"
        if isinstance(op, (ast.Is, ast.IsNot, ast.Eq, ast.NotEq)) and any(isinstance(v, tuple) and v[:1] == ("typeof",) for v in (left, right)):
            same = self._same_element(left, right)
            if same is not None:
                return "T" if same == isinstance(op, (ast.Is, ast.Eq)) else "F"
        if isinstance(op, (ast.Is, ast.IsNot)) and all(isinstance(v, tuple) and v and v[0] in self.IDENTITY_TAGS for v in (left, right)):
            # distinct symbolic objects are distinct objects
            return "T" if (left == right) == isinstance(op, ast.Is) else "F"
        if isinstance(op, (ast.In, ast.NotIn)) and isinstance(right, tuple) and right[:1] == ("tuple",):
            # membership in an exact sequence: decided when every element is known to be (un)equal to the candidate
            verdicts = []
            for el in right[1:]:
                if el == left and left != TOP:
                    verdicts.append("T")
                elif left == NONE and self.is_none(el) == "F":
                    verdicts.append("F")
                elif self._py(left)[0] and self._py(el)[0]:
                    verdicts.append("T" if self._py(left)[1] == self._py(el)[1] else "F")
                elif self._same_element(left, el) is not None:
                    verdicts.append("T" if self._same_element(left, el) else "F")
                else:
                    verdicts.append("?")
            if "T" in verdicts:
                return "T" if isinstance(op, ast.In) else "F"
            if all(v == "F" for v in verdicts):
                return "F" if isinstance(op, ast.In) else "T"
        okl, pl = self._py(left)
        okr, pr = self._py(right)
        if okl and okr:
            try:
                if isinstance(op, (ast.Is, ast.IsNot)) and (isinstance(pl, (str, bool, type(None))) or isinstance(pr, (str, bool, type(None)))) and type(pl) is type(pr):
                    # identity of constants that come from one literal / one module constant: that of equal values
                    return "T" if (pl == pr) == isinstance(op, ast.Is) else "F"
                res = {ast.Eq: lambda: pl == pr, ast.NotEq: lambda: pl != pr, ast.Lt: lambda: pl < pr, ast.LtE: lambda: pl <= pr, ast.Gt: lambda: pl > pr,
                       ast.GtE: lambda: pl >= pr, ast.In: lambda: pl in pr, ast.NotIn: lambda: pl not in pr}.get(type(op))
                if res is not None:
                    return "T" if res() else "F"
            except TypeError:
                pass
        return None

    def subscript(self, base, idx, st, fr):
        okb, pb = self._py(base)
        if okb and isinstance(pb, (str, bytes, tuple)):
            if isinstance(idx, tuple) and idx[:1] == ("slice",):
                parts = [self._py(x) for x in idx[1:]]
                if all(ok for ok, _ in parts):
                    try:
                        return self._abs(pb[slice(*[x for _, x in parts])])
                    except (TypeError, ValueError):
                        return None
            oki, pi = self._py(idx)
            if oki and isinstance(pi, int) and not isinstance(pi, bool):
                try:
                    return self._abs(pb[pi])
                except IndexError:
                    return None
        if isinstance(base, tuple) and base[:1] == ("tuple",) and isinstance(idx, tuple) and idx[:1] == ("slice",):
            parts = [self._py(x) for x in idx[1:]]
            if all(ok_ for ok_, _ in parts):
                try:
                    return ("tuple",) + tuple(base[1:][slice(*[x for _, x in parts])])   # a slice of an exact sequence
                except (TypeError, ValueError):
                    return None
        if isinstance(base, tuple) and base[:1] == ("table",):
            ok, k = self._py(idx)
            ent = dict(base[1])
            if ok and k in ent:
                return ent[k]
        if isinstance(base, tuple) and base[:1] == ("kwdict",):
            ok, key = self._dkey(idx)
            if ok:
                for k, v in base[1]:
                    if k == key:
                        return v
        return None

    # Keys of an exact dict: a python constant stands for itself, a symbolic object (identity-like abstract
    # value) is kept as ("#", value).
    IDENTITY_TAGS = ("wobj", "new", "sym", "arg", "ret", "bound")

    @classmethod
    def _dkey(cls, v):
        if isinstance(v, tuple) and len(v) == 2 and v[0] == "const":
            return True, v[1]
        if v in (TRUE, FALSE, NONE):
            return True, {TRUE: True, FALSE: False, NONE: None}[v]
        if isinstance(v, tuple) and v[:1] == ("tuple",):
            ok_, p_ = cls._py(v)
            if ok_:
                return True, p_   # a tuple of constants is itself a constant key
        if isinstance(v, tuple) and v and v[0] in cls.IDENTITY_TAGS:
            return True, ("#", v)
        return False, None

    @staticmethod
    def _dkey_abs(k):
        if isinstance(k, tuple) and len(k) == 2 and k[0] == "#":
            return k[1]
        return EffectDomain._abs(k)

    def subscript_multi(self, base, idx, st, fr):
        """d[k] on an exact dict whose key is known to be absent raises KeyError (a Counter answers 0)."""
        if isinstance(base, tuple) and base[:1] == ("kwdict",):
            ok, key = self._dkey(idx)
            if ok and all(k != key for k, _ in base[1]):
                return [val(("const", 0), st)] if base[2:] == ("counter",) else [exc(("exc", "KeyError"), st)]
        return None

    def delete(self, interp, target, st, fr):
        """del d[k] on a local / self attribute holding an exact dict; del obj.attr on a wrapped object"""
        if isinstance(target, ast.Attribute) and getattr(self, "wobj_state", False):
            for r in interp.eval(target.value, st, fr):
                if r.kind == "val":
                    return self.delete_attr_on(r.value, target.attr, r.state)
        if not isinstance(target, ast.Subscript):
            return None
        key = interp._key_of(target.value, fr, st)
        cur = st.get(key, None) if key is not None else None
        if isinstance(cur, tuple) and cur[:1] == ("tuple",) and isinstance(target.slice, ast.Slice):
            sl = target.slice
            if sl.lower is None and sl.upper is None and sl.step is None:
                return st.set(key, ("tuple",))   # del x[:] empties the list, for every holder of it
            try:
                lo = ast.literal_eval(sl.lower) if sl.lower is not None else None
                hi = ast.literal_eval(sl.upper) if sl.upper is not None else None
                step = ast.literal_eval(sl.step) if sl.step is not None else None
            except (ValueError, TypeError, SyntaxError):
                return st.set(key, TOP)
            items = list(cur[1:])
            del items[slice(lo, hi, step)]
            return st.set(key, ("tuple",) + tuple(items))
        if not (isinstance(cur, tuple) and cur[:1] == ("kwdict",)):
            return None
        for r in interp.eval(target.slice, st, fr):
            if r.kind == "val":
                ok, k_ = self._dkey(r.value)
                if ok:
                    return r.state.set(key, ("kwdict", tuple((k, v) for k, v in cur[1] if k != k_)) + cur[2:])
                return r.state.set(key, TOP)
        return None

    def store_subscript(self, target, value, st, fr, interp):
        # kw["name"] = value on a local holding a keyword dict
        key = interp._key_of(target.value, fr, st)
        cur = st.get(key, None) if key is not None else None
        if isinstance(cur, tuple) and cur[:1] == ("kwdict",):
            for r in interp.eval(target.slice, st, fr):
                if r.kind != "val":
                    continue
                ok, k_ = self._dkey(r.value)
                if not ok:
                    return r.state.set(key, TOP)
                if any(k == k_ for k, _ in cur[1]):
                    items = tuple((k, value if k == k_ else v) for k, v in cur[1])   # a dict keeps the position of an existing key
                else:
                    items = cur[1] + ((k_, value),)
                s2 = r.state.set(key, ("kwdict", items) + cur[2:])
                if key in self.track_stores:
                    log = s2.get("ev.calls", ())
                    s2 = s2.set("ev.calls", log + (("store:" + key, (self._dkey_abs(k_), value), (), "ok"),))
                return s2
        return st

    def iter_exact(self, value):
        if isinstance(value, tuple) and value[:1] == ("set",) and len(value) == 2:
            els = self._set_elements(value)   # a set whose members are decided: iterated in one of its possible orders
            if els is not None:
                return list(els)
        if isinstance(value, tuple) and len(value) == 2 and value[0] == "iter" and isinstance(value[1], tuple) and value[1][:1] == ("tuple",):
            return list(value[1][1:])   # a one-shot iterator over a known sequence
        if isinstance(value, tuple) and value[:1] == ("kwitems",):
            return [("tuple", self._dkey_abs(k), v) for k, v in value[1]]
        if isinstance(value, tuple) and value[:1] == ("kwdict",):
            return [self._dkey_abs(k) for k, _ in value[1]]
        return None

    def _kwdict_method(self, interp, call, st, fr):
        """get / pop / setdefault / items / keys / values / copy on a local that holds a keyword dict."""
        f = call.func
        if not (isinstance(f, ast.Attribute) and isinstance(f.value, (ast.Name, ast.Attribute))):
            return None
        key = interp._key_of(f.value, fr, st)
        cur = st.get(key, None) if key is not None else None
        if cur is None and f.attr in ("get", "items", "keys", "values", "copy") and (
                (isinstance(f.value, ast.Name) and not st.has(fr.local(f.value.id))) or (isinstance(f.value, ast.Attribute) and (key is None or not st.has(key)))):
            # a table that is not a variable of this run (a module-level dict literal ...): it can be read
            got = interp.eval(f.value, st, fr)
            if len(got) == 1 and got[0].kind == "val" and isinstance(got[0].value, tuple) and got[0].value[:1] == ("kwdict",):
                table = got[0].value
                out = []
                for r in interp.eval_list(list(call.args), st, fr):
                    if r.kind == "exc":
                        out.append(r)
                        continue
                    a = r.value
                    if f.attr == "get":
                        ok_, name = self._dkey(a[0]) if a else (False, None)
                        out.append(val(dict(table[1]).get(name, a[1] if len(a) > 1 else NONE) if ok_ else TOP, r.state))
                    elif f.attr == "items":
                        out.append(val(("kwitems", table[1]), r.state))
                    elif f.attr == "keys":
                        out.append(val(("tuple",) + tuple(self._dkey_abs(k) for k, _ in table[1]), r.state))
                    elif f.attr == "values":
                        out.append(val(("tuple",) + tuple(v for _, v in table[1]), r.state))
                    else:
                        out.append(val(table, r.state))
                return out
        if not (isinstance(cur, tuple) and cur[:1] == ("kwdict",)) or f.attr not in ("get", "pop", "popitem", "clear", "setdefault", "items", "keys", "values", "copy", "update"):
            return None
        out = []
        if f.attr == "update" and call.keywords and all(k.arg is not None for k in call.keywords) and len(call.args) <= 1 and cur[2:] != ("counter",):
            # d.update([mapping], name=value, ...)
            for r in interp.eval_list(list(call.args) + [k.value for k in call.keywords], st, fr):
                if r.kind == "exc":
                    out.append(r)
                    continue
                cur = r.state.get(key)
                more = []
                if call.args:
                    if not (isinstance(r.value[0], tuple) and r.value[0][:1] == ("kwdict",)):
                        out.append(val(NONE, r.state.set(key, TOP)))
                        continue
                    more.extend(r.value[0][1])
                more.extend((k.arg, v) for k, v in zip(call.keywords, r.value[len(call.args):]))
                merged, order = dict(cur[1]), [k for k, _ in cur[1]]
                for k, v in more:
                    if k not in merged:
                        order.append(k)
                    merged[k] = v
                out.append(val(NONE, r.state.set(key, ("kwdict", tuple((k, merged[k]) for k in order)) + cur[2:])))
            return out
        for r in interp.eval_list(list(call.args), st, fr):
            if r.kind == "exc":
                out.append(r)
                continue
            cur = r.state.get(key)
            d_ = dict(cur[1])
            a = r.value
            name = self._dkey(a[0])[1] if a else None
            if f.attr == "items":
                out.append(val(("kwitems", cur[1]), r.state))
            elif f.attr == "clear":
                out.append(val(NONE, r.state.set(key, ("kwdict", ()) + cur[2:])))
            elif f.attr == "popitem":
                if cur[1]:
                    k_, v_ = cur[1][-1]
                    out.append(val(("tuple", self._dkey_abs(k_), v_), r.state.set(key, ("kwdict", cur[1][:-1]) + cur[2:])))
                else:
                    out.append(exc(("exc", "KeyError"), r.state))
            elif f.attr == "keys":
                out.append(val(("tuple",) + tuple(self._dkey_abs(k) for k, _ in cur[1]), r.state))
            elif f.attr == "values":
                out.append(val(("tuple",) + tuple(v for _, v in cur[1]), r.state))
            elif f.attr == "copy":
                out.append(val(cur, r.state))
            elif f.attr == "update" and len(a) == 1 and not call.keywords and cur[2:] == ("counter",):
                # Counter.update(iterable) counts the elements; Counter.update(mapping) adds the counts
                forced = interp._forced([val(a[0], r.state)], fr)
                for g in forced:
                    if g.kind == "exc":
                        out.append(g)
                        continue
                    counts = {k: (v[1] if isinstance(v, tuple) and v[:1] == ("const",) and isinstance(v[1], int) else None) for k, v in cur[1]}
                    order = [k for k, _ in cur[1]]
                    ok_ = None not in counts.values()
                    if isinstance(g.value, tuple) and g.value[:1] == ("kwdict",):
                        adds = [(k, v[1] if isinstance(v, tuple) and v[:1] == ("const",) and isinstance(v[1], int) else None) for k, v in g.value[1]]
                    else:
                        els = interp._exact_elements(g.value)
                        keys = [self._dkey(x) for x in els] if els is not None else None
                        adds = [(k, 1) for okk, k in keys] if keys is not None and all(okk for okk, _ in keys) else None
                    if not ok_ or adds is None or any(n_ is None for _, n_ in adds):
                        out.append(val(NONE, g.state.set(key, TOP)))
                        continue
                    for k, n_ in adds:
                        if k not in counts:
                            order.append(k)
                        counts[k] = counts.get(k, 0) + n_
                    out.append(val(NONE, g.state.set(key, ("kwdict", tuple((k, ("const", counts[k])) for k in order), "counter"))))
            elif f.attr == "update" and len(a) == 1 and not call.keywords and cur[2:] != ("counter",) and not (isinstance(a[0], tuple) and a[0][:1] == ("kwdict",)) \
                    and interp._exact_elements(a[0]) is not None and all(
                        interp._exact_elements(x) is not None and len(interp._exact_elements(x)) == 2 and self._dkey(interp._exact_elements(x)[0])[0] for x in interp._exact_elements(a[0])):
                merged, order = dict(cur[1]), [k for k, _ in cur[1]]
                for x in interp._exact_elements(a[0]):
                    k_, v_ = interp._exact_elements(x)
                    k_ = self._dkey(k_)[1]
                    if k_ not in merged:
                        order.append(k_)
                    merged[k_] = v_
                out.append(val(NONE, r.state.set(key, ("kwdict", tuple((k, merged[k]) for k in order)) + cur[2:])))
            elif f.attr == "update" and len(a) == 1 and not call.keywords and isinstance(a[0], tuple) and a[0][:1] == ("kwdict",):
                merged = dict(cur[1])
                order = [k for k, _ in cur[1]]
                for k, v in a[0][1]:
                    if k not in merged:
                        order.append(k)
                    merged[k] = v
                out.append(val(NONE, r.state.set(key, ("kwdict", tuple((k, merged[k]) for k in order)) + cur[2:])))
            elif name is None:
                out.append(val(TOP, r.state.set(key, TOP) if f.attr in ("pop", "setdefault", "update") else r.state))
            elif f.attr == "get":
                out.append(val(d_.get(name, a[1] if len(a) > 1 else NONE), r.state))
            elif f.attr == "pop":
                if name in d_:
                    out.append(val(d_[name], r.state.set(key, ("kwdict", tuple((k, v) for k, v in cur[1] if k != name)) + cur[2:])))
                elif len(a) > 1:
                    out.append(val(a[1], r.state))
                else:
                    out.append(exc(("exc", "KeyError"), r.state))
            elif f.attr == "setdefault":
                if name in d_:
                    out.append(val(d_[name], r.state))
                else:
                    v = a[1] if len(a) > 1 else NONE
                    out.append(val(v, r.state.set(key, ("kwdict", cur[1] + ((name, v),)) + cur[2:])))
            else:
                out.append(val(TOP, r.state.set(key, TOP)))
        return out

    # lazy sequences: map(fn, seq) does nothing until it is consumed
    generator_objects = False

    def _generator_object(self, yields, st):
        """What a call of a generator function evaluates to: the sequence of the values its body yields -- under
        ``generator_objects`` as an iterator with its own position, shared by whoever holds it."""
        if not self.generator_objects:
            return val(("tuple",) + tuple(yields), st)
        n = st.get("ev.iters", 0)
        return val(("seqiter", n), st.set("ev.iters", n + 1).set(f"it.{n}", ("tuple",) + tuple(yields)))

    def force_sequence(self, interp, value, st, fr):
        if isinstance(value, tuple) and value[:1] in (("genobj",), ("lazycomp",), ("iterobj",)) and getattr(self, "lazy_generators", False):
            return self.exhaust(interp, value, st, fr if fr is not None else self._holder_frame())
        if isinstance(value, tuple) and value[:1] == ("seqiter",) and len(value) == 2:
            rest = st.get(f"it.{value[1]}", None)
            if not (isinstance(rest, tuple) and rest[:1] == ("tuple",)):
                return [val(TOP, st)]
            return [val(rest, st.set(f"it.{value[1]}", ("tuple",)))]   # consumed to its end
        if not (isinstance(value, tuple) and value[:1] == ("lazymap",)):
            return None
        fn, seq = value[1], unbox(value[2], st)   # (a list kept on the heap: what it holds now)
        els = interp._exact_elements(seq)
        if els is None and isinstance(seq, tuple) and seq[:1] in (("genobj",), ("lazycomp",), ("iterobj",), ("seqiter",), ("lazymap",)):
            # map over something that is itself produced on demand: that is run to its end first
            inner = self.force_sequence(interp, seq, st, fr)
            if inner is not None:
                out = []
                for g in inner:
                    out.extend([g] if g.kind == "exc" else (self.force_sequence(interp, ("lazymap", fn, g.value), g.state, fr) or [val(TOP, g.state)]))
                return out
        if els is None:
            return [val(TOP, st)]
        cur = [(st, ())]
        out = []
        for elv in els:
            nxt = []
            for s_, acc in cur:
                for r in self._apply(interp, fn, elv, s_, fr):
                    if r.kind == "exc":
                        out.append(r)
                    else:
                        nxt.append((r.state, acc + (r.value,)))
            cur = nxt
        out.extend(val(("tuple",) + acc, s_) for s_, acc in cur)
        return out

    def _apply(self, interp, fn, arg, st, fr):
        """Call the abstract callable fn with one argument."""
        if isinstance(fn, tuple) and fn[:1] == ("methodcaller",) and isinstance(arg, tuple) and arg[:1] == ("wobj",):
            name = f"{arg[1]}.{fn[1]}"
            log = st.get("ev.calls", ())
            fn = fn[:2] + (tuple(unbox_deep(v, st) for v in fn[2]), tuple((k, unbox_deep(v, st)) for k, v in fn[3]))   # the arguments as they are at the time of the call
            outcomes = self.oracle(name, fn[2], fn[3]) if self.oracle is not None else None
            if outcomes is None:
                outcomes = [("val", v) for v in self.results.get(name, [("ret", arg[1], fn[1])])] + [("exc", e) for e in self.raises.get(name, [])]
            out = []
            for kind, v in outcomes:
                s2 = st.set("ev.calls", log + ((name, fn[2], fn[3], "ok" if kind == "val" else (v[1] if isinstance(v, tuple) and len(v) > 1 else "raised")),))
                out.append(val(v, s2) if kind == "val" else exc(v, s2))
            return out
        if isinstance(fn, tuple) and len(fn) == 2 and fn[0] == "func":
            params = [p.arg for p in fn[1].args.args]
            return interp.inline(fn[1], {params[0]: arg} if params else {}, st, fr, receiver=fr.receiver, is_method=False)
        return [val(TOP, st)]

    def load_attr_multi(self, chain, st, fr):
        """obj.attr read (not a call) on a wrapped object: logged when ``log_reads`` names the attribute."""
        if not self.log_reads or not all(isinstance(c, str) for c in chain) or len(chain) < 2:
            return None
        base = ".".join(chain[:-1])
        v = self.attrs.get(base)
        if v is None and len(chain) == 2:
            v = st.get(fr.local(chain[0]), None)
        if isinstance(v, tuple) and v[:1] == ("wobj",) and chain[-1] in self.log_reads:
            name = f"{v[1]}.{chain[-1]}"
            log = st.get("ev.calls", ())
            val_ = self.attrs.get(name, ("attr", v, ("const", chain[-1])))
            return [val(val_, st.set("ev.calls", log + ((name + ":read", (), (), "ok"),)))]
        return None

    def load_attr(self, chain, st, fr):
        if len(chain) >= 2 and all(isinstance(c, str) for c in chain):
            w = self._wobj_of(chain[:-1], st, fr)
            if w is not None and st.has(f"obj.{w[1]}.{chain[-1]}"):
                return st.get(f"obj.{w[1]}.{chain[-1]}")   # mutable attribute of a wrapped object, kept in the state
        if chain and chain[0] == "<yield>" and getattr(self, "collect_yields", True):
            # a generator's yields are collected in order (per frame depth); the yield expression evaluates to None
            key = f"gen.{fr.depth}"
            items = (chain[2],)
            if isinstance(chain[1], ast.YieldFrom):
                # yield from <exact sequence>: its elements, one by one
                if isinstance(chain[2], tuple) and chain[2][:1] in (("tuple",), ("lazyseq",)):
                    items = tuple(chain[2][1:])
                else:
                    items = (("*", chain[2]),)
            return [val(NONE, st.set(key, st.get(key, ()) + items))]
        if all(isinstance(c, str) for c in chain):
            d = ".".join(chain)
            if len(chain) == 2 and chain[1] in ("__traceback__", "__class__"):
                v_ = st.get(fr.local(chain[0]), None)
                if isinstance(v_, tuple) and v_[:1] == ("exc",):
                    return ("tbof", v_) if chain[1] == "__traceback__" else ("typeof", v_)
            if len(chain) >= 3 and fr.selfname and chain[0] == fr.selfname and st.has("self." + ".".join(chain[1:])):
                return st.get("self." + ".".join(chain[1:]))   # mutable state kept under a deeper path of self wins over the environment
            if d in self.attrs:
                return self.attrs[d]
            if len(chain) == 1 and not st.has(fr.local(chain[0])):
                got = self._module_constant(chain[0], fr)
                if got is None:
                    got = self._imported_constant(chain[0], fr)
                if got is not None:
                    return got
            # attribute of a local / attribute that holds a wrapped object
            if len(chain) >= 2:
                base = ".".join(chain[:-1])
                v = self.attrs.get(base)
                if v is None and len(chain) == 2:
                    v = st.get(fr.local(chain[0]), None)
                if v is None and len(chain) > 2:
                    # a.b.c on a local wrapped object: resolve attribute by attribute through the environment
                    v = st.get(fr.local(chain[0]), None) if st.has(fr.local(chain[0])) else self.attrs.get(chain[0])
                    for name_ in chain[1:-1]:
                        v = self.attrs.get(f"{v[1]}.{name_}") if isinstance(v, tuple) and v[:1] == ("wobj",) else None
                        if v is None:
                            break
                if isinstance(v, tuple) and v[:1] == ("wobj",):
                    a = self.attrs.get(f"{v[1]}.{chain[-1]}")
                    return a if a is not None else ("bound", v[1], chain[-1])
        return None

    NON_EXCEPTION = ("KeyboardInterrupt", "SystemExit", "GeneratorExit")

    invented_bases = {}   # exception class the model invents -> names of its base classes

    def _exc_isinstance(self, exc_name, type_names, fr):
        """Is an exception of the class called ``exc_name`` an instance of one of ``type_names``?  None = not decidable."""
        if exc_name in type_names or "BaseException" in type_names or "object" in type_names:
            return True
        if exc_name in self.invented_bases:
            # an exception class of the (scripted) user: a subclass of the classes the script says
            return any(self._exc_isinstance(b, type_names, fr) for b in self.invented_bases[exc_name])
        if "Exception" in type_names and exc_name not in self.NON_EXCEPTION:
            return True
        mod = getattr(fr.func, "_module", None)
        ci = self.classes.lookup(mod, exc_name) if mod is not None else None
        if ci is None:
            found = self.classes.find(exc_name) if hasattr(self.classes, "find") else None
            ci = found if found is not None and not isinstance(found, list) else (found[0] if found else None)
        if ci is not None:
            names = {c.name for c in self.classes.mro(ci)}
            for c in self.classes.mro(ci):
                for b in c.base_exprs:
                    names.add((dotted(b) or "").split(".")[-1])
            return bool(names & set(type_names))
        # an exception class this model invented (UserError ...): unrelated to every class named in the code
        return False

    def _imported_constant(self, name, fr):
        """`from .module import NAME` at the top of the frame's module, NAME being a constant / sentinel of that module of the repository."""
        mod = getattr(fr.func, "_module", None)
        tree = getattr(mod, "tree", None)
        repo = getattr(self.classes, "repo", None)
        if tree is None or repo is None:
            return None
        for s_ in tree.body:
            if not isinstance(s_, ast.ImportFrom):
                continue
            for al in s_.names:
                if (al.asname or al.name) != name:
                    continue
                base = mod.name.split(".")
                is_pkg = getattr(mod, "path", "").endswith("__init__.py")
                if s_.level:
                    base = base[: len(base) - s_.level + (1 if is_pkg else 0)]
                    target = ".".join(base + ([s_.module] if s_.module else []))
                else:
                    target = s_.module or ""
                src = repo.modules.get(target)
                if src is None or getattr(src, "tree", None) is None:
                    return None
                memo = _MODULE_CONSTANTS.setdefault(id(src.tree), (src.tree, {}))[1]
                if al.name not in memo:
                    memo[al.name] = EffectDomain._module_constant_uncached(al.name, src.tree)
                return memo[al.name]
        return None

    @staticmethod
    def _module_constant(name, fr):
        """A module-level name bound exactly once to a literal or to a fresh `object()` sentinel."""
        mod = getattr(fr.func, "_module", None)
        tree = getattr(mod, "tree", None)
        if tree is None:
            return None
        memo = _MODULE_CONSTANTS.setdefault(id(tree), (tree, {}))[1]
        if name not in memo:
            memo[name] = EffectDomain._module_constant_uncached(name, tree)
        return memo[name]

    @staticmethod
    def _module_constant_uncached(name, tree):
        found = None
        for n in ast.walk(tree):
            if isinstance(n, (ast.Assign, ast.AnnAssign, ast.AugAssign)):
                targets = n.targets if isinstance(n, ast.Assign) else [n.target]
                for t in targets:
                    for x in ast.walk(t):
                        if isinstance(x, ast.Name) and x.id == name:
                            if found is not None or getattr(n, "_func", None) is not None or isinstance(n, ast.AugAssign) or not isinstance(t, ast.Name):
                                return None
                            found = n
            elif isinstance(n, (ast.Global,)) and name in n.names:
                return None
        if found is None or found.value is None:
            return None
        v = found.value
        if isinstance(v, ast.Call) and dotted(v.func) == "object" and not v.args and not v.keywords:
            return ("sym", f"<module sentinel {name}>")
        if isinstance(v, ast.Constant) and not isinstance(v.value, (float, complex)) and v.value is not Ellipsis:
            return EffectDomain._abs(v.value)
        return None

    def _wobj_of(self, chain, st, fr):
        """The wrapped object an attribute chain of plain names denotes (through the environment and locals), or None."""
        if not chain or not all(isinstance(c, str) for c in chain):
            return None
        d = ".".join(chain)
        v = self.attrs.get(d)
        if v is None and st.has(fr.local(chain[0])):
            v = st.get(fr.local(chain[0]))
            rest = chain[1:]
        elif v is None:
            # the longest prefix the environment binds
            v, rest = None, None
            for i in range(len(chain) - 1, 0, -1):
                got = self.attrs.get(".".join(chain[:i]))
                if got is not None:
                    v, rest = got, chain[i:]
                    break
            if v is None:
                return None
        else:
            rest = []
        for name_ in rest:
            if not (isinstance(v, tuple) and v[:1] == ("wobj",)):
                return None
            nxt = st.get(f"obj.{v[1]}.{name_}", None) if st.has(f"obj.{v[1]}.{name_}") else self.attrs.get(f"{v[1]}.{name_}")
            v = nxt
        return v if isinstance(v, tuple) and v[:1] == ("wobj",) else None

    def key_of(self, interp, e, st, fr):
        """State key of `<wrapped object>.attr` when that object keeps the attribute in the abstract state (obj.<id>.<attr>),
        whatever alias the object is reached through."""
        if not isinstance(e, ast.Attribute):
            return None
        ch = attr_chain(e)
        if not ch or len(ch) < 2:
            return None
        w = self._wobj_of(ch[:-1], st, fr)
        if w is not None and st.has(f"obj.{w[1]}.{ch[-1]}"):
            return f"obj.{w[1]}.{ch[-1]}"
        return None

    def with_enter(self, interp, item, value, st, fr):
        if isinstance(value, tuple) and value[:1] == ("wobj",):
            log = st.get("ev.calls", ())
            where = f"ev.within.{item.context_expr.lineno}:{item.context_expr.col_offset}"
            # `with obj as x`: x is what obj.__enter__() returns -- the object itself where the domain says so
            got = value if getattr(self, "enter_returns_self", False) else NONE
            return [val(got, st.set("ev.calls", log + ((f"{value[1]}.__enter__", (), (), "ok"),)).set(where, value[1]))]
        return None

    def with_exit(self, interp, stmt, kind, payload, st, fr):
        for item in reversed(stmt.items):
            where = f"ev.within.{item.context_expr.lineno}:{item.context_expr.col_offset}"
            oid = st.get(where, None)
            if oid is not None:
                log = st.get("ev.calls", ())
                st = st.set("ev.calls", log + ((f"{oid}.__exit__", (), (), "ok"),)).set(where, None)
        return st

    def store_attr(self, key, value, st, fr):
        if key in self.track_stores:
            log = st.get("ev.calls", ())
            return st.set(key, value).set("ev.calls", log + (("store:" + key, (value,), (), "ok"),))
        parts = key.split(".")
        if len(parts) >= 3 and getattr(self, "wobj_state", False):
            # self.a.b = v where self.a is a wrapped object: the attribute belongs to that object (whatever alias reads it later)
            w = self._wobj_of(["self"] + parts[1:-1] if parts[0] == "self" else parts[:-1], st, fr)
            if w is not None:
                return st.set(f"obj.{w[1]}.{parts[-1]}", value)
        return None

    def delete_attr_on(self, base, attr, st):
        """delattr(base, attr) / del base.attr -> state, or None when ``base`` is not an object of the model."""
        if getattr(self, "wobj_state", False) and isinstance(base, tuple) and base[:1] == ("wobj",):
            return st.set(f"obj.{base[1]}.{attr}", DELETED)
        return None

    def store_attr_on(self, base, attr, value, st, fr):
        if getattr(self, "wobj_state", False) and isinstance(base, tuple) and base[:1] == ("wobj",):
            return st.set(f"obj.{base[1]}.{attr}", value)
        return None

    # -- symbolic wrapped objects -----------------------------------------------------------
    # ("wobj", id) stands for an object this code wraps (a decorated result, a target stream ...);
    # getattr(obj, "m") / obj.m is ("bound", id, "m"); calling it is logged as "<id>.m".
    def _bound_of(self, interp, func, st, fr):
        """("bound", id, name) when the callee expression denotes a method of a wrapped object."""
        if isinstance(func, ast.Name):
            v = st.get(fr.local(func.id), None)
            if v is None and not st.has(fr.local(func.id)):
                v = self.attrs.get(func.id)   # a module-level name the environment binds to a method of a wrapped object
            return v if isinstance(v, tuple) and v[:1] == ("bound",) else None
        if isinstance(func, ast.Attribute) and not any(isinstance(n, ast.Call) for n in ast.walk(func.value)):
            for r in interp.eval(func.value, st, fr):
                if r.kind == "val" and isinstance(r.value, tuple) and r.value[:1] == ("wobj",):
                    return ("bound", r.value[1], func.attr)
                if r.kind == "val" and isinstance(r.value, tuple) and r.value[:1] == ("new",):
                    return ("bound", r.value, func.attr)
            return None
        if isinstance(func, ast.Attribute) and isinstance(func.value, ast.Call) and (dotted(func.value.func) or "") in self.ctors:
            return ("ctor-call", func.value, func.attr)
        return None

    def _call_bound(self, interp, bound, call, st, fr):
        if bound[0] == "ctor-call":
            out = []
            for r in interp.eval(bound[1], st, fr):
                out.extend([r] if r.kind == "exc" else self._call_bound(interp, ("bound", r.value, bound[2]), call, r.state, fr))
            return out
        obj = bound[1]
        name = f"<{obj[1]}>.{bound[2]}" if isinstance(obj, tuple) else f"{obj}.{bound[2]}"
        if (bound[1], bound[2]) in self.lacks:
            return [exc(("exc", "AttributeError"), st)]
        out = []
        exprs = [a.value if isinstance(a, ast.Starred) else a for a in call.args] + [k.value for k in call.keywords]
        for r in interp.eval_list(exprs, st, fr):
            if r.kind == "exc":
                out.append(r)
                continue
            pos = []
            for a, v in zip(call.args, r.value[: len(call.args)]):
                if isinstance(a, ast.Starred) and isinstance(v, tuple) and v[:1] == ("tuple",):
                    pos.extend(v[1:])
                elif isinstance(a, ast.Starred):
                    pos.append(("*", v))
                else:
                    pos.append(v)
            kw = []
            for k, v in zip(call.keywords, r.value[len(call.args):]):
                if k.arg is None and isinstance(v, tuple) and v[:1] == ("kwdict",):
                    kw.extend(v[1])
                else:
                    kw.append((k.arg or "**", v))
            if isinstance(obj, tuple):
                pos = [obj] + pos
            log = r.state.get("ev.calls", ())

            def logged(tag):
                if len(log) >= self.log_cap:
                    return r.state.set("ev.calls.overflow", 1)
                return r.state.set("ev.calls", log + ((name, tuple(pos), tuple(kw), tag),))

            if self.oracle is None:
                outcomes = None
            elif getattr(self, "oracle_state", False):
                outcomes = self.oracle(name, tuple(pos), tuple(kw), r.state)   # the oracle may consult the history so far
            else:
                outcomes = self.oracle(name, tuple(pos), tuple(kw))
            if outcomes is None:
                outcomes = [("val", v) for v in self.results.get(name, self.results.get("*." + bound[2], [("ret", name if isinstance(obj, tuple) else obj, bound[2])]))]
                outcomes += [("exc", e) for e in self.raises.get(name, self.raises.get("*." + bound[2], []))]
            for oc in outcomes:
                kind, v = oc[0], oc[1]
                tag = oc[2] if len(oc) > 2 else None
                if kind == "val":
                    out.append(val(v, logged(tag or "ok")))
                else:
                    out.append(exc(v, logged(tag or (v[1] if isinstance(v, tuple) and len(v) > 1 else "raised"))))
        return out

    @staticmethod
    def _spread_kw(keywords, values):
        """Keyword arguments as (name, value) pairs; **d with an exact dict d spread into its items."""
        out = []
        for k, v in zip(keywords, values):
            if k.arg is None and isinstance(v, tuple) and v[:1] == ("kwdict",) and all(isinstance(n_, str) for n_, _ in v[1]):
                out.extend(v[1])
            else:
                out.append((k.arg or "**", v))
        return tuple(out)

    def _ctor_args(self, expr, fr, pos, kw):
        """Keyword arguments of a constructor call moved to their positions, when the class's own __init__ names them."""
        if not kw or any(k == "**" for k, _ in kw):
            return pos, kw
        mod = getattr(fr.func, "_module", None)
        try:
            ci = self.classes.resolve_expr(mod, expr) if mod is not None else None
            owner, f = self.classes.resolve_method(ci, "__init__") if ci is not None else (None, None)
        except Exception:
            ci, f = None, None
        skip = 1
        if not isinstance(f, FUNC_TYPES) and isinstance(expr, ast.Name) and mod is not None and hasattr(self.classes, "lookup_function"):
            f, skip = self.classes.lookup_function(mod, expr.id), 0   # a function of the repository standing in as a constructor of a symbolic value
        if not isinstance(f, FUNC_TYPES) or f.args.vararg is not None or f.args.posonlyargs:
            return pos, kw
        names = [a.arg for a in f.args.args[skip:]]
        given = dict(kw)
        out = list(pos)
        for n_ in names[len(pos):]:
            if n_ not in given:
                break
            out.append(given.pop(n_))
        return tuple(out), tuple((k, v) for k, v in kw if k in given)

    # -- calls --------------------------------------------------------------------------
    def call(self, interp, call, st, fr):
        d = dotted(call.func) or ""
        if d in ("getattr", "hasattr") and len(call.args) >= 2:
            out = []
            for r in interp.eval_list(list(call.args), st, fr):
                if r.kind == "exc":
                    out.append(r)
                    continue
                obj, name = r.value[0], r.value[1]
                if isinstance(obj, tuple) and obj[:1] == ("wobj",) and isinstance(name, tuple) and name[:1] == ("const",):
                    stored = r.state.get(f"obj.{obj[1]}.{name[1]}", None)   # set / deleted while the analysed code ran
                    missing = stored == DELETED or (stored is None and (obj[1], name[1]) in self.lacks)
                    if d == "hasattr":
                        out.append(val(FALSE if missing else TRUE, r.state))
                    elif not missing:
                        v = stored if stored is not None else self.attrs.get(f"{obj[1]}.{name[1]}")
                        out.append(val(v if v is not None else ("bound", obj[1], name[1]), r.state))
                    elif len(r.value) > 2:
                        out.append(val(r.value[2], r.state))
                    else:
                        out.append(exc(("exc", "AttributeError"), r.state))
                elif d == "getattr" and obj == ("self",) and isinstance(name, tuple) and name[:1] == ("const",) and (r.state.has("self." + str(name[1])) or ("self." + str(name[1])) in self.attrs):
                    key_ = "self." + str(name[1])
                    out.append(val(r.state.get(key_) if r.state.has(key_) else self.attrs[key_], r.state))
                elif d == "getattr" and isinstance(obj, tuple) and obj[:1] in (("arg",), ("new",), ("attr",)) and isinstance(name, tuple) and name[:1] in (("const",), ("arg",)):
                    out.append(val(("attr", obj, name), r.state))
                else:
                    out.append(val(("bool",) if d == "hasattr" else TOP, r.state))
            return out
        kwm = self._kwdict_method(interp, call, st, fr)
        if kwm is not None:
            return kwm
        fa = call.func
        if isinstance(fa, ast.Attribute) and fa.attr == "format" and isinstance(fa.value, ast.Constant) and isinstance(fa.value.value, str) \
                and all(k.arg is not None for k in call.keywords):
            # "...{}...".format(x): the same text as the f-string with x in that place
            import string
            try:
                fields = list(string.Formatter().parse(fa.value.value))
            except ValueError:
                fields = None
            simple = fields is not None and all(spec in ("", None) and conv is None for _, _, spec, conv in fields)
            if simple:
                out = []
                for r in interp.eval_list([a.value if isinstance(a, ast.Starred) else a for a in call.args] + [k.value for k in call.keywords], st, fr):
                    if r.kind == "exc":
                        out.append(r)
                        continue
                    pos_, spread = [], True
                    for a, v in zip(call.args, r.value[: len(call.args)]):
                        if isinstance(a, ast.Starred):
                            els = interp._exact_elements(v)
                            if els is None:
                                spread = False
                                break
                            pos_.extend(els)
                        else:
                            pos_.append(v)
                    if not spread:
                        out.append(val(NOTNONE, r.state))
                        continue
                    kw_ = {k.arg: v for k, v in zip(call.keywords, r.value[len(call.args):])}
                    parts, auto, ok_ = [], 0, True
                    for lit, name, _, _ in fields:
                        if lit:
                            parts.append(("const", lit))
                        if name is None:
                            continue
                        if name == "":
                            name, auto = str(auto), auto + 1
                        if name.isdigit() and int(name) < len(pos_):
                            parts.append(pos_[int(name)])
                        elif name in kw_:
                            parts.append(kw_[name])
                        else:
                            ok_ = False
                    out.append(val(self.joined_str(parts) if ok_ else NOTNONE, r.state))
                return out
        if isinstance(fa, ast.Attribute) and fa.attr in ("count", "index") and len(call.args) == 1 and not call.keywords and not any(isinstance(n_, ast.Call) for n_ in ast.walk(fa.value)):
            # (a, b, c).count(x) / .index(x) on a sequence of constants
            got = interp.eval_list([fa.value, call.args[0]], st, fr)
            pys_ = [[self._py(unbox_deep(v, r.state)) for v in r.value] if r.kind == "val" else None for r in got]
            if got and all(p_ is None or (p_[0][0] and isinstance(p_[0][1], tuple) and p_[1][0]) for p_ in pys_):
                out = []
                for r, p_ in zip(got, pys_):
                    if p_ is None:
                        out.append(r)
                        continue
                    try:
                        out.append(val(self._abs(getattr(p_[0][1], fa.attr)(p_[1][1])), r.state))
                    except ValueError:
                        out.append(exc(("exc", "ValueError"), r.state))
                return out
        if isinstance(fa, ast.Attribute) and fa.attr in self.PURE_STR_METHODS and not call.keywords and not any(isinstance(n_, ast.Call) for n_ in ast.walk(fa.value)):
            folded = []
            undecided = False
            evaluated = interp.eval_list([fa.value] + list(call.args), st, fr)
            if fa.attr == "join":
                evaluated = interp._forced_list(evaluated, fr)   # sep.join(<generator expression ...>) consumes it
            for r in evaluated:
                if r.kind == "exc":
                    folded.append(r)
                    continue
                pys = [self._py(v) for v in r.value]
                if all(ok for ok, _ in pys) and isinstance(pys[0][1], (str, bytes)):
                    try:
                        folded.append(val(self._abs(getattr(pys[0][1], fa.attr)(*[x for _, x in pys[1:]])), r.state))
                        continue
                    except Exception as e_:  # the concrete call raises: so does the code
                        if os.environ.get("TTSA_TRACE_EXC"):
                            print("FOLD-RAISES", fr.name, call.lineno, norm(call)[:80], pys, repr(e_))
                        folded.append(exc(("exc", type(e_).__name__), r.state))
                        continue
                if fa.attr == "join" and pys[0][0] and isinstance(pys[0][1], str) and len(r.value) == 2 and isinstance(r.value[1], tuple) and r.value[1][:1] == ("tuple",) \
                        and TOP not in r.value[1][1:]:
                    # sep.join(<exact sequence with symbolic pieces>): the concatenation, kept piecewise
                    parts = []
                    for i_, el in enumerate(r.value[1][1:]):
                        if i_ and pys[0][1]:
                            parts.append(("const", pys[0][1]))
                        if isinstance(el, tuple) and el[:1] == ("concat",):
                            parts.extend(el[1:])
                        else:
                            parts.append(el)
                    folded.append(val(("concat",) + tuple(parts), r.state))
                    continue
                undecided = True
            if not undecided:
                return folded
        if d == "len" and len(call.args) == 1:
            out = []
            known = True
            for r in interp.eval(call.args[0], st, fr):
                ok_, p_ = self._py(r.value) if r.kind == "val" else (False, None)
                if r.kind == "exc":
                    out.append(r)
                elif ok_ and isinstance(p_, (str, bytes, tuple)):
                    out.append(val(("const", len(p_)), r.state))
                elif isinstance(r.value, tuple) and r.value[:1] == ("tuple",):
                    out.append(val(("const", len(r.value) - 1), r.state))
                elif isinstance(r.value, tuple) and r.value[:1] in (("kwdict",), ("kwitems",)):
                    out.append(val(("const", len(r.value[1])), r.state))
                else:
                    known = False
            if known:
                return out
        if d == "enumerate" and 1 <= len(call.args) <= 2 and not call.keywords:
            out = []
            known = True
            for r in interp.eval_list(list(call.args), st, fr):
                if r.kind == "exc":
                    out.append(r)
                    continue
                els = interp._exact_elements(r.value[0])
                ok_, start = self._py(r.value[1]) if len(r.value) > 1 else (True, 0)
                if els is None or not ok_:
                    known = False
                    break
                out.append(val(("tuple",) + tuple(("tuple", ("const", start + i), e_) for i, e_ in enumerate(els)), r.state))
            if known:
                return out
        if d == "range" and 1 <= len(call.args) <= 3 and not call.keywords:
            out = []
            known = True
            for r in interp.eval_list(list(call.args), st, fr):
                if r.kind == "exc":
                    out.append(r)
                    continue
                pys = [self._py(v) for v in r.value]
                if all(ok_ and isinstance(p_, int) and not isinstance(p_, bool) for ok_, p_ in pys) and len(range(*[p_ for _, p_ in pys])) <= 8:
                    out.append(val(("tuple",) + tuple(("const", i) for i in range(*[p_ for _, p_ in pys])), r.state))
                else:
                    known = False
                    break
            if known:
                return out
        if d in ("set", "frozenset") and len(call.args) <= 1 and not call.keywords:
            if not call.args:
                return [val(("set", ("empty",)), st)]
            out_ = []
            for r in interp._forced(interp.eval(call.args[0], st, fr), fr):
                v_ = r.value
                if r.kind == "val" and isinstance(v_, tuple) and v_[:1] in (("kwdict",), ("kwitems",)):
                    v_ = ("tuple",) + tuple(self.iter_exact(v_))   # set(<a dict>): its keys
                out_.append(r if r.kind == "exc" else val(("set", ("copy", v_)), r.state))
            return out_
        f_ = call.func
        if isinstance(f_, ast.Attribute) and f_.attr in ("union", "difference", "intersection", "copy") and len(call.args) <= 1 and not call.keywords and isinstance(f_.value, ast.Call):
            # <a set made by a call>.union(other) ...: a new set, nothing is changed in place
            got = interp.eval_list([f_.value] + list(call.args), st, fr)
            if got and all(r.kind == "exc" or (isinstance(r.value[0], tuple) and r.value[0][:1] == ("set",)) for r in got):
                op = {"union": "union", "difference": "minus", "intersection": "meet"}.get(f_.attr)
                return [r if r.kind == "exc" else val(("set", ("copy", r.value[0])) if op is None else ("set", (op, r.value[0][1], r.value[1] if len(r.value) > 1 else ("empty",))), r.state) for r in got]
        if isinstance(f_, ast.Attribute) and isinstance(f_.value, (ast.Name, ast.Attribute)) and f_.attr in ("update", "difference_update", "add", "discard", "remove", "intersection_update", "copy", "union", "difference") and len(call.args) <= 1:
            key = interp._key_of(f_.value, fr, st)   # a local, or an attribute of self kept in the state
            cur = st.get(key, None) if key is not None else None
            if isinstance(cur, tuple) and cur[:1] == ("set",):
                out = []
                for r in interp.eval_list(list(call.args), st, fr):
                    if r.kind == "exc":
                        out.append(r)
                        continue
                    out.extend(self.set_method(key, f_.attr, r.value[0] if r.value else None, r.state))
                return out
        if d.split(".")[-1] == "methodcaller" and call.args:
            out = []
            pos = [a.value if isinstance(a, ast.Starred) else a for a in call.args]
            for r in interp.eval_list(pos + [k.value for k in call.keywords], st, fr):
                if r.kind == "exc":
                    out.append(r)
                    continue
                vals_ = []
                for a, v in zip(call.args, r.value[: len(pos)]):
                    if isinstance(a, ast.Starred) and isinstance(v, tuple) and v[:1] == ("tuple",):
                        vals_.extend(v[1:])
                    else:
                        vals_.append(v)
                kw = []
                for k, v in zip(call.keywords, r.value[len(pos):]):
                    if k.arg is None and isinstance(v, tuple) and v[:1] == ("kwdict",):
                        kw.extend(v[1])
                    else:
                        kw.append((k.arg or "**", v))
                name = vals_[0][1] if isinstance(vals_[0], tuple) and vals_[0][:1] == ("const",) else "?"
                out.append(val(("methodcaller", name, tuple(vals_[1:]), tuple(kw)), r.state))
            return out
        if d == "zip" and call.args and not call.keywords:
            out = []
            for r in interp.eval_list([a.value if isinstance(a, ast.Starred) else a for a in call.args], st, fr):
                if r.kind == "exc":
                    out.append(r)
                    continue
                seqs = []
                for a, v in zip(call.args, r.value):
                    if isinstance(a, ast.Starred) and isinstance(v, tuple) and v[:1] == ("tuple",):
                        seqs.extend(v[1:])
                    else:
                        seqs.append(v)
                els = [interp._exact_elements(x) for x in seqs]
                if any(e is None for e in els) or not els:
                    out.append(val(TOP, r.state))
                else:
                    out.append(val(("tuple",) + tuple(("tuple",) + t for t in zip(*els)), r.state))
            return out
        if isinstance(call.func, ast.Name) and st.has(fr.local(call.func.id)):
            fv = st.get(fr.local(call.func.id))
            if isinstance(fv, tuple) and fv[:1] == ("methodcaller",):
                out = []
                for r in interp.eval_list([a.value if isinstance(a, ast.Starred) else a for a in call.args], st, fr):
                    if r.kind == "exc":
                        out.append(r)
                        continue
                    vals_ = []
                    for a, v in zip(call.args, r.value):
                        if isinstance(a, ast.Starred) and isinstance(v, tuple) and v[:1] == ("tuple",):
                            vals_.extend(v[1:])
                        else:
                            vals_.append(v)
                    out.extend(self._apply(interp, fv, vals_[0] if vals_ else TOP, r.state, fr))
                return out
        if d == "map" and len(call.args) >= 2 and not call.keywords:
            out = []
            for r in interp.eval_list([a.value if isinstance(a, ast.Starred) else a for a in call.args], st, fr):
                if r.kind == "exc":
                    out.append(r)
                    continue
                vals_ = []
                for a, v in zip(call.args, r.value):
                    if isinstance(a, ast.Starred) and isinstance(v, tuple) and v[:1] == ("tuple",):
                        vals_.extend(v[1:])
                    else:
                        vals_.append(v)
                out.append(val(("lazymap", vals_[0], vals_[1]) if len(vals_) == 2 else TOP, r.state))
            return out
        if d in ("sum", "min", "max") and len(call.args) == 1 and not call.keywords and not st.has(fr.local(d)):
            out = []
            known = True
            for r in interp._forced(interp.eval(call.args[0], st, fr), fr):
                if r.kind == "exc":
                    out.append(r)
                    continue
                els = interp._exact_elements(unbox_deep(r.value, r.state))
                pys = [self._py(x) for x in els] if els is not None else None
                if pys is None or not all(ok for ok, _ in pys):
                    known = False
                    break
                try:
                    out.append(val(self._abs({"sum": sum, "min": min, "max": max}[d]([x for _, x in pys])), r.state))
                except (TypeError, ValueError) as e_:
                    out.append(exc(("exc", type(e_).__name__), r.state))
            if known and out:
                return out
        if d in ("bytes", "str", "int", "float", "bool", "tuple", "list") and not call.args and not call.keywords and not st.has(fr.local(d)):
            return [val(self._abs({"bytes": b"", "str": "", "int": 0, "float": 0.0, "bool": False}[d]) if d not in ("tuple", "list") else ("tuple",), st)]
        if d == "dict.fromkeys" and 1 <= len(call.args) <= 2 and not call.keywords:
            out = []
            for r in interp._forced_list(interp.eval_list(list(call.args), st, fr), fr) if hasattr(interp, "_forced_list") else interp.eval_list(list(call.args), st, fr):
                if r.kind == "exc":
                    out.append(r)
                    continue
                els = interp._exact_elements(r.value[0])
                keys = [self._dkey(x) for x in els] if els is not None else None
                if keys is None or not all(ok for ok, _ in keys):
                    out.append(val(TOP, r.state))
                    continue
                fill = r.value[1] if len(r.value) > 1 else NONE
                items = []
                for _, k_ in keys:
                    if all(k_ != k0 for k0, _ in items):
                        items.append((k_, fill))
                out.append(val(("kwdict", tuple(items)), r.state))
            return out
        if d == "dict" and len(call.args) == 1 and not isinstance(call.args[0], ast.Starred):
            # dict(mapping, **more) / dict(pairs, **more)
            out = []
            for r in interp.eval_list([call.args[0]] + [k.value for k in call.keywords], st, fr):
                if r.kind == "exc":
                    out.append(r)
                    continue
                base = r.value[0]
                items = None
                if isinstance(base, tuple) and base[:1] == ("kwdict",):
                    items = list(base[1])
                else:
                    els = interp._exact_elements(base)
                    pairs = [interp._exact_elements(x) for x in els] if els is not None else None
                    if pairs is not None and all(p_ is not None and len(p_) == 2 and self._dkey(p_[0])[0] for p_ in pairs):
                        items = []
                        for k_, v_ in ((self._dkey(p_[0])[1], p_[1]) for p_ in pairs):
                            items = [(k0, v0) for k0, v0 in items if k0 != k_] + [(k_, v_)]
                for k, v in zip(call.keywords, r.value[1:]):
                    if items is None:
                        break
                    if k.arg is None and isinstance(v, tuple) and v[:1] == ("kwdict",):
                        for k_, v_ in v[1]:
                            items = [(k0, v0) for k0, v0 in items if k0 != k_] + [(k_, v_)]
                    elif k.arg is None:
                        items = None
                    else:
                        items = [(k0, v0) for k0, v0 in items if k0 != k.arg] + [(k.arg, v)]
                out.append(val(("kwdict", tuple(items)) if items is not None else TOP, r.state))
            return out
        if d == "dict" and not call.args:
            out = []
            for r in interp.eval_list([k.value for k in call.keywords], st, fr):
                if r.kind == "exc":
                    out.append(r)
                    continue
                items = []
                for k, v in zip(call.keywords, r.value):
                    if k.arg is None and isinstance(v, tuple) and v[:1] == ("kwdict",):
                        items.extend(v[1])
                    elif k.arg is None:
                        items = None
                        break
                    else:
                        items.append((k.arg, v))
                out.append(val(("kwdict", tuple(items)) if items is not None else TOP, r.state))
            return out
        if d in self.ctors:
            out = []
            pos = [a.value if isinstance(a, ast.Starred) else a for a in call.args]
            for r in interp.eval_list(pos + [k.value for k in call.keywords], st, fr):
                if r.kind == "val" and any(isinstance(v, tuple) and v[:1] == ("lazymap",) for v in r.value):
                    # a constructor that is handed a map object consumes it: the mapped function runs now, element by element
                    forced = [val((), r.state)]
                    for v in r.value:
                        nxt = []
                        for acc in forced:
                            if acc.kind == "exc":
                                nxt.append(acc)
                                continue
                            got = self.force_sequence(interp, v, acc.state, fr) if isinstance(v, tuple) and v[:1] == ("lazymap",) else None
                            for g in (got if got is not None else [val(v, acc.state)]):
                                nxt.append(g if g.kind == "exc" else val(acc.value + (g.value,), g.state))
                        forced = nxt
                else:
                    forced = [r]
                for r in forced:
                    if r.kind == "exc":
                        out.append(r)
                        continue
                    cpos, ckw = self._ctor_args(call.func, fr, tuple(r.value[: len(pos)]), tuple((k.arg or "**", v) for k, v in zip(call.keywords, r.value[len(pos):])))
                    obj = ("new", d.split(".")[-1], cpos, ckw)
                    s2 = r.state
                    if getattr(self, "unique_ctors", False):
                        # every construction yields a distinct object: number the allocations
                        n_ = s2.get("ev.alloc", 0)
                        obj = obj + (n_,)
                        s2 = s2.set("ev.alloc", n_ + 1)
                    out.append(val(obj, s2))
            return out
        if d == "sys.exc_info" and not call.args and d not in self.results:
            # the exception being handled in this frame: (type, value, traceback) tied to that exception
            e_ = st.get("<handling>", None)
            if e_ is not None:
                return [val(exc_info_of(e_), st)]
        if d == "sys.exception" and not call.args and not call.keywords and d not in self.results:
            # (3.11) the exception being handled in this frame, or None
            return [val(st.get("<handling>", None) or NONE, st)]
        if d == "type" and len(call.args) == 1 and not call.keywords:
            out = []
            known = True
            for r in interp.eval(call.args[0], st, fr):
                if r.kind == "exc":
                    out.append(r)
                elif isinstance(r.value, tuple) and r.value[:1] == ("exc",):
                    out.append(val(("typeof", r.value), r.state))
                else:
                    known = False
            if known and out:
                return out
        if d == "issubclass" and len(call.args) == 2 and not call.keywords and not st.has(fr.local("issubclass")):
            # issubclass(type(e), C) / issubclass(exc_info[0], C): the class of an abstract exception against classes named in the test
            tnames = [(dotted(t) or "").split(".")[-1] for t in (call.args[1].elts if isinstance(call.args[1], ast.Tuple) else [call.args[1]])]
            if all(tnames) and not any(st.has(fr.local(n_)) for n_ in tnames):
                out, known = [], True
                for r in interp.eval(call.args[0], st, fr):
                    v = r.value
                    name = None
                    if r.kind == "exc":
                        out.append(r)
                        continue
                    if isinstance(v, tuple) and v[:1] == ("typeof",) and isinstance(self._as_exc(v[1]), tuple) and self._as_exc(v[1])[:1] == ("exc",):
                        name = self._as_exc(v[1])[1]
                    elif isinstance(v, tuple) and v[:1] == ("excclass",):
                        name = v[1]
                    elif isinstance(v, tuple) and v[:1] == ("classref",):
                        name = v[1].name
                    verdict = self._exc_isinstance(name, tnames, fr) if isinstance(name, str) else None
                    if verdict is None:
                        known = False
                    else:
                        out.append(val(TRUE if verdict else FALSE, r.state))
                if known and out:
                    return out
        if d == "isinstance" and len(call.args) == 2 and not call.keywords:
            # an abstract exception ("exc", ClassName): decided by name against exception classes named in the test
            tnames = [(dotted(t) or "").split(".")[-1] for t in (call.args[1].elts if isinstance(call.args[1], ast.Tuple) else [call.args[1]])]
            if os.environ.get("TTSA_TRACE_ISINSTANCE"):
                print("ISINSTANCE?", fr.name, norm(call)[:60], [(r.kind, str(r.value)[:80]) for r in interp.eval_list(list(call.args), st, fr)])
            if all(tnames) and any(st.has(fr.local(n_)) for n_ in tnames):
                # the class comes from a variable: exception classes travel as ("excclass", Name)
                got = [r for r in interp.eval(call.args[1], st, fr) if r.kind == "val"]
                vals_ = got[0].value if len(got) == 1 else None
                cand = list(vals_[1:]) if isinstance(vals_, tuple) and vals_[:1] == ("tuple",) else [vals_]
                tnames = [v[1].split(".")[-1] for v in cand] if all(isinstance(v, tuple) and (v[:1] in (("excclass",), ("ctorref",)) or v == ("builtin", "object")) for v in cand) else [None]
            if all(tnames):
                out = []
                known = True
                for r in interp.eval(call.args[0], st, fr):
                    if r.kind == "exc":
                        out.append(r)
                    elif isinstance(self._as_exc(r.value), tuple) and len(self._as_exc(r.value)) >= 2 and self._as_exc(r.value)[0] == "exc" and isinstance(self._as_exc(r.value)[1], str):
                        verdict = self._exc_isinstance(self._as_exc(r.value)[1], tnames, fr)
                        if os.environ.get("TTSA_TRACE_ISINSTANCE"):
                            print("ISINSTANCE", r.value, tnames, verdict)
                        if verdict is None:
                            known = False
                        else:
                            out.append(val(TRUE if verdict else FALSE, r.state))
                    else:
                        known = False
                if known and out:
                    return out
            types_ = {"str": str, "bytes": bytes, "int": int, "bool": bool, "float": float, "tuple": tuple, "list": tuple, "dict": dict}
            names_ = [dotted(t) for t in (call.args[1].elts if isinstance(call.args[1], ast.Tuple) else [call.args[1]])]
            if all(names_) and any(st.has(fr.local(n_)) for n_ in names_ if n_):
                # the types come from a variable (a row of a table of renderers ...): builtin types travel as ("builtin", name)
                got_t = [r for r in interp.eval(call.args[1], st, fr) if r.kind == "val"]
                tv = got_t[0].value if len(got_t) == 1 else None
                cand_t = list(tv[1:]) if isinstance(tv, tuple) and tv[:1] == ("tuple",) else [tv]
                if cand_t and all(isinstance(v, tuple) and v[:1] in (("builtin",), ("pytype",)) and isinstance(v[1], str) for v in cand_t):
                    names_ = [v[1] for v in cand_t]
                    if "object" in names_:
                        return [r if r.kind == "exc" else val(TRUE, r.state) for r in interp.eval(call.args[0], st, fr)]
            if all(n_ in types_ for n_ in names_):
                out = []
                known = True
                for r in interp.eval(call.args[0], st, fr):
                    ok_, p_ = self._py(r.value) if r.kind == "val" else (False, None)
                    if r.kind == "exc":
                        out.append(r)
                    elif ok_ and isinstance(p_, tuple) and not {"tuple", "list"} & set(names_):
                        out.append(val(FALSE, r.state))   # a list / tuple is an instance of neither str, bytes, int ...
                    elif r.kind == "val" and isinstance(r.value, tuple) and r.value[:1] in (("excclass",), ("classref",), ("inst",), ("func",), ("method",), ("boundmethod",), ("bound",), ("builtin",),
                                                                                              ("partial",), ("exc",), ("typeof",), ("pytype",), ("ctorref",)):
                        # a class, a function, an exception: not a str / number / tuple / dict; an instance of a repository class: by its bases
                        based = False
                        if r.value[:1] == ("inst",) and len(r.value) == 3 and hasattr(self.classes, "mro"):
                            bases = {(dotted(b) or "").split(".")[-1] for c in self.classes.mro(r.value[2]) for b in getattr(c, "base_exprs", ())}
                            based = bool(bases & (set(names_) | ({"list"} if "tuple" in names_ else set())))
                        out.append(val(TRUE if based else FALSE, r.state))
                    elif ok_ and p_ is not None and not isinstance(p_, tuple):
                        out.append(val(TRUE if any(isinstance(p_, types_[n_]) and not (types_[n_] is int and isinstance(p_, bool) and "bool" not in names_ and False) for n_ in names_) else FALSE, r.state))
                    else:
                        known = False
                if known and out:
                    return out
        if d == "bool" and len(call.args) == 1 and not call.keywords:
            out = []
            for r in interp.eval(call.args[0], st, fr):
                out.append(r if r.kind == "exc" else val({"T": TRUE, "F": FALSE}.get(self.truth(r.value), ("bool",)), r.state))
            return out
        if d in ("Counter", "collections.Counter") and not call.args and not call.keywords:
            return [val(("kwdict", (), "counter"), st)]
        if d in ("Counter", "collections.Counter") and len(call.args) == 1 and not call.keywords:
            out = []
            known = True
            for r in interp._forced(interp.eval(call.args[0], st, fr), fr):
                if r.kind == "exc":
                    out.append(r)
                    continue
                els = interp._exact_elements(r.value)
                keys = [self._dkey(x) for x in els] if els is not None else None
                if keys is None or not all(ok_ for ok_, _ in keys):
                    known = False
                    break
                counts = {}
                for _, k_ in keys:
                    counts[k_] = counts.get(k_, 0) + 1
                out.append(val(("kwdict", tuple((k_, ("const", n_)) for k_, n_ in counts.items()), "counter"), r.state))
            if known:
                return out
        if d == "iter" and len(call.args) == 1 and not call.keywords:
            out = []
            known = True
            for r in interp._forced(interp.eval(call.args[0], st, fr), fr):
                if r.kind == "exc":
                    out.append(r)
                elif isinstance(r.value, tuple) and r.value[:1] == ("tuple",):
                    out.append(val(("iter", r.value), r.state))
                elif isinstance(r.value, tuple) and r.value[:1] == ("iter",):
                    out.append(r)
                else:
                    known = False
            if known and out:
                return out
        if d == "next" and 1 <= len(call.args) <= 2 and not call.keywords:
            out = []
            known = True
            for r in interp.eval_list(list(call.args), st, fr):
                if r.kind == "exc":
                    out.append(r)
                    continue
                els = interp._exact_elements(r.value[0])
                if els is None:
                    known = False
                    break
                if els:
                    out.append(val(els[0], r.state))
                elif len(r.value) > 1:
                    out.append(val(r.value[1], r.state))
                else:
                    out.append(exc(("exc", "StopIteration"), r.state))
            if known:
                return out
        f_sort = call.func
        if isinstance(f_sort, ast.Attribute) and f_sort.attr == "sort" and not call.args and not call.keywords and isinstance(f_sort.value, (ast.Name, ast.Attribute)):
            key = interp._key_of(f_sort.value, fr, st)
            cur = st.get(key, None) if key is not None else None
            if isinstance(cur, tuple) and cur[:1] == ("tuple",):
                got = self._sort_elements(cur[1:])
                if got is not None:
                    return [exc(got[1], st)] if got[0] == "exc" else [val(NONE, st.set(key, ("tuple",) + got[1]))]
        if d == "sorted" and len(call.args) == 1 and not call.keywords:
            out = []
            known = True
            for r in interp._forced(interp.eval(call.args[0], st, fr), fr):
                if r.kind == "exc":
                    out.append(r)
                    continue
                els = interp._exact_elements(r.value)
                got = self._sort_elements(tuple(els)) if els is not None else None
                if got is None:
                    known = False
                    break
                out.append(exc(got[1], r.state) if got[0] == "exc" else val(("tuple",) + got[1], r.state))
            if known:
                return out
        if d in ("sorted", "reversed") and len(call.args) == 1 and not call.keywords:
            out = []
            for r in interp.eval(call.args[0], st, fr):
                if r.kind == "exc":
                    out.append(r)
                elif isinstance(r.value, tuple) and r.value[:1] in (("tuple",), ("lazyseq",)):
                    els = r.value[1:]
                    if d == "sorted" and all(self._py(x)[0] for x in els):
                        try:
                            els = tuple(self._abs(v) for v in sorted(self._py(x)[1] for x in els))
                        except TypeError:
                            pass
                    out.append(val(("tuple",) + (tuple(reversed(els)) if d == "reversed" else tuple(els)), r.state))
                else:
                    out.append(val(TOP, r.state))
            return out
        if isinstance(call.func, ast.Subscript):
            # table[key](args): a dispatch through a table of callables
            out = []
            exprs = [call.func.slice] + [a.value if isinstance(a, ast.Starred) else a for a in call.args] + [k.value for k in call.keywords]
            for r in interp.eval_list(exprs, st, fr):
                if r.kind == "exc":
                    out.append(r)
                    continue
                log = r.state.get("ev.calls", ())
                entry = ("dispatch:" + (dotted(call.func.value) or "?"), (r.value[0],) + tuple(r.value[1: 1 + len(call.args)]), (), "ok")
                out.append(val(TOP, r.state.set("ev.calls", log + (entry,))))
            return out
        if isinstance(call.func, ast.Call):
            out = []
            for r in interp.eval(call.func, st, fr):
                if r.kind == "exc":
                    out.append(r)
                elif isinstance(r.value, tuple) and r.value[:1] == ("bound",):
                    out.extend(self._call_bound(interp, r.value, call, r.state, fr))
                else:
                    for r2 in interp.eval_list([a.value if isinstance(a, ast.Starred) else a for a in call.args] + [k.value for k in call.keywords], r.state, fr):
                        out.append(r2 if r2.kind == "exc" else val(TOP, r2.state))
            return out
        bound = self._bound_of(interp, call.func, st, fr)
        if bound is not None:
            return self._call_bound(interp, bound, call, st, fr)
        if isinstance(call.func, ast.Attribute) and any(isinstance(n_, ast.Call) for n_ in ast.walk(call.func.value)) and not d.startswith("super()"):
            # <expression with calls>.m(...): the receiver is evaluated (once, for its effects too), then the method is called on it
            out = []
            for r in interp.eval(call.func.value, st, fr):
                special = self.call_on_value(interp, r.value, call, r.state, fr) if r.kind == "val" else None
                if special is not None:
                    out.extend(special)
                elif r.kind == "exc":
                    out.append(r)
                elif isinstance(r.value, tuple) and r.value[:1] in (("wobj",), ("new",)):
                    out.extend(self._call_bound(interp, ("bound", r.value[1] if r.value[0] == "wobj" else r.value, call.func.attr), call, r.state, fr))
                elif r.value == NONE:
                    out.append(exc(("exc", "AttributeError"), r.state))
                else:
                    okr_, pr_ = self._py(r.value)
                    for r2 in interp.eval_list([a.value if isinstance(a, ast.Starred) else a for a in call.args] + [k.value for k in call.keywords], r.state, fr):
                        if r2.kind == "exc":
                            out.append(r2)
                            continue
                        pys = [self._py(v) for v in r2.value]
                        if okr_ and isinstance(pr_, (str, bytes)) and call.func.attr in self.PURE_STR_METHODS and not call.keywords and all(ok_ for ok_, _ in pys):
                            # a pure string method on a constant produced by another call: fold it
                            try:
                                out.append(val(self._abs(getattr(pr_, call.func.attr)(*[x for _, x in pys])), r2.state))
                            except Exception as e_:
                                out.append(exc(("exc", type(e_).__name__), r2.state))
                        else:
                            out.append(val(TOP, r2.state))
            return out
        if isinstance(call.func, ast.Attribute) and isinstance(call.func.value, ast.Name) and st.get(fr.local(call.func.value.id), None) == NONE:
            return [exc(("exc", "AttributeError"), st)]   # None.<method>(...)
        if isinstance(call.func, ast.Attribute) and isinstance(call.func.value, ast.Attribute) and attr_chain(call.func.value) and fr.selfname and attr_chain(call.func.value)[0] == fr.selfname \
                and len(attr_chain(call.func.value)) == 2 and st.get(fr.self_key + "." + call.func.value.attr, None) == NONE:
            return [exc(("exc", "AttributeError"), st)]   # self.x.<method>(...) with self.x None
        if self.track(d) or d in self.results or d in self.raises:
            out = []
            pos = [a.value if isinstance(a, ast.Starred) else a for a in call.args]
            kws = [k for k in call.keywords]
            for r in interp.eval_list(pos + [k.value for k in kws], st, fr):
                if r.kind == "exc":
                    out.append(r)
                    continue
                def logged(tag, r=r):
                    s2 = r.state
                    if self.track(d):
                        entry = (d, tuple(r.value[: len(pos)]), self._spread_kw(kws, r.value[len(pos):]), tag)
                        log = s2.get("ev.calls", ())
                        s2 = s2.set("ev.calls", log + (entry,)) if len(log) < self.log_cap else s2.set("ev.calls.overflow", 1)
                    return s2
                answered = None
                if self.oracle is not None and d not in self.results and d not in self.raises:
                    args_ = (d, list(r.value[: len(pos)]), list(self._spread_kw(kws, r.value[len(pos):])))
                    answered = self.oracle(*args_, r.state) if getattr(self, "oracle_state", False) else self.oracle(*args_)
                if answered is not None:
                    for kind_, v in answered:
                        out.append(val(v, logged("ok")) if kind_ == "val" else exc(v, logged(v[1] if isinstance(v, tuple) and len(v) > 1 and isinstance(v[1], str) else "raised")))
                    continue
                for v in self.results.get(d, [TOP]):
                    out.append(val(v, logged("ok")))
                for e in self.raises.get(d, []):
                    out.append(exc(e, logged(e[1] if isinstance(e, tuple) and len(e) > 1 and isinstance(e[1], str) else "raised")))
            return out
        if self.inline:
            callee = interp.resolve_callee(call, st, fr, self.classes)
            if callee is not None and is_generator(callee[0]) and getattr(self, "collect_yields", True):
                if getattr(self, "lazy_generators", False) and self.lazy_eligible(callee[0]):
                    # a generator object: the body runs step by step, as its elements are asked for
                    interp.lazy_request, interp.lazy_made = callee[0], False
                    try:
                        made = interp.auto_inline(call, st, fr, self.classes)
                    finally:
                        interp.lazy_request = None
                    if interp.lazy_made and made is not None:
                        return made
                # calling a generator function: its body runs now (eagerly) and the call evaluates to the sequence of its yields
                key = f"gen.{fr.depth + 1}"
                out = []
                for r in interp.auto_inline(call, st.set(key, ()), fr, self.classes):
                    ys = r.state.get(key, ())
                    s2 = r.state.set(key, st.get(key, ())) if st.has(key) else State(frozenset((k, v) for k, v in r.state.items if k != key), r.state.log)
                    out.append(exc(r.value, s2) if r.kind == "exc" else self._generator_object(ys, s2))
                return out
            hit = interp.auto_inline(call, st, fr, self.classes)
            if hit is not None:
                return hit
        out = []
        for r in interp.eval_list([a.value if isinstance(a, ast.Starred) else a for a in call.args] + [k.value for k in call.keywords], st, fr):
            out.append(r if r.kind == "exc" else val(TOP, r.state))
        return out

    def call_tracked_values(self, d, pos, kw, st):
        """A function of the environment (tracked / answered by the oracle) called through a value: logged and answered
        like a call by name."""
        pos, kw = tuple(unbox_deep(v, st) for v in pos), tuple((k, unbox_deep(v, st)) for k, v in kw)

        def logged(tag):
            if not self.track(d):
                return st
            log = st.get("ev.calls", ())
            return st.set("ev.calls", log + ((d, pos, kw, tag),)) if len(log) < self.log_cap else st.set("ev.calls.overflow", 1)
        answered = None
        if self.oracle is not None and d not in self.results and d not in self.raises:
            answered = self.oracle(d, list(pos), list(kw), st) if getattr(self, "oracle_state", False) else self.oracle(d, list(pos), list(kw))
        if answered is not None:
            return [val(o[1], logged("ok")) if o[0] == "val" else exc(o[1], logged(o[1][1] if isinstance(o[1], tuple) and len(o[1]) > 1 and isinstance(o[1][1], str) else "raised")) for o in answered]
        out = [val(v, logged("ok")) for v in self.results.get(d, [TOP])]
        out += [exc(e, logged(e[1] if isinstance(e, tuple) and len(e) > 1 and isinstance(e[1], str) else "raised")) for e in self.raises.get(d, [])]
        return out

    def call_on_value(self, interp, receiver, call, st, fr):
        """<expression with calls>.m(...) whose receiver evaluated to ``receiver``: subclasses with richer objects answer here."""
        return None

    @staticmethod
    def _as_exc(value):
        """An instance (made during the run) of an exception class of the repository, seen as the exception it is."""
        if isinstance(value, tuple) and len(value) == 3 and value[0] == "inst" and hasattr(value[2], "name"):
            return ("exc", value[2].name)
        return value

    def match(self, handler_type, excvalue, st):
        if handler_type is None:
            return "yes"
        names = [norm(t).split(".")[-1] for t in (handler_type.elts if isinstance(handler_type, ast.Tuple) else [handler_type])]
        if "BaseException" in names:
            return "yes"
        if isinstance(excvalue, tuple) and len(excvalue) == 3 and excvalue[0] == "inst" and hasattr(excvalue[2], "name"):
            # an instance of an exception class of the repository: matched through that class's bases
            ci = excvalue[2]
            bases = {c.name for c in self.classes.mro(ci)} | {(dotted(b) or "").split(".")[-1] for c in self.classes.mro(ci) for b in c.base_exprs}
            if bases & set(names) or ("Exception" in names and not bases & set(self.NON_EXCEPTION)):
                return "yes"
            return "no"
        if isinstance(excvalue, tuple) and len(excvalue) >= 2 and excvalue[0] == "exc":
            if excvalue[1] in names or ("Exception" in names and excvalue[1] not in ("KeyboardInterrupt", "SystemExit", "GeneratorExit")):
                return "yes"
            return "no"
        return "maybe"

    def raised_value(self, stmt, value, st, fr):
        if isinstance(value, tuple):
            return value
        if stmt.exc is not None:
            name = norm(stmt.exc.func if isinstance(stmt.exc, ast.Call) else stmt.exc).split(".")[-1]
            return ("exc", name)
        return ("exc", "?")


_IS_GEN = {}
_MODULE_CONSTANTS = {}


def is_generator(func):
    got = _IS_GEN.get(id(func))
    if got is None:
        found = False
        if isinstance(func, FUNC_TYPES):
            stack = list(func.body)
            while stack:
                n = stack.pop()
                if isinstance(n, FUNC_TYPES + (ast.Lambda, ast.ClassDef)):
                    continue
                if isinstance(n, (ast.Yield, ast.YieldFrom)):
                    found = True
                    break
                stack.extend(ast.iter_child_nodes(n))
        got = _IS_GEN[id(func)] = (func, found)
    return got[1]


def exc_info_of(e):
    """What sys.exc_info() returns while the abstract exception ``e`` is being handled."""
    if isinstance(e, tuple) and len(e) == 3 and e[0] == "inst" and hasattr(e[2], "name"):
        return ("tuple", ("excclass", e[2].name), e, ("tbof", e))   # an instance of an exception class of the repository: its class is that class
    return ("tuple", ("typeof", e), e, ("tbof", e))


def run(ctx, dom, func, receiver, argvals=None, state=None, depth=5):
    dom.root_class = receiver   # the class of the analysed object (`self` of the entry function)
    it = Interp(dom, max_depth=depth)
    res = it.analyze(func, argvals or {}, state if state is not None else State(), receiver=receiver, name=getattr(func, "name", "?"))
    ctx.stats["states"] += it.steps
    for fn in it.functions:
        ctx.analysed(fn)
    return res


def calls(result, name=None):
    log = result.state.get("ev.calls", ())
    return [e for e in log if name is None or e[0] == name]
