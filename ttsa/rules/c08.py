"""C08 -- result adapters deliver each call once, at the richest protocol the target has."""

import ast

from ..absint import NONE
from ..astutil import walk_shallow
from ..loader import AnalysisError
from . import resultmodel as rm
from .common import REAL, TESTCASE

EXPLANATION = (
    "Client programs of the adapters, given as source and run as written (ttsa.rules.resultmodel): ExtendedToOriginalDecorator, "
    "TestResultDecorator, Tagger, MultiTestResult and TestByTestResult are built over symbolic target results of three flavours -- "
    "2.6-style (no addSkip / addExpectedFailure / addUnexpectedSuccess, no details= keyword), 2.7-style (all outcomes, no details=) and "
    "extended (details= accepted); a target that does not take details= answers the attempt with TypeError -- and a history is "
    "reported; the rules read what each target received, in order, with its arguments. R-FORWARD-ONCE: through TestResultDecorator, "
    "Tagger, MultiTestResult (both targets) and two-level stacks every startTestRun / tags / time / startTest / outcome / stopTest / "
    "stopTestRun / stop reaches each target exactly once, in order, with the arguments given (Tagger: its tags right after "
    "startTest). R-ETOD-FALLBACK / R-DEGRADE-TABLE: for each flavour, each of the six outcomes and both ways of giving it (exc_info / "
    "reason, or details) the target accepts exactly one delivery, of the method the documented degradation table names (skip and "
    "expected failure become success on 2.6, unexpected success becomes failure), with the test first and -- where details had to "
    "be converted -- an exc_info triple / a reason made from them; a failing outcome never arrives as a passing one. "
    "R-PRESENCE-BY-NULLNESS: an empty details dict counts as details given (no ValueError, delivered as details) through "
    "ExtendedToOriginalDecorator and TestByTestResult. R-TBT-CALLBACK: TestByTestResult calls its callback exactly once per "
    "test, at stopTest, with the test, the status word of its outcome, the times reported before startTest / before stopTest, "
    "the tags current in the test and the details. R-TEST-PROTOCOL (class table): every attribute the adapters read on a reported "
    "test exists on TestCase and on PlaceHolder."
)

OUTCOMES = list(rm.OUTCOMES)
TBT_STATUS = {"addSuccess": "success", "addFailure": "failure", "addError": "error", "addSkip": "skip", "addExpectedFailure": "xfail", "addUnexpectedSuccess": "success"}
FLAVOURS = {
    "2.6-style": {"lacks": ("addSkip", "addExpectedFailure", "addUnexpectedSuccess", "startTestRun", "stopTestRun", "tags", "time", "failfast", "current_tags", "done", "progress"), "details": False},
    "2.7-style": {"lacks": ("tags", "time", "current_tags", "done", "progress"), "details": False},
    "extended": {"lacks": (), "details": True},
}
DEGRADE = {
    "2.6-style": {"addSkip": "addSuccess", "addExpectedFailure": "addSuccess", "addUnexpectedSuccess": "addFailure"},
    "2.7-style": {}, "extended": {},
}
DETAILS = ("new", "Content", (("sym", "a content type"), ("sym", "a byte source")))
TRACEBACK_DETAIL = ("new", "Content", (("sym", "a text content type"), ("sym", "byte source of the traceback")))
D = ("kwdict", (("traceback", TRACEBACK_DETAIL), ("note", DETAILS)))
T0, T1 = ("sym", "time before the test"), ("sym", "time at the end of the test")


def _scenario(ctx, flavour, names=("plain",), **kw):
    f = FLAVOURS[flavour]
    lacks = {(n, a) for n in names for a in f["lacks"]}

    def oracle(n, pos, kw_):
        who, _, method = n.partition(".")
        if who in names and method in OUTCOMES and not f["details"] and any(k == "details" for k, _v in kw_):
            return [("exc", ("exc", "TypeError"))]   # the target does not know the details= keyword
        if n == "test.fail":
            return [("exc", ("exc", "AssertionError", "test.fail"))]
        if n == "test.id":
            return [("val", ("const", "a.test.id"))]
        return None
    attrs = {"self": ("self",), "test.failureException": ("excclass", "AssertionError")}
    from ..absint import FALSE
    for n_ in names:
        for flag in ("failfast", "shouldStop"):
            if flag not in f["lacks"]:
                attrs[f"{n_}.{flag}"] = FALSE   # (plain data attributes of the target: it is not in failfast mode)
    return rm.Scenario(ctx, accepting=tuple(names) + ("test", "semaphore", "callback"), lacks=lacks, oracle=oracle, attrs=attrs,
                       ctors={"TracebackContent", "text_content", "Content", "_StringException", "_details_to_str"}, **kw)


def _received(r, who="plain"):
    """Calls the target accepted: [(method, positional, keywords)] (attempts answered with TypeError are not deliveries)."""
    return [(n.split(".", 1)[1], pos, dict(kw)) for n, pos, kw, tag in r.state.get("ev.calls", ()) if n.startswith(who + ".") and tag == "ok"]


def _attempts(r, who="plain"):
    return [(n.split(".", 1)[1], tag) for n, pos, kw, tag in r.state.get("ev.calls", ()) if n.startswith(who + ".")]


def _call(oc, form):
    if form == "details":
        return f"r.{oc}(test, details=details)"
    return rm.outcome_call(oc)


def check_etod(ctx, anchor):
    Q = f"{REAL}:ExtendedToOriginalDecorator"
    for flavour in FLAVOURS:
        for oc in OUTCOMES:
            for form in ("plain", "details"):
                sc = _scenario(ctx, flavour)
                res = sc.run(f"def scenario(test, err, details, plain):\n    r = ExtendedToOriginalDecorator(plain)\n    r.startTest(test)\n    {_call(oc, form)}\n    r.stopTest(test)\n    return None\n",
                             test=rm.TEST, err=rm.ERR, details=D, plain=("wobj", "plain"))
                want = DEGRADE[flavour].get(oc, oc)
                fallback, table = set(), set()
                for r in res:
                    if r.kind != "val":
                        fallback.add(f"the call raises {r.value!r}")
                        continue
                    got = [(m, pos, kw) for m, pos, kw in _received(r) if m in OUTCOMES]
                    if len(got) != 1:
                        fallback.add(f"the target accepts {len(got)} deliveries ({[m for m, _, _ in got]}; attempts {[a for a in _attempts(r) if a[0] in OUTCOMES]}); expected exactly one")
                        continue
                    m, pos, kw = got[0]
                    if m != want:
                        table.add(f"the target receives {m}; the documented delivery is {want}")
                    if (oc in rm.FAILING) and m not in rm.FAILING:
                        table.add(f"the failing outcome {oc} arrives as the passing {m}")
                    if not pos or pos[0] != rm.TEST:
                        fallback.add(f"{m} is not given the test first ({pos!r})")
                    if form == "details" and FLAVOURS[flavour]["details"] and m == oc and kw.get("details") != D:
                        fallback.add(f"the details do not reach a target that takes them ({m}{pos!r} {kw!r})")
                    if form == "details" and not FLAVOURS[flavour]["details"] and m == oc and oc in ("addError", "addFailure", "addExpectedFailure"):
                        if len(pos) != 2 or not (isinstance(pos[1], tuple) and pos[1][:1] == ("tuple",) and len(pos[1]) == 4):
                            fallback.add(f"{m} falls back to {pos[1:]!r}; expected an exc_info triple made from the details")
                        elif "a byte source" not in repr(pos[1]) or "byte source of the traceback" not in repr(pos[1]):
                            fallback.add(f"the synthetic exception {m} falls back to is not made from all the details (a traceback and a note were given): {pos[1]!r}"[:400])
                    if form == "details" and not FLAVOURS[flavour]["details"] and m == oc == "addSkip" and (len(pos) != 2 or pos[1] in (NONE, None)):
                        fallback.add(f"addSkip falls back to {pos[1:]!r}; expected a reason made from the details")
                    if form == "plain" and m == oc and oc in ("addError", "addFailure", "addExpectedFailure") and tuple(pos[1:]) != (rm.ERR,):
                        fallback.add(f"{m} is given {pos[1:]!r}; expected the exc_info it was called with")
                    if form == "plain" and m == oc == "addSkip" and tuple(pos[1:]) != (("const", "a reason"),):
                        fallback.add(f"addSkip is given {pos[1:]!r}; expected the reason it was called with")
                label = f"{oc} given as {'details' if form == 'details' else 'exc_info / reason'} to a {flavour} result"
                ctx.check("R-ETOD-FALLBACK", f"[{label}] exactly one accepted delivery, with the test and the (converted) argument", anchor, bool(res) and not fallback,
                          "; ".join(sorted(fallback))[:800] or "the scenario was not followed to its end", examined=len(res), construct=f"{Q}.{oc}::{form} to {flavour}")
                ctx.check("R-DEGRADE-TABLE", f"[{label}] the target receives {want}", anchor, bool(res) and not table, "; ".join(sorted(table)) or "the scenario was not followed to its end",
                          examined=len(res), construct=f"{Q}.{oc}::table {form} to {flavour}")
    ctx.floor("R-ETOD-FALLBACK", 30, "(flavour, outcome, form) triples")


def check_forwarders(ctx, anchor):
    WRAP = {"TestResultDecorator": "TestResultDecorator({0})", "Tagger": "Tagger({0}, {{'new-tag'}}, {{'gone-tag'}})", "ExtendedToOriginalDecorator": "ExtendedToOriginalDecorator({0})"}
    stacks = {
        "TestResultDecorator": ("r = TestResultDecorator(plain)", ("plain",), 0),
        "Tagger": ("r = Tagger(plain, {'new-tag'}, {'gone-tag'})", ("plain",), 1),
        "MultiTestResult": ("r = MultiTestResult(plain, plain2)", ("plain", "plain2"), 0),
    }
    # every wrapper over every wrapper (two levels): a call must survive each way the classes name their parameters
    kinds = ("TestResultDecorator", "Tagger", "MultiTestResult", "ExtendedToOriginalDecorator")
    for outer in kinds:
        for inner in kinds:
            if outer == "MultiTestResult":
                expr = "MultiTestResult(plain, plain2)" if inner == "MultiTestResult" else f"MultiTestResult({WRAP[inner].format('plain')}, {WRAP[inner].format('plain2')})"
                if inner == "MultiTestResult":
                    expr = "MultiTestResult(MultiTestResult(plain), MultiTestResult(plain2))"
                targets = ("plain", "plain2")
            elif inner == "MultiTestResult":
                expr, targets = WRAP[outer].format("MultiTestResult(plain, plain2)"), ("plain", "plain2")
            else:
                expr, targets = WRAP[outer].format(WRAP[inner].format("plain")), ("plain",)
            if outer == inner == "ExtendedToOriginalDecorator":
                continue
            stacks[f"{outer} over {inner}"] = ("r = " + expr, targets, (outer == "Tagger") + (inner == "Tagger"))
    for name, (build, targets, tagging) in stacks.items():
        for oc in OUTCOMES:
            if ctx.tier != "thorough" and " over " in name and oc not in ("addError", "addSkip", "addUnexpectedSuccess"):
                continue
            for form in (("plain", "details") if ctx.tier == "thorough" or oc in ("addFailure", "addSkip") else ("plain",)):
                sc = _scenario(ctx, "extended", names=("plain", "plain2"))
                body = (f"    {build}\n    r.startTestRun()\n    r.time(t0)\n    r.tags(newtags, gonetags)\n    r.startTest(test)\n    {_call(oc, form)}\n    r.time(t1)\n    r.stopTest(test)\n"
                        "    r.stop()\n    r.time(None)\n    r.stopTestRun()\n    return None\n")
                res = sc.run("def scenario(test, err, details, plain, plain2, t0, t1, newtags, gonetags):\n" + body, test=rm.TEST, err=rm.ERR, details=D, plain=("wobj", "plain"),
                             plain2=("wobj", "plain2"), t0=T0, t1=T1, newtags=("set", ("copy", ("tuple", ("const", "run-tag")))), gonetags=("set", ("empty",)))
                problems = set()
                for r in res:
                    if r.kind != "val":
                        problems.add(f"the history raises {r.value!r}")
                        continue
                    for who in targets:
                        got = _received(r, who)
                        seq = [m for m, _, _ in got]
                        want = ["startTestRun", "time", "tags", "startTest"] + ["tags"] * tagging + [oc, "time", "stopTest", "stop", "time", "stopTestRun"]
                        if seq != want:
                            problems.add(f"{who} receives {seq}; expected {want}")
                            continue
                        byname = {}
                        for m, pos, kw in got:
                            byname.setdefault(m, []).append((pos, kw))
                        if byname["startTest"][0][0] != (rm.TEST,) or byname["stopTest"][0][0] != (rm.TEST,):
                            problems.add(f"{who}: startTest / stopTest are not given the test")
                        if [p for p, _ in byname["time"]] != [(T0,), (T1,), (NONE,)]:
                            problems.add(f"{who}: the times arrive as {[p for p, _ in byname['time']]!r}")
                        opos, okw = byname[oc][0]
                        if not opos or opos[0] != rm.TEST:
                            problems.add(f"{who}: {oc} is not given the test")
                        if form == "details" and okw.get("details") != D:
                            problems.add(f"{who}: {oc} arrives without the details it was called with ({opos!r} {okw!r})")
                        if form == "plain" and oc in ("addError", "addFailure", "addExpectedFailure") and rm.ERR not in list(opos) + list(okw.values()):
                            problems.add(f"{who}: {oc} arrives without the exc_info it was called with ({opos!r} {okw!r})")
                        if form == "plain" and oc == "addSkip" and ("const", "a reason") not in list(opos) + list(okw.values()):
                            problems.add(f"{who}: addSkip arrives without its reason ({opos!r} {okw!r})")
                ctx.check("R-FORWARD-ONCE", f"[{name}; {oc} given as {'details' if form == 'details' else 'exc_info / reason'}] every call of the history reaches each target once, in order, with its arguments",
                          anchor, bool(res) and not problems, "; ".join(sorted(problems))[:800] or "the scenario was not followed to its end", examined=len(res), construct=f"{REAL}:{name}::history {oc} {form}")
    ctx.floor("R-FORWARD-ONCE", 20, "(stack, outcome) histories")


def check_tbt(ctx, anchor):
    Q = f"{REAL}:TestByTestResult"
    for oc in OUTCOMES:
        for form in ("plain", "details", "empty details"):
            if form != "plain" and oc == "addSuccess" and form == "empty details":
                pass
            call = f"r.{oc}(test, details={{}})" if form == "empty details" else _call(oc, form)
            sc = _scenario(ctx, "extended")
            body = (f"    r = TestByTestResult(callback)\n    r.time(t0)\n    r.startTest(test)\n    r.tags(newtags, gonetags)\n    {call}\n    before_stop = 0\n    r.time(t1)\n    r.stopTest(test)\n"
                    "    r.time(t2)\n    r.startTest(test)\n    r.addSuccess(test)\n    r.stopTest(test)\n    return None\n")
            res = sc.run("def scenario(test, err, details, callback, t0, t1, t2, newtags, gonetags):\n" + body, test=rm.TEST, err=rm.ERR, details=D, callback=("wobj", "callback"), t0=T0, t1=T1,
                         t2=("sym", "time of the second test"), newtags=("set", ("copy", ("tuple", ("const", "in-test-tag")))), gonetags=("set", ("empty",)))
            problems, presence = set(), set()
            for r in res:
                if r.kind != "val":
                    (presence if form == "empty details" else problems).add(f"the history raises {r.value!r}")
                    continue
                log = [(n, pos, dict(kw)) for n, pos, kw, tag in r.state.get("ev.calls", ())]
                cbs = [(pos, kw) for n, pos, kw in log if n == "callback.__call__"]
                if len(cbs) != 2:
                    problems.add(f"the callback is called {len(cbs)} time(s) for two tests")
                    continue
                pos, kw = cbs[0]
                args = dict(kw)
                if pos:
                    args.update(dict(zip(("test", "status", "start_time", "stop_time", "tags", "details"), pos)))
                if args.get("test") != rm.TEST:
                    problems.add(f"the callback is not given the test ({args.get('test')!r})")
                if args.get("status") != ("const", TBT_STATUS[oc]):
                    problems.add(f"the status word for {oc} is {args.get('status')!r}; expected {TBT_STATUS[oc]!r}")
                if args.get("start_time") != T0 or args.get("stop_time") != T1:
                    problems.add(f"the times are ({args.get('start_time')!r}, {args.get('stop_time')!r}); expected the time reported before startTest and the one reported before stopTest")
                tags = args.get("tags")
                if "in-test-tag" not in repr(tags):
                    problems.add(f"the tags are {tags!r}; expected the tags current in the test (in-test-tag)")
                det = args.get("details")
                if form == "details" and det != D:
                    problems.add(f"the details are {det!r}; expected the ones given")
                if form == "empty details" and det != ("kwdict", ()):
                    presence.add(f"an empty details dict arrives as {det!r}")
                if form == "plain" and oc in ("addError", "addFailure", "addExpectedFailure") and not (isinstance(det, tuple) and det[:1] == ("kwdict",) and det[1]):
                    problems.add(f"the exc_info of {oc} does not arrive as a details dict ({det!r})")
                if form == "plain" and oc == "addSkip" and "a reason" not in repr(det):
                    problems.add(f"the skip reason does not arrive in the details ({det!r})")
                # the second test does not inherit anything from the first
                args2 = dict(cbs[1][1])
                if cbs[1][0]:
                    args2.update(dict(zip(("test", "status", "start_time", "stop_time", "tags", "details"), cbs[1][0])))
                if args2.get("status") != ("const", "success") or "in-test-tag" in repr(args2.get("tags")) or args2.get("details") not in (NONE, None, ("kwdict", ())):
                    problems.add(f"the second (passing) test is reported with {args2!r}: something of the first test is carried over")
            if form == "empty details":
                ctx.check("R-PRESENCE-BY-NULLNESS", f"[TestByTestResult; {oc} with an empty details dict] counts as details given", anchor, bool(res) and not presence and not problems,
                          "; ".join(sorted(presence | problems))[:700] or "no path", examined=len(res), construct=f"{Q}.{oc}::empty details")
            else:
                ctx.check("R-TBT-CALLBACK", f"[{oc} given as {'details' if form == 'details' else 'exc_info / reason'}] one callback at stopTest with test, status, times, tags and details", anchor,
                          bool(res) and not problems, "; ".join(sorted(problems))[:800] or "no path", examined=len(res), construct=f"{Q}::callback {oc} {form}")
    # the callback comes at stopTest, not earlier
    sc = _scenario(ctx, "extended")
    res = sc.run("def scenario(test, err, callback):\n    r = TestByTestResult(callback)\n    r.startTest(test)\n    r.addError(test, err)\n    return None\n", test=rm.TEST, err=rm.ERR, callback=("wobj", "callback"))
    early = [r for r in res if any(n == "callback.__call__" for n, _, _, _ in r.state.get("ev.calls", ()))]
    ctx.check("R-TBT-CALLBACK", "the callback is not called before stopTest", anchor, bool(res) and not early, "the callback is called when the outcome arrives, before stopTest (stop time and tags are not final)",
              examined=len(res), construct=f"{Q}::not before stopTest")
    ctx.floor("R-TBT-CALLBACK", 10, "outcome forms")


def check_presence(ctx, anchor):
    Q = f"{REAL}:ExtendedToOriginalDecorator"
    for oc in ("addError", "addFailure", "addSkip", "addExpectedFailure"):
        sc = _scenario(ctx, "extended")
        res = sc.run(f"def scenario(test, plain):\n    r = ExtendedToOriginalDecorator(plain)\n    r.startTest(test)\n    r.{oc}(test, details={{}})\n    r.stopTest(test)\n    return None\n", test=rm.TEST, plain=("wobj", "plain"))
        problems = set()
        for r in res:
            got = [(m, pos, kw) for m, pos, kw in _received(r) if m in OUTCOMES]
            if r.kind != "val":
                problems.add(f"an empty details dict is taken for no details: the call raises {r.value!r}")
            elif len(got) != 1 or got[0][0] != oc or got[0][2].get("details") != ("kwdict", ()):
                problems.add(f"with details={{}} the target receives {[(m, kw) for m, _, kw in got]!r}; expected {oc}(test, details={{}})")
        ctx.check("R-PRESENCE-BY-NULLNESS", f"[ExtendedToOriginalDecorator; {oc} with an empty details dict] counts as details given", anchor, bool(res) and not problems,
                  "; ".join(sorted(problems)) or "no path", examined=len(res), construct=f"{Q}.{oc}::empty details")
    # a reason that is given but empty is a reason given
    sc = _scenario(ctx, "extended")
    res = sc.run("def scenario(test, plain):\n    r = ExtendedToOriginalDecorator(plain)\n    r.startTest(test)\n    r.addSkip(test, '')\n    r.stopTest(test)\n    return None\n", test=rm.TEST, plain=("wobj", "plain"))
    problems = set()
    for r in res:
        got = [(m, pos, kw) for m, pos, kw in _received(r) if m in OUTCOMES]
        if r.kind != "val" or len(got) != 1 or got[0][0] != "addSkip" or ("const", "") not in list(got[0][1]) + list(got[0][2].values()):
            problems.add(f"addSkip(test, '') {'raises ' + repr(r.value) if r.kind == 'exc' else 'delivers ' + repr(got)}; expected the skip with its empty reason")
    ctx.check("R-PRESENCE-BY-NULLNESS", "[ExtendedToOriginalDecorator; addSkip with an empty reason] counts as a reason given", anchor, bool(res) and not problems, "; ".join(sorted(problems)) or "no path",
              examined=len(res), construct=f"{Q}.addSkip::empty reason")
    # neither / both of err and details is refused
    for args, label in (("test", "neither err nor details"), ("test, err, details=details", "both err and details")):
        sc = _scenario(ctx, "extended")
        res = sc.run(f"def scenario(test, err, details, plain):\n    r = ExtendedToOriginalDecorator(plain)\n    r.addError({args})\n    return None\n", test=rm.TEST, err=rm.ERR, details=D, plain=("wobj", "plain"))
        bad = [r for r in res if not (r.kind == "exc" and r.value[:2] == ("exc", "ValueError")) or [m for m, _, _ in _received(r) if m in OUTCOMES]]
        ctx.check("R-PRESENCE-BY-NULLNESS", f"[ExtendedToOriginalDecorator.addError with {label}] refused with ValueError, nothing delivered", anchor, bool(res) and not bad,
                  f"addError({args}) {'returns' if bad and bad[0].kind == 'val' else 'behaves otherwise'}: {[(r.kind, r.value) for r in bad][:2]!r}", examined=len(res), construct=f"{Q}.addError::{label}")


def check_test_protocol(ctx):
    classes = ctx.classes
    tcase = classes.get(TESTCASE, "TestCase")
    holder = classes.get(TESTCASE, "PlaceHolder")
    tc_attrs = set()
    for c in classes.mro(tcase):
        tc_attrs |= set(c.methods) | set(c.attrs) | set(c.properties)
    ph_attrs = set(holder.methods) | set(holder.attrs) | set(holder.properties)
    def entries(c, mname):
        """The protocol methods of ``c`` from which ``mname`` is reached through self.<helper>(...) calls (itself when it is one)."""
        public = [m for m in c.methods if not m.startswith("_")]
        if mname in public:
            return [mname]
        reach = {}
        for m, f in c.methods.items():
            reach[m] = {n.func.attr for n in ast.walk(f) if isinstance(n, ast.Call) and isinstance(n.func, ast.Attribute) and isinstance(n.func.value, ast.Name) and n.func.value.id == "self"}
            reach[m] |= {n.attr for n in ast.walk(f) if isinstance(n, ast.Attribute) and isinstance(n.value, ast.Name) and n.value.id == "self" and n.attr in c.methods}
        out = []
        for p_ in sorted(public):
            seen, work = set(), [p_]
            while work:
                x = work.pop()
                if x in seen:
                    continue
                seen.add(x)
                work.extend(reach.get(x, ()))
            if mname in seen:
                out.append(p_)
        return out or [mname]

    for c in classes.all:
        if c.external or c.module.name != REAL:
            continue
        for mname, f in c.methods.items():
            pn = [a.arg for a in f.args.args]
            if "test" not in pn:
                continue
            for n in walk_shallow(f, include_self=False):
                if isinstance(n, ast.Attribute) and isinstance(n.value, ast.Name) and n.value.id == "test" and isinstance(n.ctx, ast.Load):
                    in_tc = n.attr in tc_attrs
                    in_ph = n.attr in ph_attrs
                    problem = ""
                    if not in_ph:
                        problem = f"PlaceHolder has no attribute {n.attr!r}"
                    elif isinstance(holder.attrs.get(n.attr), ast.Constant) and holder.attrs[n.attr].value is None and isinstance(getattr(n, "_parent", None), ast.ExceptHandler):
                        problem = f"PlaceHolder.{n.attr} is None and is used as an exception class in an except clause (TypeError at run time)"
                    if not in_tc:
                        problem = f"TestCase has no attribute {n.attr!r}"
                    for entry in entries(c, mname):
                        ctx.check("R-TEST-PROTOCOL", f"{c.name}.{entry}{'' if entry == mname else ' (through ' + mname + ')'}: test.{n.attr}", n, not problem,
                                  f"{problem}: reporting a PlaceHolder/ErrorHolder through this path raises instead of delivering the outcome",
                                  construct=f"{REAL}:{c.name}.{entry}::test.{n.attr}")
    ctx.floor("R-TEST-PROTOCOL", 4, "attribute uses on test objects")
    # and as it happens: a PlaceHolder reporting each outcome through ExtendedToOriginalDecorator to each flavour of result
    etod = classes.get(REAL, "ExtendedToOriginalDecorator")
    for flavour in FLAVOURS:
        for oc in OUTCOMES:
            sc = _scenario(ctx, flavour, module="testtools")
            res = sc.run(f"def scenario(err, plain):\n    test = PlaceHolder('a.test.id')\n    r = ExtendedToOriginalDecorator(plain)\n    r.startTest(test)\n    {rm.outcome_call(oc)}\n    r.stopTest(test)\n    return None\n",
                         err=rm.ERR, plain=("wobj", "plain"))
            problems = set()
            for r in res:
                got = [m for m, _, _ in _received(r) if m in OUTCOMES]
                if r.kind != "val" or len(got) != 1:
                    problems.add(f"the call {'raises ' + repr(r.value) if r.kind == 'exc' else 'returns'} and the result receives the outcomes {got}; expected exactly one delivery")
            ctx.check("R-TEST-PROTOCOL", f"[a PlaceHolder reports {oc} to a {flavour} result] the outcome is delivered once, nothing raises", etod.node, bool(res) and not problems,
                      "; ".join(sorted(problems)) or "no path", examined=len(res), construct=f"{REAL}:ExtendedToOriginalDecorator::PlaceHolder {oc} to {flavour}")


def run(ctx):
    ctx.rule("R-FORWARD-ONCE", "every call of a history reaches each wrapped result exactly once, in order, with its arguments")
    ctx.rule("R-ETOD-FALLBACK", "ExtendedToOriginalDecorator: exactly one accepted delivery per outcome call, with the (converted) argument")
    ctx.rule("R-DEGRADE-TABLE", "the method a target receives is the one the documented degradation table names")
    ctx.rule("R-TEST-PROTOCOL", "attributes used on reported test objects exist on TestCase and PlaceHolder")
    ctx.rule("R-TBT-CALLBACK", "TestByTestResult: one callback per test at stopTest with status, times, tags, details")
    ctx.rule("R-PRESENCE-BY-NULLNESS", "whether err / details was supplied is decided with `is None`, never by truthiness")
    etod = ctx.classes.get(REAL, "ExtendedToOriginalDecorator")
    if etod is None:
        raise AnalysisError("anchor vanished: ExtendedToOriginalDecorator")
    check_etod(ctx, etod.node)
    check_forwarders(ctx, ctx.classes.get(REAL, "TestResultDecorator").node)
    check_tbt(ctx, ctx.classes.get(REAL, "TestByTestResult").node)
    check_presence(ctx, etod.node)
    check_test_protocol(ctx)
    ctx.assume("a TypeError raised by the first (details=) attempt is the target's signature rejection, not an error after partial acceptance")
