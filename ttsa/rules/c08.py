"""C08 -- result adapters deliver each call once, at the richest protocol the target has."""

import ast

from ..absint import NONE, NOTNONE, TOP, DefaultDomain, Interp, State, val
from ..astutil import FUNC_TYPES, attr_chain, dotted, norm, walk_shallow
from ..cfg import live_nodes, node_calls
from ..flow import explore
from ..loader import AnalysisError
from .common import REAL, TESTCASE, cfg_of, nodes_calling, own_method, str_const

EXPLANATION = (
    "Forwarding rules over the adapters of testtools.testresult.real: R-FORWARD-ONCE (each protocol "
    "method of TestResultDecorator forwards to the same-named method of self.decorated exactly once on "
    "every path -- typestate counter on the CFG -- passing every one of its own parameters; each "
    "MultiTestResult method calls _dispatch with its own name and all parameters once, _dispatch is "
    "strict over the whole list; Tagger.startTest forwards before tagging), R-ETOD-FALLBACK (for every "
    "outcome method of ExtendedToOriginalDecorator the number of *accepted* deliveries -- a call that "
    "leaves through its TypeError edge counts as rejected -- is exactly one on every returning path and "
    "at most one on raising paths; the converted exc_info/reason is what the fallback call passes), "
    "R-DEGRADE-TABLE (target methods reachable from each outcome method equal the documented "
    "degradation table; no failing outcome reaches a passing method), R-TEST-PROTOCOL (attributes used "
    "on a reported test object exist on both TestCase and PlaceHolder), R-TBT-CALLBACK (TestByTestResult "
    "calls its callback only from stopTest, once, with all six fields; each outcome sets the documented "
    "status word and the details; tags are captured before the context is popped)."
)

OUTCOMES = ["addError", "addFailure", "addSuccess", "addSkip", "addExpectedFailure", "addUnexpectedSuccess"]
PROTOCOL = ["startTestRun", "stopTestRun", "startTest", "stopTest"] + OUTCOMES + ["tags", "time", "stop", "done", "progress", "wasSuccessful"]
DEGRADE = {
    "addSkip": {"addSkip", "addSuccess"},
    "addExpectedFailure": {"addExpectedFailure", "addSuccess"},
    "addUnexpectedSuccess": {"addUnexpectedSuccess", "addFailure"},
    "addError": {"addError"},
    "addFailure": {"addFailure"},
    "addSuccess": {"addSuccess"},
}
TBT_STATUS = {"addSuccess": "success", "addFailure": "failure", "addError": "error", "addSkip": "skip",
              "addExpectedFailure": "xfail", "addUnexpectedSuccess": "success"}


def own_params(func):
    return [a.arg for a in func.args.args[1:]] + [a.arg for a in func.args.kwonlyargs]


def passes_all_params(call, pnames, skip=0):
    """Every parameter appears exactly once in the call (positionally in order or as p=p)."""
    pos = [dotted(a) for a in call.args[skip:]]
    kws = {k.arg: dotted(k.value) for k in call.keywords}
    seen = []
    for i, p in enumerate(pos):
        if i >= len(pnames) or p != pnames[i]:
            return False
        seen.append(p)
    for k, v in kws.items():
        if k is None or k != v or k not in pnames or k in seen:
            return False
        seen.append(k)
    return sorted(seen) == sorted(pnames)


def counter_exploration(ctx, func, is_delivery):
    cfg = cfg_of(ctx, func)
    live = live_nodes(cfg)
    hit = {n.id for n in cfg.nodes if n.id in live and any(is_delivery(c) for c in node_calls(n))}

    def transfer(node, st, kind, target, exp, pair):
        if node.id in hit and kind != "exc":
            n = sum(1 for c in node_calls(node) if is_delivery(c))
            return min(st + n, 2)
        return st

    exp = explore(cfg, 0, transfer)
    ctx.stats["states"] += exp.size
    return cfg, exp, hit


class _TbtDomain(DefaultDomain):
    """startTest / add<Outcome> / stopTest of TestByTestResult with the clock abstracted to the phase in
    which it is read: _now() -> ("time", phase)."""

    def __init__(self, classes):
        self.classes = classes

    def call(self, interp, call, st, fr):
        d = dotted(call.func)
        ch = attr_chain(call.func)
        if d == "self._now":
            return [val(("time", st.get("phase", "?")), st)]
        if d == "self._on_test":
            out = []
            exprs = list(call.args) + [k.value for k in call.keywords]
            for r in interp.eval_list(exprs, st, fr):
                if r.kind == "exc":
                    out.append(r)
                    continue
                kw = tuple(sorted((k.arg or "**", v) for k, v in zip(call.keywords, r.value[len(call.args):])))
                pos = tuple(r.value[:len(call.args)])
                out.append(val(NONE, r.state.set("ev.cb", r.state.get("ev.cb", ()) + ((pos, kw),))))
            return out
        if ch and ch[0] == "super()":
            out = []
            for r in interp.eval_list(list(call.args) + [k.value for k in call.keywords], st, fr):
                out.append(r if r.kind == "exc" else val(NONE, r.state))
            return out
        if d == "set" and len(call.args) == 1:
            return interp.eval(call.args[0], st, fr)
        if ch and ch[0] == "self" and len(ch) == 2 and fr.receiver is not None:
            owner, f = self.classes.resolve_method(fr.receiver, ch[1])
            if isinstance(f, FUNC_TYPES) and owner is not None and not owner.external and owner.name == "TestByTestResult":
                params = [p_.arg for p_ in f.args.args][1:]
                out = []
                for r in interp.eval_list(list(call.args), st, fr):
                    if r.kind == "exc":
                        out.append(r)
                        continue
                    argv = {params[i]: v for i, v in enumerate(r.value) if i < len(params)}
                    s2 = r.state
                    for k in call.keywords:
                        if k.arg:
                            for rk in interp.eval(k.value, s2, fr):
                                if rk.kind == "val":
                                    argv[k.arg] = rk.value
                    out.extend(interp.inline(f, argv, s2, fr, receiver=fr.receiver))
                return out
        out = []
        for r in interp.eval_list([a for a in call.args if not isinstance(a, ast.Starred)] + [k.value for k in call.keywords], st, fr):
            out.append(r if r.kind == "exc" else val(NOTNONE, r.state))
        return out

    def load_attr(self, chain, st, fr):
        if chain == ["self", "current_tags"]:
            return ("tags-at", st.get("phase", "?"))
        return None


def check_tbt_protocol(ctx, tbt):
    """Abstract run of startTest; add<Outcome>(details given / not given); stopTest: the callback gets this test,
    the documented status word, the clock as read in startTest and in stopTest, and the details."""
    dom = _TbtDomain(ctx.classes)

    def go(name, argv, st, phase):
        owner, f = ctx.classes.resolve_method(tbt, name)
        if not isinstance(f, FUNC_TYPES) or owner is not tbt:
            raise AnalysisError(f"anchor vanished: TestByTestResult.{name}")
        it = Interp(dom, max_depth=5)
        res = it.analyze(f, argv, st.set("phase", phase), receiver=tbt, name=name)
        ctx.stats["states"] += it.steps
        for fn in it.functions:
            ctx.analysed(fn)
        return [State([(k, v) for k, v in r.state.items if k.startswith("self.") or k.startswith("ev.")]) for r in res if r.kind == "val"]

    TEST = ("the-test",)
    for m, word in TBT_STATUS.items():
        f = tbt.methods.get(m)
        if f is None:
            raise AnalysisError(f"anchor vanished: TestByTestResult.{m}")
        params = [p_.arg for p_ in f.args.args][1:]
        for given in (True, False):
            argv = {"test": TEST}
            if "details" in params:
                argv["details"] = ("the-details",) if given else NONE
            if "err" in params:
                argv["err"] = NONE if given else ("the-exc-info",)
            if "reason" in params:
                argv["reason"] = NONE if given else ("the-reason",)
            finals = []
            for s1 in go("startTest", {"test": TEST}, State(), "start"):
                for s2 in go(m, argv, s1, "outcome"):
                    finals.extend(go("stopTest", {"test": TEST}, s2, "stop"))
            problems = []
            if not finals:
                problems.append("no path returns normally")
            for sf in finals:
                cbs = sf.get("ev.cb", ())
                if len(cbs) != 1:
                    problems.append(f"the callback runs {len(cbs)} times")
                    continue
                pos, kw = cbs[0]
                kwd = dict(kw)
                if pos or set(kwd) != {"test", "status", "start_time", "stop_time", "tags", "details"}:
                    problems.append(f"callback arguments are {sorted(kwd)} (+{len(pos)} positional)")
                    continue
                if kwd["test"] != TEST:
                    problems.append("the callback does not get the test")
                if kwd["status"] != ("const", word):
                    problems.append(f"status is {kwd['status']!r}, documented {word!r}")
                if kwd["start_time"] != ("time", "start"):
                    problems.append(f"start_time is the clock as read during {kwd['start_time'][1] if isinstance(kwd['start_time'], tuple) and len(kwd['start_time']) > 1 else kwd['start_time']!r}, not at startTest")
                if kwd["stop_time"] != ("time", "stop"):
                    problems.append(f"stop_time is the clock as read during {kwd['stop_time'][1] if isinstance(kwd['stop_time'], tuple) and len(kwd['stop_time']) > 1 else kwd['stop_time']!r}, not at stopTest "
                                    "(a time() call between the outcome and stopTest is lost)")
                if kwd["tags"] != ("tags-at", "stop"):
                    problems.append("tags are not the current tags at stopTest")
                if given and kwd["details"] != ("the-details",):
                    problems.append(f"details handed in are replaced by {kwd['details']!r}")
                if not given and m not in ("addSuccess", "addUnexpectedSuccess") and kwd["details"] in (NONE, TOP):
                    problems.append("no details are synthesised from err / reason")
            ctx.check("R-TBT-CALLBACK", f"startTest; {m}({'details=D' if given else 'err / reason'}); stopTest -> one callback: status {word!r}, start/stop clock, tags, details", f,
                      not problems, "; ".join(sorted(set(problems))), examined=len(finals), construct=f"{REAL}:TestByTestResult.{m}::protocol details={'given' if given else 'absent'}")


ETOD_LACKS_26 = {("d", "addSkip"), ("d", "addExpectedFailure"), ("d", "addUnexpectedSuccess")}
T_, D_, E_, R_, CONV_ = ("arg", "test"), ("arg", "details"), ("arg", "err"), ("arg", "reason"), ("converted-exc-info",)


def _etod_expected(m, level, mode):
    """(target method, positional kinds, has details kw) of the single accepted delivery."""
    if m in ("addError", "addFailure"):
        if mode == "details":
            return (m, [T_], True) if level == "extended" else (m, [T_, CONV_], False)
        return (m, [T_, E_], False)
    if m == "addExpectedFailure":
        if level == "py26":
            return ("addSuccess", [T_], False)
        if mode == "details":
            return (m, [T_], True) if level == "extended" else (m, [T_, CONV_], False)
        return (m, [T_, E_], False)
    if m == "addSkip":
        if level == "py26":
            return ("addSuccess", [T_], False)
        if mode == "details":
            return (m, [T_], True) if level == "extended" else (m, [T_, "?"], False)
        return (m, [T_, R_], False)
    if m == "addUnexpectedSuccess":
        if level == "py26":
            return ("addFailure", [T_, "?"], False)
        return (m, [T_], mode == "details" and level == "extended")
    return ("addSuccess", [T_], mode == "details" and level == "extended")


def check_details_text(ctx, etod):
    """Degradation of details to an old-style exc_info: the synthetic exception's text is derived from *every* detail
    (text details by their text, binary / empty ones by name), the traceback included -- decided on an abstract run
    of _details_to_exc_info (and the helpers it uses) with four symbolic contents whose texts are known constants."""
    from .. import effects
    from ..absint import NONE as A_NONE, State
    f = etod.methods.get("_details_to_exc_info")
    if f is None:
        raise AnalysisError("anchor vanished: ExtendedToOriginalDecorator._details_to_exc_info")
    texts = {"tb": "TRACEBACK-TEXT", "log": "LOG-TEXT", "blob": None, "nothing": "   "}
    attrs = {"self": ("self",)}
    for name, text in texts.items():
        attrs[f"{name}.content_type"] = ("wobj", name + "-type")
        attrs[f"{name}-type.type"] = ("const", "text" if text is not None else "application")

    def oracle(n, pos, kw):
        obj, _, meth = n.partition(".")
        if obj in texts and meth == "as_text":
            return [("val", ("const", texts[obj] or ""))]
        if obj in texts and meth == "iter_text":
            return [("val", ("tuple", ("const", texts[obj] or "")))]
        return None

    details = ("kwdict", (("traceback", ("wobj", "tb")), ("log", ("wobj", "log")), ("blob", ("wobj", "blob")), ("nothing", ("wobj", "nothing"))))
    dom = effects.EffectDomain(ctx.classes, attrs=attrs, oracle=oracle, ctors={"_StringException"}, log_cap=30)
    res = effects.run(ctx, dom, f, etod, {f.args.args[1].arg: details}, state=State(), depth=4)
    problems = set()
    if not res:
        problems.add("no path explored")
    for r in res:
        v = r.value if r.kind == "val" else None
        text = None
        if isinstance(v, tuple) and v[:1] == ("tuple",) and len(v) == 4 and isinstance(v[2], tuple) and v[2][:2] == ("new", "_StringException") and v[2][2]:
            t = v[2][2][0]
            if isinstance(t, tuple) and t[:1] == ("const",) and isinstance(t[1], str):
                text = t[1]
            elif isinstance(t, tuple) and t[:1] == ("concat",):
                text = "".join(x[1] if isinstance(x, tuple) and x[:1] == ("const",) and isinstance(x[1], str) else "\x00" for x in t[1:])   # the known pieces of the text
        if text is None:
            problems.add(f"_details_to_exc_info gives {r.kind} {str(r.value)[:120]}; expected (_StringException, _StringException(<text of the details>), None)")
            continue
        for name, want in (("traceback", "TRACEBACK-TEXT"), ("log", "LOG-TEXT"), ("blob", "blob"), ("nothing", "nothing")):
            if want not in text:
                problems.add(f"the detail {name!r} does not appear in the synthetic exception's text: an old-style result loses it")
    ctx.check("R-DEGRADE-TABLE", "details given to an old-style result: every detail (text, binary, empty, traceback) reaches the synthetic exception's text", f, not problems,
              "; ".join(sorted(problems)), examined=len(res), construct=f"{REAL}:ExtendedToOriginalDecorator._details_to_exc_info::all-details")


def check_etod_semantics(ctx, etod):
    from .. import effects
    classes = ctx.classes
    for m in OUTCOMES:
        f = etod.methods.get(m)
        if f is None:
            raise AnalysisError(f"anchor vanished: ExtendedToOriginalDecorator.{m}")
        params = [a.arg for a in f.args.args][1:]
        for level in ("extended", "py27", "py26"):
            for mode in ("details", "plain"):
                if mode == "plain" and m in ("addSuccess", "addUnexpectedSuccess") and level == "extended":
                    pass
                argv = {"test": T_}
                if "details" in params:
                    argv["details"] = D_ if mode == "details" else "None"
                if "err" in params:
                    argv["err"] = "None" if mode == "details" else E_
                if "reason" in params:
                    argv["reason"] = "None" if mode == "details" else R_

                def oracle(name, pos, kw, level=level):
                    if not name.startswith("d."):
                        return None
                    if level != "extended" and any(k == "details" for k, _ in kw):
                        return [("exc", ("exc", "TypeError"))]
                    return [("val", ("ret", name))]

                dom = effects.EffectDomain(classes, attrs={"self.decorated": ("wobj", "d"), "self.failfast": "False", "self._failfast": "False"},
                                           lacks=ETOD_LACKS_26 if level == "py26" else (), oracle=oracle,
                                           results={"self._details_to_exc_info": [CONV_], "test.fail": []}, raises={"test.fail": [("exc", "failureException")]},
                                           track=lambda d: False)
                res = effects.run(ctx, dom, f, etod, argv)
                want_m, want_pos, want_details = _etod_expected(m, level, mode)
                problems = set()
                n_ret = 0
                for r in res:
                    deliveries = [e for e in effects.calls(r) if e[0].startswith("d.add")]
                    accepted = [e for e in deliveries if e[3] == "ok"]
                    rejected = [e for e in deliveries if e[3] != "ok"]
                    if r.kind != "val":
                        if len(accepted) >= 1 and r.value == ("exc", "TypeError"):
                            problems.add("a TypeError escapes after the outcome was already delivered")
                        elif r.value == ("exc", "TypeError"):
                            problems.add("the target's TypeError (it does not take details=) escapes instead of being degraded")
                        continue
                    n_ret += 1
                    if len(accepted) != 1:
                        problems.add(f"a returning path makes {len(accepted)} accepted deliveries ({[e[0] for e in accepted]}); must be exactly 1")
                        continue
                    name, pos, kw, _ = accepted[0]
                    has_details = any(k == "details" for k, _ in kw)
                    pos_ok = len(pos) == len(want_pos) and all(w == "?" or w == p for w, p in zip(want_pos, pos))
                    if name != "d." + want_m or has_details != want_details or not pos_ok or (has_details and dict(kw).get("details") != D_):
                        problems.add(f"delivers {name[2:]}({', '.join(map(repr, pos))}{', details=...' if has_details else ''}); documented: {want_m}"
                                     f"({', '.join('...' if w == '?' else repr(w) for w in want_pos)}{', details=details' if want_details else ''})")
                    if any(not any(k == "details" for k, _ in e[2]) for e in rejected):
                        problems.add("a delivery without details= is rejected")
                if n_ret == 0:
                    problems.add("no returning path")
                rule = "R-DEGRADE-TABLE" if (level == "py26" and want_m != m) else "R-ETOD-FALLBACK"
                ctx.check(rule, f"{m}({'details' if mode == 'details' else 'err/reason'}) to a {level} result -> exactly one {want_m}", f, not problems,
                          f"ExtendedToOriginalDecorator.{m} with {'details=' if mode == 'details' else 'the plain argument'} against a {level} result: " + "; ".join(sorted(problems)),
                          examined=len(res), construct=f"{REAL}:ExtendedToOriginalDecorator.{m}::{level}-{mode}")


def run(ctx):
    ctx.rule("R-FORWARD-ONCE", "each adapter method forwards to the same-named target method exactly once with all arguments")
    ctx.rule("R-ETOD-FALLBACK", "ExtendedToOriginalDecorator: exactly one accepted delivery per outcome call")
    ctx.rule("R-DEGRADE-TABLE", "reachable target methods equal the documented degradation table")
    ctx.rule("R-TEST-PROTOCOL", "attributes used on reported test objects exist on TestCase and PlaceHolder")
    ctx.rule("R-TBT-CALLBACK", "TestByTestResult: one callback per test at stopTest with status, times, tags, details")
    classes = ctx.classes

    # ------------------------------------------------------------------ R-FORWARD-ONCE: TestResultDecorator
    trd = classes.get(REAL, "TestResultDecorator")
    for m in PROTOCOL:
        f = trd.methods.get(m)
        if f is None:
            if m == "done":
                continue  # not part of the decorator's surface today
            ctx.check("R-FORWARD-ONCE", f"TestResultDecorator.{m} exists", trd.node, False, f"TestResultDecorator no longer forwards {m}",
                      construct=f"{REAL}:TestResultDecorator::{m}")
            continue
        pn = own_params(f)

        def is_fwd(c, m=m):
            return dotted(c.func) == f"self.decorated.{m}"

        cfg, exp, hit = counter_exploration(ctx, f, is_fwd)
        counts = exp.states_at(cfg.exit_return)
        other = [c for c in walk_shallow(f, include_self=False) if isinstance(c, ast.Call) and (dotted(c.func) or "").startswith("self.decorated.") and not is_fwd(c)]
        ok = counts == {1} and not other
        msg = f"forward count on returning paths {sorted(counts)}; other target calls {[norm(c.func) for c in other]}"
        argok = all(passes_all_params(c, pn) for n in hit for c in node_calls(cfg.nodes[n]) if is_fwd(c))
        if ok and not argok:
            ok = False
            msg = f"the forwarding call does not pass all of {pn} through unchanged"
        ctx.check("R-FORWARD-ONCE", f"TestResultDecorator.{m} -> decorated.{m}", f, ok, msg, examined=exp.size,
                  construct=f"{REAL}:TestResultDecorator.{m}::forward")
        # the value of the target call is returned
    for p in ("current_tags", "shouldStop", "testsRun"):
        g = trd.properties.get(p, (None, None))[0]
        ok = isinstance(g, FUNC_TYPES) and any(isinstance(r, ast.Return) and dotted(r.value) == f"self.decorated.{p}" for r in walk_shallow(g, include_self=False))
        ctx.check("R-FORWARD-ONCE", f"TestResultDecorator.{p} reads decorated.{p}", g if isinstance(g, FUNC_TYPES) else trd.node, ok,
                  f"property {p} does not read self.decorated.{p}", construct=f"{REAL}:TestResultDecorator.{p}::forward")
    # Tagger
    tg = own_method(ctx, REAL, "Tagger", "startTest")
    gcfg = cfg_of(ctx, tg)
    glive = live_nodes(gcfg)
    s_nodes = nodes_calling(gcfg, lambda c: dotted(c.func) == "super().startTest", glive)
    t_nodes = nodes_calling(gcfg, lambda c: dotted(c.func) == "self.tags", glive)
    ok = len(s_nodes) == 1 and len(t_nodes) == 1 and gcfg.dominated_by(t_nodes[0], set(s_nodes))
    if ok:
        tc = [c for c in node_calls(gcfg.nodes[t_nodes[0]]) if dotted(c.func) == "self.tags"][0]
        ok = [dotted(a) for a in tc.args] == ["self._new_tags", "self._gone_tags"] and gcfg.escape_path(gcfg.after(s_nodes[0]), set(t_nodes), targets=[gcfg.exit_return]) is None
    ctx.check("R-FORWARD-ONCE", "Tagger.startTest forwards startTest, then applies its tags", tg, ok,
              "Tagger.startTest must call super().startTest(test) and then self.tags(self._new_tags, self._gone_tags) on every path",
              construct=f"{REAL}:Tagger.startTest::order")

    # ------------------------------------------------------------------ R-FORWARD-ONCE: MultiTestResult
    mtr = classes.get(REAL, "MultiTestResult")
    n_multi = 0
    for m in PROTOCOL:
        f = mtr.methods.get(m)
        if f is None:
            if m == "progress":
                continue
            ctx.check("R-FORWARD-ONCE", f"MultiTestResult.{m} exists", mtr.node, False, f"MultiTestResult no longer dispatches {m}",
                      construct=f"{REAL}:MultiTestResult::{m}")
            continue
        pn = own_params(f)

        def is_disp(c, m=m):
            return dotted(c.func) == "self._dispatch" and c.args and str_const(c.args[0]) == m

        cfg, exp, hit = counter_exploration(ctx, f, is_disp)
        counts = exp.states_at(cfg.exit_return)
        other = [c for c in walk_shallow(f, include_self=False) if isinstance(c, ast.Call) and dotted(c.func) == "self._dispatch" and not is_disp(c)]
        ok = counts == {1} and not other
        msg = f"dispatch count on returning paths {sorted(counts)}; other dispatches {[norm(c)[:40] for c in other]}"
        argok = all(passes_all_params(c, pn, skip=1) for n in hit for c in node_calls(cfg.nodes[n]) if is_disp(c))
        if ok and not argok:
            ok = False
            msg = f"_dispatch({m!r}, ...) does not pass all of {pn} through unchanged"
        n_multi += 1
        ctx.check("R-FORWARD-ONCE", f"MultiTestResult.{m} -> _dispatch('{m}')", f, ok, msg, examined=exp.size,
                  construct=f"{REAL}:MultiTestResult.{m}::dispatch")
    d = own_method(ctx, REAL, "MultiTestResult", "_dispatch")
    from .. import effects
    mtr_cls = classes.get(REAL, "MultiTestResult")
    dom_ = effects.EffectDomain(classes, attrs={"self._results": ("tuple", ("wobj", "w0"), ("wobj", "w1"))})
    res_ = effects.run(ctx, dom_, d, mtr_cls, {"message": ("const", "anyMethod"), (d.args.vararg.arg if d.args.vararg else "args"): ("tuple", ("arg", 0)),
                                              (d.args.kwarg.arg if d.args.kwarg else "kwargs"): ("kwdict", (("k", ("arg", "k")),))})
    want_calls = [("w0.anyMethod", (("arg", 0),), (("k", ("arg", "k")),), "ok"), ("w1.anyMethod", (("arg", 0),), (("k", ("arg", "k")),), "ok")]
    ok = bool(res_) and all(r.kind == "val" and effects.calls(r) == want_calls and r.value == ("tuple", ("ret", "w0", "anyMethod"), ("ret", "w1", "anyMethod")) for r in res_)
    ctx.check("R-FORWARD-ONCE", "MultiTestResult._dispatch calls the message on every wrapped result, eagerly, with all arguments", d, ok,
              "_dispatch must build tuple/list of getattr(result, message)(*args, **kwargs) for every result in self._results",
              construct=f"{REAL}:MultiTestResult._dispatch::strict-all")
    mi = own_method(ctx, REAL, "MultiTestResult", "__init__")
    ok = any(isinstance(n, ast.Assign) and dotted(n.targets[0]) == "self._results" and "ExtendedToOriginalDecorator" in norm(n.value) and mi.args.vararg and mi.args.vararg.arg in norm(n.value)
             for n in walk_shallow(mi, include_self=False))
    ctx.check("R-FORWARD-ONCE", "MultiTestResult wraps every constituent in ExtendedToOriginalDecorator", mi, ok,
              "constituent results are not all wrapped, so old-style results would reject extended calls", construct=f"{REAL}:MultiTestResult.__init__::wrap")
    ctx.floor("R-FORWARD-ONCE", 34)

    # ------------------------------------------------------------------ R-ETOD-FALLBACK / R-DEGRADE-TABLE
    # decided on abstract runs of each outcome method against three kinds of decorated result: one that takes
    # details= (extended), one that has every method but rejects details= with TypeError (2.7-style) and one that
    # also lacks addSkip / addExpectedFailure / addUnexpectedSuccess (2.6-style)
    etod = classes.get(REAL, "ExtendedToOriginalDecorator")
    check_etod_semantics(ctx, etod)
    check_details_text(ctx, etod)
    ctx.floor("R-ETOD-FALLBACK", 14)
    # _details_to_exc_info builds the synthetic exception from the details text
    dte = own_method(ctx, REAL, "ExtendedToOriginalDecorator", "_details_to_exc_info")
    dte_defs = {n.targets[0].id: n.value for n in walk_shallow(dte, include_self=False) if isinstance(n, ast.Assign) and len(n.targets) == 1 and isinstance(n.targets[0], ast.Name)}

    def is_details_text(x):
        if isinstance(x, ast.Name) and x.id in dte_defs:
            x = dte_defs[x.id]
        return isinstance(x, ast.Call) and dotted(x.func) == "_details_to_str" and x.args and dotted(x.args[0]) == "details"

    ok = any(isinstance(c, ast.Call) and dotted(c.func) == "_StringException" and c.args and is_details_text(c.args[0]) for c in ast.walk(dte))
    ctx.check("R-DEGRADE-TABLE", "synthetic exception is built from the details text", dte, ok, "_details_to_exc_info no longer wraps _details_to_str(details)",
              construct=f"{REAL}:ExtendedToOriginalDecorator._details_to_exc_info::text")
    # start/stop forwarding of ETOD
    for m in ("startTest", "stopTest"):
        f = own_method(ctx, REAL, "ExtendedToOriginalDecorator", m)
        cfg, exp, hit = counter_exploration(ctx, f, lambda c, m=m: dotted(c.func) == f"self.decorated.{m}")
        counts = exp.states_at(cfg.exit_return)
        argok = all(passes_all_params(c, own_params(f)) for n in hit for c in node_calls(cfg.nodes[n]) if dotted(c.func) == f"self.decorated.{m}")
        ctx.check("R-FORWARD-ONCE", f"ExtendedToOriginalDecorator.{m} -> decorated.{m}", f, counts == {1} and argok, f"forward count {sorted(counts)}", examined=exp.size,
                  construct=f"{REAL}:ExtendedToOriginalDecorator.{m}::forward")

    # ------------------------------------------------------------------ R-TEST-PROTOCOL
    tcase = classes.get(TESTCASE, "TestCase")
    holder = classes.get(TESTCASE, "PlaceHolder")
    tc_attrs = set()
    for c in classes.mro(tcase):
        tc_attrs |= set(c.methods) | set(c.attrs) | set(c.properties)
    ph_attrs = set(holder.methods) | set(holder.attrs) | set(holder.properties)
    n_uses = 0
    for c in classes.all:
        if c.external or c.module.name != REAL:
            continue
        for mname, f in c.methods.items():
            pn = [a.arg for a in f.args.args]
            if "test" not in pn:
                continue
            for n in walk_shallow(f, include_self=False):
                if isinstance(n, ast.Attribute) and isinstance(n.value, ast.Name) and n.value.id == "test" and isinstance(n.ctx, ast.Load):
                    n_uses += 1
                    in_tc = n.attr in tc_attrs
                    in_ph = n.attr in ph_attrs
                    problem = ""
                    if not in_ph:
                        problem = f"PlaceHolder has no attribute {n.attr!r}"
                    elif isinstance(holder.attrs.get(n.attr), ast.Constant) and holder.attrs[n.attr].value is None and isinstance(getattr(n, "_parent", None), ast.ExceptHandler):
                        problem = f"PlaceHolder.{n.attr} is None and is used as an exception class in an except clause (TypeError at run time)"
                    if not in_tc:
                        problem = f"TestCase has no attribute {n.attr!r}"
                    ctx.check("R-TEST-PROTOCOL", f"{c.name}.{mname}: test.{n.attr}", n, not problem,
                              f"{problem}: reporting a PlaceHolder/ErrorHolder through this path raises instead of delivering the outcome",
                              construct=f"{REAL}:{c.name}.{mname}::test.{n.attr}")
    ctx.floor("R-TEST-PROTOCOL", 4, "attribute uses on test objects")

    # ------------------------------------------------------------------ presence of err / details is decided by nullness
    ctx.rule("R-PRESENCE-BY-NULLNESS", "whether err / details was supplied is decided with `is None`, never by truthiness")
    n_presence = 0
    for c in classes.all:
        if c.external or c.module.name != REAL:
            continue
        for mname, f in c.methods.items():
            pn = {a.arg for a in f.args.args} & {"err", "details"}
            if not pn:
                continue
            for n in walk_shallow(f, include_self=False):
                tests = []
                if isinstance(n, (ast.If, ast.While, ast.IfExp)):
                    tests.append(n.test)
                elif isinstance(n, ast.BoolOp):
                    tests.extend(n.values[:-1] if not isinstance(getattr(n, "_parent", None), (ast.If, ast.While, ast.IfExp)) else [])
                elif isinstance(n, ast.UnaryOp) and isinstance(n.op, ast.Not):
                    tests.append(n.operand)
                elif isinstance(n, ast.Call) and dotted(n.func) == "bool" and n.args:
                    tests.append(n.args[0])
                for t in tests:
                    parts = t.values if isinstance(t, ast.BoolOp) else [t]
                    for p_ in parts:
                        if isinstance(p_, ast.UnaryOp) and isinstance(p_.op, ast.Not):
                            p_ = p_.operand
                        if isinstance(p_, ast.Name) and p_.id in pn:
                            n_presence += 1
                            ctx.check("R-PRESENCE-BY-NULLNESS", f"{c.name}.{mname}: truthiness test of `{p_.id}`", p_, False,
                                      f"{c.name}.{mname} decides whether `{p_.id}` was supplied by truthiness: a supplied but falsy value (an empty details dict, an empty "
                                      "reason passed as err) is treated as absent -- the call raises or converts the wrong representation and the outcome is not delivered as given",
                                      construct=f"{REAL}:{c.name}.{mname}::truthiness of {p_.id}")
            nulls = [x for x in walk_shallow(f, include_self=False) if isinstance(x, ast.Compare) and isinstance(x.ops[0], (ast.Is, ast.IsNot)) and dotted(x.left) in pn]
            for x in nulls:
                ctx.check("R-PRESENCE-BY-NULLNESS", f"{c.name}.{mname}: `{norm(x)}`", x, True)
    ctx.floor("R-PRESENCE-BY-NULLNESS", 16, "presence tests")

    # ------------------------------------------------------------------ R-TBT-CALLBACK
    tbt = classes.get(REAL, "TestByTestResult")
    callers = []
    for mname, f in tbt.methods.items():
        for c in walk_shallow(f, include_self=False):
            if isinstance(c, ast.Call) and dotted(c.func) == "self._on_test":
                callers.append(mname)
    ctx.check("R-TBT-CALLBACK", "callback invoked only from stopTest", tbt.node, callers == ["stopTest"], f"_on_test is called from {callers}",
              construct=f"{REAL}:TestByTestResult::callers")
    st = own_method(ctx, REAL, "TestByTestResult", "stopTest")
    cfg, exp, hit = counter_exploration(ctx, st, lambda c: dotted(c.func) == "self._on_test")
    counts = exp.states_at(cfg.exit_return)
    ctx.check("R-TBT-CALLBACK", "exactly one callback per stopTest", st, counts == {1}, f"callback count on returning paths {sorted(counts)}", examined=exp.size,
              construct=f"{REAL}:TestByTestResult.stopTest::once")
    live = live_nodes(cfg)
    for n in hit:
        for c in node_calls(cfg.nodes[n]):
            if dotted(c.func) == "self._on_test":
                kws = {k.arg: k.value for k in c.keywords}
                tags_var = dotted(kws.get("tags"))
                cap = [x.id for x in cfg.nodes if x.id in live and x.kind == "stmt" and isinstance(x.ast, ast.Assign) and dotted(x.ast.targets[0]) == tags_var and "self.current_tags" in norm(x.ast.value)]
                sup = nodes_calling(cfg, lambda cc: dotted(cc.func) == "super().stopTest", live)
                ok = bool(cap) and bool(sup) and cfg.dominated_by(sup[0], set(cap)) and not (set(cfg.reach(cfg.after(sup[0]))) & set(cap))
                ctx.check("R-TBT-CALLBACK", "tags captured before the tag context is popped", st, ok,
                          "the tags handed to the callback are read after super().stopTest(): the test-local tags are already gone",
                          construct=f"{REAL}:TestByTestResult.stopTest::tags-before-pop")
    check_tbt_protocol(ctx, tbt)
    ctx.assume("a TypeError raised by the first (details=) attempt is the target's signature rejection, not an error after partial acceptance")
