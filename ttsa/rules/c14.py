"""C14 -- Deferred-returning tests succeed iff all completed cleanly; reactor left clean.

Everything is decided on abstract runs.  _run_core is interpreted for every combination of its problem sources
(outcome of the blocking run, logged errors, unhandled Deferreds, reactor junk) against symbolic fixtures /
spinner / result objects whose calls are logged in order; _run_deferred, _run_user and _run_cleanups are
interpreted with Twisted's Deferred chains as abstract values (rules/deferredmodel.py), one run per outcome
of every stage.  The rules read the call logs and final values -- not the layout of the code.
"""

from .. import effects
from ..absint import FALSE, NONE, TRUE, State
from ..astutil import FUNC_TYPES
from ..loader import AnalysisError
from .common import TWRUNTEST
from .deferredmodel import DeferredDomain, is_dfr, is_failure

EXPLANATION = (
    "Abstract runs of the Twisted runner (effect logs + a Deferred-chain model). R-SINGLE-SUCCESS: "
    "AsynchronousDeferredRunTest._run_core for the 24 combinations of its four problem sources (blocking run "
    "ok / failed / timed out / interrupted; logged errors, unhandled Deferreds, reactor junk present or not): "
    "addSuccess(case, details=case.getDetails()) is sent exactly once iff all sources are clean, every logged error "
    "and every unhandled Deferred's failure is recorded through _got_user_failure exactly once, junk through "
    "_log_user_exception(UncleanReactorError(junk)), and every source is collected exactly once on every path; "
    "_run_deferred fires with True iff no stage failed, no cleanup failed and no failure was forced. R-CATCH-ALL: "
    "_run_user (both runners) turns any exception of the user function into a recorded failure and a sentinel "
    "result; _run_cleanups runs every cleanup, LIFO, also after one of them raised an Exception or a "
    "BaseException, reports each failure's traceback and returns the last exception; _log_user_exception records "
    "through _got_user_exception(sys.exc_info()). R-STAGE-CHAIN: for every outcome of setUp / test / tearDown / "
    "cleanups / force_failure the stages called are setUp, then (test, tearDown) iff setUp succeeded, then the "
    "cleanups, then the forced failure iff requested; a cleanup failure is appended to _exceptions. "
    "R-OBSERVER-PAIR: the log fixtures register the restoring cleanup for every observer they removed / added, "
    "also when a later removal / addition raises; the blocking run happens inside both fixtures and both are "
    "exited on every path; _get_log_fixture selects fixtures by option; _get_global_publisher_and_observers returns "
    "the publisher with all its observers. R-SPINNER-ERRORS-HANDLED: a timeout is recorded through "
    "_log_user_exception(TimeoutError(case, timeout)), an interrupt through _got_user_exception(sys.exc_info()) "
    "plus result.stop(), and the run is spun as trap_unhandled_errors(spinner.run, timeout, _run_deferred). "
    "Timing, reactor behaviour and real Deferred firing order are runtime behaviour and are not decided."
)

ADRT = "AsynchronousDeferredRunTest"
CASE, RES, SPINNER, LOGFIX, ERROBS = ("wobj", "case"), ("wobj", "res"), ("wobj", "spinner"), ("wobj", "logfix"), ("wobj", "errobs")
TIMEOUT, RUN_DEFERRED = ("sym", "timeout"), ("sym", "run_deferred")
EXCINFO = ("tuple", ("sym", "etype"), ("sym", "evalue"), ("sym", "etb"))
L1, L2 = ("sym", "logged-1"), ("sym", "logged-2")
D1, D2 = ("wobj", "dbg1"), ("wobj", "dbg2")
J1 = ("sym", "junk-1")
SENTINEL = ("sym", "exception_caught")
USER_ERROR, INTERRUPT = ("exc", "UserError"), ("exc", "KeyboardInterrupt")
RECORDERS = ("self._got_user_failure", "self._log_user_exception", "self._got_user_exception")


def _method(ctx, clsname, name):
    cls = ctx.classes.get(TWRUNTEST, clsname)
    owner, f = ctx.classes.resolve_method(cls, name)
    if not isinstance(f, FUNC_TYPES) or owner is None or owner.external:
        raise AnalysisError(f"anchor vanished: {clsname}.{name}")
    return cls, f


class CoreDomain(DeferredDomain):
    enter_returns_self = True

    def call(self, interp, call, st, fr):
        from ..astutil import dotted
        if (dotted(call.func) or "") == "trap_unhandled_errors":
            out = []
            for r in interp.eval_list(list(call.args), st, fr):
                if r.kind == "exc":
                    out.append(r)
                    continue
                log = r.state.get("ev.calls", ())
                s = r.state.set("ev.calls", log + (("trap_unhandled_errors", tuple(r.value), (), "ok"),))
                for ok, lab in ((TRUE, "ok"), (FALSE, "failed")):
                    for un, ulab in ((("tuple",), "no"), (("tuple", D1, D2), "yes")):
                        out.append(effects.val(("tuple", ok, un), s.set("src.run", lab).set("src.unhandled", ulab)))
                out.append(effects.exc(("exc", "TimeoutError"), s.set("src.run", "timeout").set("src.unhandled", "no")))
                out.append(effects.exc(("exc", "NoResultError"), s.set("src.run", "interrupted").set("src.unhandled", "no")))
            return out
        return super().call(interp, call, st, fr)


def run_core_results(ctx, every_unhandled_has_debug_info=False):
    """AsynchronousDeferredRunTest._run_core run for every combination of its problem sources -> (function, results).
    (Shared with C05, which reads what is attached to the case on the way.)"""
    cls, core = _method(ctx, ADRT, "_run_core")

    def oracle(n, pos, kw):
        if n == "errobs.flush_logged_errors":
            return [("val", ("tuple",), "none"), ("val", ("tuple", L1, L2), "some")]
        if n == "spinner.clear_junk":
            return [("val", ("tuple",), "none"), ("val", ("tuple", J1), "some")]
        if n.endswith("._getDebugTracebacks"):
            return [("val", NONE if n.startswith("dbg1") and not every_unhandled_has_debug_info else ("const", "debug traceback of " + n.split(".")[0]))]
        if n == "logfix.getDetails":
            return [("val", ("wobj", "details"))]
        if n == "details.items":
            return [("val", ("tuple", ("tuple", ("const", "twisted-log"), ("sym", "log-detail"))))]
        if n.startswith(("case.", "res.", "logfix.", "errobs.", "spinner.")):
            return [("val", ("ret", n))]
        return None

    dom = CoreDomain(ctx.classes, attrs={"self": ("self",), "self.case": CASE, "self.result": RES, "self._timeout": TIMEOUT, "self._run_deferred": RUN_DEFERRED},
                     results={"self._make_spinner": [SPINNER], "self._get_log_fixture": [LOGFIX], "_ErrorObserver": [ERROBS],
                              "text_content": [("sym", "text")], "self._got_user_failure": [SENTINEL], "self._got_user_exception": [SENTINEL], "self._log_user_exception": [NONE]},
                     track=lambda d: d in RECORDERS, oracle=oracle, ctors={"UncleanReactorError", "TimeoutError"}, log_cap=60)
    return core, effects.run(ctx, dom, core, cls, {}, state=State(), depth=4)


def check_run_core(ctx):
    core, res = run_core_results(ctx)
    Q = f"{TWRUNTEST}:{ADRT}"
    combos = {}
    for r in res:
        s = r.state
        log = s.get("ev.calls", ())
        if s.get("ev.calls.overflow", 0):
            raise AnalysisError("_run_core: the call log of the abstract run overflowed")
        tag = lambda name: next((e[3] for e in log if e[0] == name), "NOT COLLECTED")
        yn = {"none": "no", "some": "yes"}
        key = (s.get("src.run", "NOT RUN"), yn.get(tag("errobs.flush_logged_errors"), "NOT COLLECTED"), s.get("src.unhandled", "?"), yn.get(tag("spinner.clear_junk"), "NOT COLLECTED"))
        combos.setdefault(key, []).append(r)
    for key, rs in sorted(combos.items()):
        run, logged, unhandled, junk = key
        label = f"run={run} logged-errors={logged} unhandled={unhandled} junk={junk}"
        problems = set()
        if "NOT COLLECTED" in key or run == "NOT RUN":
            what = ("the errors logged during the test are not flushed from the (process-wide) observer" if logged == "NOT COLLECTED" else
                    "the spinner's junk is not collected" if junk == "NOT COLLECTED" else "the blocking run is skipped")
            problems.add(f"{what}: it is neither reported for this test nor discarded, and surfaces in the next test run in the same process")
        clean = run == "ok" and logged == "no" and unhandled == "no" and junk == "no"
        for r in rs:
            log = r.state.get("ev.calls", ())
            if r.kind == "exc":
                problems.add(f"_run_core raises {r.value!r}")
                continue
            succ = [e for e in log if e[0] == "res.addSuccess"]
            if len(succ) != (1 if clean else 0):
                problems.add(f"addSuccess is sent {len(succ)} time(s): " + ("success must be reported exactly once" if clean else "no success may be reported"))
            for e in succ:
                if e[1] != (CASE,) or dict(e[2]).get("details") != ("ret", "case.getDetails"):
                    problems.add("addSuccess is not sent as addSuccess(case, details=case.getDetails())")
            for name in ("errobs.flush_logged_errors", "spinner.clear_junk", "trap_unhandled_errors"):
                if sum(1 for e in log if e[0] == name) > 1:
                    problems.add(f"{name.split('.')[-1]} is called more than once")
            guf = [e for e in log if e[0] == "self._got_user_failure"]
            want = ([L1, L2] if logged == "yes" else []) + ([("bound", "dbg1", "failResult"), ("bound", "dbg2", "failResult")] if unhandled == "yes" else [])
            got = [e[1][0] if e[1] else None for e in guf]
            if sorted(map(repr, got)) != sorted(map(repr, want)):
                problems.add(f"_got_user_failure is called for {got}; expected exactly once for each logged error and for the failResult of each unhandled Deferred ({want})")
            lue = [e[1][0] if e[1] else None for e in log if e[0] == "self._log_user_exception"]
            want_lue = []
            if run == "timeout":
                want_lue.append(("new", "TimeoutError", (CASE, TIMEOUT), ()))
            if junk == "yes":
                want_lue.append(("new", "UncleanReactorError", (("tuple", J1),), ()))
            if lue != want_lue:
                problems.add(f"_log_user_exception is called with {lue}; expected {want_lue} (TimeoutError(case, timeout) for a timeout, UncleanReactorError(junk) for junk)")
            gue = [e for e in log if e[0] == "self._got_user_exception"]
            stops = [e for e in log if e[0] == "res.stop"]
            if run == "interrupted":
                if [e[1] for e in gue] != [(effects.exc_info_of(("exc", "NoResultError")),)]:
                    problems.add("an interrupted run is not recorded through _got_user_exception(sys.exc_info())")
                if len(stops) != 1:
                    problems.add(f"an interrupted run asks the result to stop {len(stops)} times (expected once)")
            elif gue or stops:
                problems.add("_got_user_exception / result.stop() are used although the run was not interrupted")
            # the reactor is spun inside both fixtures, which are left on every path
            names = [e[0] for e in log]
            if "trap_unhandled_errors" in names:
                ti = names.index("trap_unhandled_errors")
                for fx in ("logfix", "errobs"):
                    # (a fixture is used either as a context manager or through setUp() / cleanUp())
                    if not ({f"{fx}.__enter__", f"{fx}.setUp"} & set(names[:ti])) or not ({f"{fx}.__exit__", f"{fx}.cleanUp"} & set(names[ti:])):
                        problems.add(f"the reactor is spun outside the {'log fixture' if fx == 'logfix' else 'error observer'}: observers would not be restored / errors not captured on timeout or interrupt")
                if log[ti][1] != (("bound", "spinner", "run"), TIMEOUT, RUN_DEFERRED):
                    problems.add("the run is not spun as trap_unhandled_errors(spinner.run, self._timeout, self._run_deferred)")
                if "errobs.flush_logged_errors" in names and names.index("errobs.flush_logged_errors") < ti:
                    problems.add("logged errors are flushed before the test ran")
            for fx in ("logfix", "errobs"):
                if names.count(f"{fx}.__enter__") + names.count(f"{fx}.setUp") != names.count(f"{fx}.__exit__") + names.count(f"{fx}.cleanUp"):
                    problems.add(f"a path leaves _run_core with the {fx} fixture still entered")
        rule = "R-SPINNER-ERRORS-HANDLED" if run in ("timeout", "interrupted") else "R-SINGLE-SUCCESS"
        ctx.check(rule, f"_run_core: {label}", core, not problems, f"with {label}: " + "; ".join(sorted(problems)), examined=len(rs), construct=f"{Q}._run_core::{label}")
    ctx.check("R-SINGLE-SUCCESS", f"all 24 combinations of the problem sources explored ({len(combos)})", core, len(combos) == 24,
              f"{len(combos)} combinations were reached (16 for a completed run, 4 each for a timed-out and an interrupted one): {sorted(combos)[:4]}...", examined=len(res), construct=f"{Q}._run_core::combos")


# ------------------------------------------------------------------------------------------------ the stage chain
def stage_domain(ctx, force, cleanup_outcomes=None, recorder_raises=False):
    def oracle(n, pos, kw):
        if n in ("case._run_setup", "case._run_test_method", "case._run_teardown"):
            return [("val", ("ret", n)), ("exc", USER_ERROR)]
        return None

    attrs = {"self": ("self",), "self.case": CASE, "self.result": RES, "self.exception_caught": SENTINEL, "case.force_failure": TRUE if force else FALSE}
    dom = DeferredDomain(ctx.classes, attrs=attrs, results={"self._got_user_failure": [SENTINEL]}, track=lambda d: d == "self._got_user_failure", oracle=oracle, log_cap=40,
                         raises={"self._got_user_failure": [("exc", "HandlerError")]} if recorder_raises else None,
                         dfr_results={"self._run_cleanups": cleanup_outcomes if cleanup_outcomes is not None else [("ok", NONE), ("ok", ("sym", "cleanup-exc"))]})
    return dom


def check_stage_chain(ctx):
    cls, rd = _method(ctx, ADRT, "_run_deferred")
    Q = f"{TWRUNTEST}:{ADRT}"
    scenarios = {}
    n_paths = 0
    for force in (False, True):
        dom = stage_domain(ctx, force, [("ok", NONE)])
        res = effects.run(ctx, dom, rd, cls, {}, state=State([("self._exceptions", ("tuple",))]), depth=8)
        n_paths += len(res)
        for r in res:
            log = r.state.get("ev.calls", ())
            fate = {}
            for e in log:
                if e[0].startswith("case._run_"):
                    fate[e[0][len("case._run_"):]] = "ok" if e[3] == "ok" else "fails"
            key = (fate.get("setup", "-"), fate.get("test_method", "-"), fate.get("teardown", "-"), "forced" if force else "not-forced")
            scenarios.setdefault(key, []).append(r)
    order, verdict, recorded, cleanup_rec, args = set(), set(), set(), set(), set()
    for key, rs in sorted(scenarios.items()):
        setup, test, teardown, forced = key
        label = f"setUp {setup}, test {test}, tearDown {teardown}, {forced}"
        for r in rs:
            log = r.state.get("ev.calls", ())
            if r.kind != "val" or not is_dfr(r.value):
                verdict.add(f"[{label}] _run_deferred does not return a Deferred ({r.kind} {r.value!r})")
                continue
            stages = [e[0].split(".")[-1] for e in log if e[0].startswith("case._run_") or e[0] == "self._run_cleanups"]
            want = ["_run_setup"] + (["_run_test_method", "_run_teardown"] if setup == "ok" else []) + ["_run_cleanups"]
            if stages != want:
                order.add(f"[{label}] the stages run are {stages}; expected {want} (the test only after a successful setUp, tearDown after the test whatever happened, cleanups always and last)")
                continue
            for e in log:
                if e[0].startswith("case._run_") and e[1] != (RES,):
                    args.add(f"{e[0].split('.')[-1]} is not called with the runner's result")
            n_fail = sum(1 for e in log if e[0].startswith("case._run_") and e[3] != "ok")
            guf = [e for e in log if e[0] == "self._got_user_failure"]
            n_forced = 1 if forced == "forced" else 0
            if len(guf) != n_fail + n_forced or any(not (e[1] and is_failure(e[1][0])) for e in guf):
                recorded.add(f"[{label}] {n_fail} stage(s) failed{' and a failure is forced' if n_forced else ''} but _got_user_failure received {len(guf)} Failure(s): every exception of user code must be recorded exactly once")
            else:
                excs = [e[1][0][1] for e in guf]
                if excs[:n_fail] != [USER_ERROR] * n_fail or (n_forced and excs[-1][:2] != ("exc", "AssertionError")):
                    recorded.add(f"[{label}] the failures recorded are {excs}")
            final = dom.result_of(r.state, r.value)
            pending = r.state.get(f"dfr.{r.value[1]}.cbs", ())
            ok_expected = n_fail == 0 and not n_forced
            if final not in (("ok", TRUE), ("ok", FALSE)) or pending:
                verdict.add(f"[{label}] the Deferred ends with {final!r}: expected it to fire with True or False")
            elif (final == ("ok", TRUE)) != ok_expected:
                verdict.add(f"[{label}] the Deferred fires with {final[1]}: expected {'True' if ok_expected else 'False'} (True iff every stage and cleanup succeeded and no failure was forced)")
            if r.state.get("self._exceptions", None) != ("tuple",):
                cleanup_rec.add(f"[{label}] the cleanups succeed but self._exceptions ends up as {r.state.get('self._exceptions', None)!r}")
    # a failing cleanup, whatever the stages did
    dom = stage_domain(ctx, False, [("ok", ("sym", "cleanup-exc"))])
    for r in effects.run(ctx, dom, rd, cls, {}, state=State([("self._exceptions", ("tuple",))]), depth=8):
        n_paths += 1
        if r.kind != "val" or not is_dfr(r.value):
            continue
        final = dom.result_of(r.state, r.value)
        excs = r.state.get("self._exceptions", None)
        if excs != ("tuple", ("sym", "cleanup-exc")):
            cleanup_rec.add(f"the exception returned by the cleanups is not appended to self._exceptions (it holds {excs!r}): a failing cleanup would not be reported")
        if final != ("ok", FALSE):
            cleanup_rec.add(f"a cleanup fails, yet the Deferred fires with {final!r}: the test could be reported successful")
    # recording a failure can itself raise (a handler registered with addOnException is user code): the stages that
    # must run whatever happened still run, and the run is not reported successful
    dom = stage_domain(ctx, False, [("ok", NONE)], recorder_raises=True)
    by_stage = {}
    for r in effects.run(ctx, dom, rd, cls, {}, state=State([("self._exceptions", ("tuple",))]), depth=8):
        n_paths += 1
        log = r.state.get("ev.calls", ())
        failed = [e[0][len("case._run_"):] for e in log if e[0].startswith("case._run_") and e[3] != "ok"]
        broke = [e for e in log if e[0] == "self._got_user_failure" and e[3] != "ok"]
        if len(failed) == 1 and len(broke) == 1:
            by_stage.setdefault(failed[0], []).append(r)
    for stage, label in (("setup", "setUp"), ("test_method", "the test method"), ("teardown", "tearDown")):
        problems = set()
        rs = by_stage.get(stage, [])
        if not rs:
            problems.add("the scenario was not reached by the model")
        for r in rs:
            log = r.state.get("ev.calls", ())
            stages = [e[0].split(".")[-1] for e in log if e[0].startswith("case._run_") or e[0] == "self._run_cleanups"]
            want = ["_run_setup"] + (["_run_test_method", "_run_teardown"] if stage != "setup" else []) + ["_run_cleanups"]
            if stages != want:
                problems.add(f"the stages run are {stages} (expected {want}: tearDown and the cleanups run whatever happened)")
            final = dom.result_of(r.state, r.value) if r.kind == "val" and is_dfr(r.value) else None
            if final == ("ok", TRUE):
                problems.add("the Deferred fires with True: the runner reports addSuccess for a test whose stage raised")
            elif final == ("ok", FALSE) and r.state.get("self._exceptions", None) == ("tuple",):
                problems.add("the run fails but no exception is kept in self._exceptions: no outcome at all would be reported for the test")
        ctx.check("R-SINGLE-SUCCESS", f"_run_deferred: {label} fails and recording the failure raises as well (an addOnException handler that raises)", rd, not problems,
                  f"when {label} fails and _got_user_failure raises while recording it: " + "; ".join(sorted(problems)), examined=len(rs),
                  construct=f"{Q}._run_deferred::recorder raises while recording a failure of {label}")
    want_keys = {(s, t, d, f) for f in ("forced", "not-forced") for (s, t, d) in (("fails", "-", "-"), ("ok", "ok", "ok"), ("ok", "ok", "fails"), ("ok", "fails", "ok"), ("ok", "fails", "fails"))}
    missing = want_keys - set(scenarios)
    if missing and not order:
        order.add(f"the outcomes {sorted(missing)[:3]} of the stages were never reached")

    def chk(rule, name, problems):
        ctx.check(rule, f"_run_deferred: {name}", rd, not problems, "; ".join(sorted(problems)[:4]), examined=n_paths, construct=f"{Q}._run_deferred::{name}")

    chk("R-STAGE-CHAIN", "setUp, then test and tearDown iff setUp succeeded, then the cleanups -- for every outcome of every stage", order)
    chk("R-STAGE-CHAIN", "every stage is handed the runner's result", args)
    chk("R-STAGE-CHAIN", "a cleanup failure is recorded in _exceptions and fails the run", cleanup_rec)
    chk("R-CATCH-ALL", "every failure of a stage (and the forced failure) reaches _got_user_failure exactly once", recorded)
    chk("R-SINGLE-SUCCESS", "the Deferred fires with True iff no stage failed, no cleanup failed and no failure was forced", verdict)


def check_run_user(ctx):
    """_run_user of both runners: the user function's exception (any) becomes a recorded failure and a sentinel result."""
    for clsname in ("SynchronousDeferredRunTest", ADRT):
        cls, f = _method(ctx, clsname, "_run_user")
        problems = set()

        def oracle(n, pos, kw):
            if n == "fn.__call__":
                return [("val", ("sym", "user-result")), ("exc", USER_ERROR), ("exc", INTERRUPT)]
            return None

        dom = DeferredDomain(ctx.classes, attrs={"self": ("self",)}, results={"self._got_user_failure": [SENTINEL]}, track=lambda d: d == "self._got_user_failure", oracle=oracle, log_cap=20)
        res = effects.run(ctx, dom, f, cls, {"function": ("wobj", "fn"), "args": ("tuple", ("sym", "arg-1")), "kwargs": ("kwdict", (("k", ("sym", "kw-1")),))}, state=State(), depth=6)
        seen = set()
        for r in res:
            log = r.state.get("ev.calls", ())
            calls_ = [e for e in log if e[0] == "fn.__call__"]
            if len(calls_) != 1:
                problems.add(f"the user function is called {len(calls_)} times")
                continue
            c = calls_[0]
            seen.add(c[3])
            if c[1] != (("sym", "arg-1"),) or dict(c[2]) != {"k": ("sym", "kw-1")}:
                problems.add("the user function does not receive the given arguments")
            guf = [e for e in log if e[0] == "self._got_user_failure"]
            how = {"ok": "returns", "UserError": "raises an Exception", "KeyboardInterrupt": "raises a BaseException"}[c[3]]
            if r.kind != "val":
                problems.add(f"when the user function {how}, _run_user raises {r.value!r}")
                continue
            value = dom.result_of(r.state, r.value) if is_dfr(r.value) else ("ok", r.value)
            if c[3] == "ok":
                if guf or value != ("ok", ("sym", "user-result")):
                    problems.add(f"when the user function returns, _run_user yields {value!r} and records {len(guf)} failure(s)")
            else:
                if len(guf) != 1 or not (guf[0][1] and is_failure(guf[0][1][0]) and guf[0][1][0][1] == (USER_ERROR if c[3] == "UserError" else INTERRUPT)):
                    problems.add(f"when the user function {how}, the failure is handed to _got_user_failure {len(guf)} time(s): it would be lost or escape the runner")
                if value != ("ok", SENTINEL):
                    problems.add(f"when the user function {how}, _run_user yields {value!r} instead of the sentinel returned by _got_user_failure")
        if seen != {"ok", "UserError", "KeyboardInterrupt"}:
            problems.add(f"the model could not follow the user function through return / Exception / BaseException (saw {sorted(seen)})")
        ctx.check("R-CATCH-ALL", f"{clsname}._run_user: any exception of the user function becomes a recorded failure and the sentinel", f, not problems,
                  "; ".join(sorted(problems)), examined=len(res), construct=f"{TWRUNTEST}:{clsname}._run_user::catch-all")


def run_cleanups_problems(ctx):
    """AsynchronousDeferredRunTest._run_cleanups run with two registered cleanups, each returning / raising an
    Exception / raising a BaseException -> (function, problems, paths followed).  (Shared with C02.)"""
    cls, f = _method(ctx, ADRT, "_run_cleanups")
    C1, C2 = ("wobj", "cleanup1"), ("wobj", "cleanup2")

    def oracle(n, pos, kw):
        if n in ("cleanup1.__call__", "cleanup2.__call__"):
            who = n.split(".")[0]
            return [("val", NONE), ("exc", USER_ERROR + (who,)), ("exc", INTERRUPT + (who,))]
        if n.startswith("case."):
            return [("val", NONE)]
        return None

    dom = DeferredDomain(ctx.classes, attrs={"self": ("self",), "self.case": CASE}, oracle=oracle, log_cap=20)
    entry = ("tuple", ("tuple", C1, ("tuple", ("sym", "a1")), ("kwdict", ())), ("tuple", C2, ("tuple",), ("kwdict", ())))
    res = effects.run(ctx, dom, f, cls, {}, state=State([("obj.case._cleanups", entry)]), depth=5)
    problems = set()
    seen = set()
    for r in res:
        log = r.state.get("ev.calls", ())
        calls_ = [e for e in log if e[0].endswith(".__call__")]
        fates = tuple(e[3] for e in calls_)
        seen.add(fates)
        if [e[0] for e in calls_] != ["cleanup2.__call__", "cleanup1.__call__"]:
            problems.add(f"with outcomes {fates} the cleanups called are {[e[0].split('.')[0] for e in calls_]}: every cleanup must run, last registered first, also after an earlier one raised (even a BaseException)")
            continue
        if calls_[1][1] != (("sym", "a1"),):
            problems.add("a cleanup does not receive its registered arguments")
        raised = [("exc", e[3], e[0].split(".")[0]) for e in calls_ if e[3] != "ok"]
        reports = [e[1] for e in log if e[0] == "case._report_traceback"]
        if reports != [(effects.exc_info_of(x),) for x in raised]:
            problems.add(f"with outcomes {fates}: the tracebacks reported through case._report_traceback are {reports!r}; expected one (type, value, traceback) per failing cleanup")
        if r.kind != "val":
            problems.add(f"with outcomes {fates} _run_cleanups raises {r.value!r} instead of returning the exception")
            continue
        want = raised[-1] if raised else NONE
        if r.value != want:
            problems.add(f"with outcomes {fates} _run_cleanups returns {r.value!r}; expected {'the exception of the last failing cleanup' if raised else 'None'}")
        if r.state.get("obj.case._cleanups", None) != ("tuple",):
            problems.add("cleanups are left on the case after _run_cleanups")
    if len(seen) < 9:
        problems.add(f"only {len(seen)} of the 9 outcome combinations of two cleanups were reached")
    return f, problems, len(res)


def check_run_cleanups(ctx):
    f, problems, n_res = run_cleanups_problems(ctx)
    res = range(n_res)
    ctx.check("R-CATCH-ALL", "_run_cleanups runs every cleanup LIFO whatever the earlier ones raise, reports each failure and returns the last exception", f, not problems,
              "; ".join(sorted(problems)[:4]), examined=len(res), construct=f"{TWRUNTEST}:{ADRT}._run_cleanups::catch-all")
    from ..astutil import dotted
    ok = any((dotted(d) or "").split(".")[-1] == "inlineCallbacks" for d in f.decorator_list)
    ctx.check("R-STAGE-CHAIN", "_run_cleanups waits for Deferred-returning cleanups (inlineCallbacks)", f, ok, "_run_cleanups is no longer an inlineCallbacks generator: asynchronous cleanups would not be waited for",
              construct=f"{TWRUNTEST}:{ADRT}._run_cleanups::inlineCallbacks")


def check_log_user_exception(ctx):
    cls, f = _method(ctx, ADRT, "_log_user_exception")
    ERR = ("wobj", "the-error")
    dom = DeferredDomain(ctx.classes, attrs={"self": ("self",)}, results={"self._got_user_exception": [SENTINEL]}, track=lambda d: d == "self._got_user_exception")
    res = effects.run(ctx, dom, f, cls, {f.args.args[1].arg: ERR}, state=State(), depth=3)
    normal = [r for r in res if r.kind == "val"]
    problems = set()
    if not normal:
        problems.add("no path records the exception")
    for r in normal:
        rec = [e for e in r.state.get("ev.calls", ()) if e[0] == "self._got_user_exception"]
        if len(rec) != 1 or not (rec[0][1] and isinstance(rec[0][1][0], tuple) and rec[0][1][0][:1] == ("tuple",) and len(rec[0][1][0]) == 4 and rec[0][1][0][2] == ERR):
            problems.add("the exception is not recorded exactly once through _got_user_exception(sys.exc_info()) (so that it has a traceback)")
    for r in res:
        if r.kind == "exc" and r.value != ERR:
            problems.add(f"_log_user_exception raises {r.value!r}")
    ctx.check("R-CATCH-ALL", "_log_user_exception raises and records through _got_user_exception", f, not problems, "; ".join(sorted(problems)), examined=len(res),
              construct=f"{TWRUNTEST}:{ADRT}._log_user_exception::records")


# ------------------------------------------------------------------------------------------------ observers
def check_observers(ctx):
    O1, O2 = ("sym", "observer-1"), ("sym", "observer-2")
    PUB = ("wobj", "pub")
    for clsname, act, undo, setup in (("_NoTwistedLogObservers", "removeObserver", "addObserver", "removed"), ("_TwistedLogObservers", "addObserver", "removeObserver", "added")):
        cls, f = _method(ctx, clsname, "_setUp")

        def oracle(n, pos, kw, act=act):
            if n == f"pub.{act}":
                return [("val", NONE), ("exc", ("exc", "ObserverError"))]
            return None

        dom = DeferredDomain(ctx.classes, attrs={"self": ("self",), "self._observers": ("tuple", O1, O2), "self._log_publisher": PUB},
                                   results={"_get_global_publisher_and_observers": [("tuple", PUB, ("tuple", O1, O2))], "self.addCleanup": [NONE]},
                                   track=lambda d: d == "self.addCleanup", oracle=oracle, log_cap=20)
        res = effects.run(ctx, dom, f, cls, {}, state=State(), depth=3)
        problems = set()
        complete = False
        for r in res:
            log = r.state.get("ev.calls", ())
            acted = [e[1][0] for e in log if e[0] == f"pub.{act}" and e[3] == "ok" and e[1]]

            def flat(args):
                # addCleanup(f, *a) and addCleanup(partial(f, *a)) register the same call
                if args and isinstance(args[0], tuple) and args[0][:1] == ("partial",) and not args[0][3]:
                    return (args[0][1],) + tuple(args[0][2]) + tuple(args[1:])
                return tuple(args)
            cleanups = [flat(e[1]) for e in log if e[0] == "self.addCleanup"]
            for o in acted:
                if (("bound", "pub", undo), o) not in cleanups:
                    problems.add(f"an observer is {setup} without a cleanup that calls {undo} for it being registered" + (" (on the path where a later one raises)" if r.kind == "exc" else "")
                                 + ": Twisted's log observers would not be restored")
            for c in cleanups:
                if len(c) != 2 or c[0] != ("bound", "pub", undo) or c[1] not in acted:
                    problems.add(f"a cleanup {c!r} is registered that does not undo one of this fixture's own changes")
            if r.kind == "val":
                complete = complete or sorted(map(repr, acted)) == sorted(map(repr, [O1, O2]))
                if sorted(map(repr, acted)) != sorted(map(repr, [O1, O2])):
                    problems.add(f"only {acted} of the observers are {setup}")
        if not complete:
            problems.add("no path handles every observer")
        ctx.check("R-OBSERVER-PAIR", f"{clsname}._setUp: every observer {setup} is restored by a cleanup registered with it", f, not problems, "; ".join(sorted(problems)), examined=len(res),
                  construct=f"{TWRUNTEST}:{clsname}._setUp::pair")
    # the publisher and all of its observers
    from .common import module_function
    g = module_function(ctx, TWRUNTEST, "_get_global_publisher_and_observers")
    problems = set()
    n = 0
    for glp, want in ((("wobj", "modern"), ("tuple", ("wobj", "modern"), ("tuple", O1, O2))), (NONE, ("tuple", ("wobj", "legacy"), ("tuple", O2)))):
        dom = DeferredDomain(ctx.classes, attrs={"globalLogPublisher": glp, "log.theLogPublisher": ("wobj", "legacy"), "modern._observers": ("tuple", O1, O2), "legacy.observers": ("tuple", O2),
                                                       "modern.observers": ("tuple",), "legacy._observers": ("tuple",)})
        res = effects.run(ctx, dom, g, None, {}, state=State(), depth=2)
        n += len(res)
        for r in res:
            if r.kind != "val" or r.value != want:
                problems.add(f"with {'the twisted.logger publisher' if glp != NONE else 'only the legacy publisher'} the function yields {r.value!r}; expected the publisher with the list of all its observers")
    ctx.check("R-OBSERVER-PAIR", "all currently installed observers of the global publisher are found", g, not problems, "; ".join(sorted(problems)), examined=n,
              construct=f"{TWRUNTEST}:_get_global_publisher_and_observers::all")
    cls, glf = _method(ctx, ADRT, "_get_log_fixture")
    problems = set()
    n = 0
    for suppress in (True, False):
        for store in (True, False):
            dom = DeferredDomain(ctx.classes, attrs={"self": ("self",), "self._suppress_twisted_logging": TRUE if suppress else FALSE, "self._store_twisted_logs": TRUE if store else FALSE},
                                       ctors={"_NoTwistedLogObservers", "CaptureTwistedLogs", "CompoundFixture"})
            res = effects.run(ctx, dom, glf, cls, {}, state=State(), depth=2)
            n += len(res)
            want = ([("new", "_NoTwistedLogObservers", (), ())] if suppress else []) + ([("new", "CaptureTwistedLogs", (), ())] if store else [])
            for r in res:
                members = None
                if r.kind == "val" and isinstance(r.value, tuple) and r.value[:2] == ("new", "CompoundFixture") and len(r.value[2]) == 1:
                    members = list(r.value[2][0][1:]) if isinstance(r.value[2][0], tuple) and r.value[2][0][:1] == ("tuple",) else None
                if members is None or sorted(map(repr, members)) != sorted(map(repr, want)):
                    problems.add(f"with suppress_twisted_logging={suppress}, store_twisted_logs={store} the log fixture is {r.value!r}")
    ctx.check("R-OBSERVER-PAIR", "log suppression / capture fixtures are selected by their options", glf, not problems, "; ".join(sorted(problems)[:3]), examined=n,
              construct=f"{TWRUNTEST}:{ADRT}._get_log_fixture::options")


def run(ctx):
    ctx.rule("R-SINGLE-SUCCESS", "addSuccess at most once and iff all four problem sources are clean; each dirty source records an exception")
    ctx.rule("R-CATCH-ALL", "user code / user Deferred failures in the Twisted runners surface under a catch-all")
    ctx.rule("R-STAGE-CHAIN", "_run_deferred chains the stages in order and marks every failed stage")
    ctx.rule("R-OBSERVER-PAIR", "log observers are restored by cleanups paired with their removal / addition")
    ctx.rule("R-SPINNER-ERRORS-HANDLED", "spinner TimeoutError / NoResultError are handled and recorded; interrupt stops the result")
    check_run_core(ctx)
    check_stage_chain(ctx)
    check_run_user(ctx)
    check_run_cleanups(ctx)
    check_log_user_exception(ctx)
    check_observers(ctx)
    ctx.floor("R-SINGLE-SUCCESS", 17)
    ctx.floor("R-SPINNER-ERRORS-HANDLED", 8)
    ctx.floor("R-CATCH-ALL", 5)
    ctx.floor("R-STAGE-CHAIN", 4)
    ctx.floor("R-OBSERVER-PAIR", 4)
    ctx.assume("Deferred chains are interpreted with already-fired Deferreds: a chain's final result does not depend on when its Deferreds fire")
