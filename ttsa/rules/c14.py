"""C14 -- Deferred-returning tests succeed iff all completed cleanly; reactor left clean."""

import ast

from ..absint import EMPTY, FALSE, NONE, NONEMPTY, NOTNONE, TOP, TRUE, DefaultDomain, Interp, Result, State, exc, val
from ..astutil import FUNC_TYPES, attr_chain, dotted, norm, walk_shallow
from ..cfg import handler_is_catch_all, handler_names, live_nodes, node_calls
from ..loader import AnalysisError, Undecided
from .common import TWRUNTEST, cfg_of, kw_value, nodes_calling, own_method

EXPLANATION = (
    "R-SINGLE-SUCCESS: truth/emptiness abstract interpretation of AsynchronousDeferredRunTest._run_core over "
    "the 2x2x2x2 combinations of its four problem sources (result of the blocking run, flushed logged errors, "
    "unhandled Deferreds, reactor junk): addSuccess is delivered at most once and exactly when all four are "
    "clean; each non-empty source records an exception through _got_user_failure / _log_user_exception, so "
    "the dispatch of C01 reports exactly one outcome. R-CATCH-ALL: every place in the Twisted runners where "
    "user code or a user Deferred's failure surfaces is covered by a catch-all (an errback handing the Failure "
    "to _got_user_failure, or `except BaseException`) -- sibling agreement with RunTest._run_user. "
    "R-STAGE-CHAIN: _run_deferred chains setUp -> (test -> tearDown) -> cleanups -> forced failure and "
    "collects a failure marker for every stage that reported the sentinel. R-OBSERVER-PAIR: every observer "
    "removed / added by the log fixtures is re-added / removed by a cleanup registered in the same iteration, "
    "and the blocking run happens inside both `with` blocks. R-SPINNER-ERRORS-HANDLED: TimeoutError and "
    "NoResultError from the spinner each have a handler that records an exception; the interrupt arm asks the "
    "result to stop. Timing, reactor behaviour and Deferred firing order are runtime behaviour and are not "
    "decided."
)

ADRT = "AsynchronousDeferredRunTest"


class CoreDomain(DefaultDomain):
    def __init__(self, brd=None):
        self.brd = brd

    def match(self, handler_type, excvalue, st):
        if handler_type is None:
            return "yes"
        names = [norm(t).split(".")[-1] for t in (handler_type.elts if isinstance(handler_type, ast.Tuple) else [handler_type])]
        if isinstance(excvalue, tuple) and len(excvalue) == 2 and excvalue[0] == "spinner":
            return "yes" if excvalue[1] in names or "BaseException" in names or "Exception" in names else "no"
        return "maybe"

    def iter_kind(self, v):
        if v == EMPTY:
            return "empty"
        if v == NONEMPTY:
            return "nonempty"
        return "unknown"

    def call(self, interp, call, st, fr):
        d = dotted(call.func)
        out = []
        argexprs = [a.value if isinstance(a, ast.Starred) else a for a in call.args] + [k.value for k in call.keywords]
        for r in interp.eval_list(argexprs, st, fr):
            if r.kind == "exc":
                out.append(r)
                continue
            s = r.state
            if d == "self._blocking_run_deferred" and self.brd is not None:
                # inlined: what the handlers of spinner errors return decides what _run_core does next
                params = [p_.arg for p_ in self.brd.args.args][1:]
                out.extend(interp.inline(self.brd, {params[i]: v for i, v in enumerate(r.value) if i < len(params)}, s, fr, receiver=fr.receiver))
            elif d == "trap_unhandled_errors":
                for ok, lab in ((TRUE, "ok"), (FALSE, "failed")):
                    for un in (EMPTY, NONEMPTY):
                        out.append(val(("tuple", ok, un), s.set("src.run", lab).set("src.unhandled", un)))
                out.append(exc(("spinner", "TimeoutError"), s.set("src.run", "timeout").set("src.unhandled", EMPTY)))
                out.append(exc(("spinner", "NoResultError"), s.set("src.run", "interrupted").set("src.unhandled", EMPTY)))
            elif d == "self.result.stop":
                out.append(val(NONE, s.set("ev.stop", 1)))
            elif d and d.endswith(".flush_logged_errors"):
                for v in (EMPTY, NONEMPTY):
                    out.append(val(v, s.set("src.logged", v)))
            elif d and d.endswith(".clear_junk"):
                for v in (EMPTY, NONEMPTY):
                    out.append(val(v, s.set("src.junk", v)))
            elif d in ("self._got_user_failure", "self._log_user_exception", "self._got_user_exception"):
                out.append(val(TOP, s.set("ev.recorded", min(s.get("ev.recorded", 0) + 1, 2)).set("ev.rec_for", s.get("ev.rec_for", ()) + (d.split("_")[-1] if False else ()), )))
            elif d == "self.result.addSuccess":
                out.append(val(NONE, s.set("ev.success", min(s.get("ev.success", 0) + 1, 2))))
            else:
                out.append(val(TOP, s))
        return out

    def with_enter(self, interp, item, value, st, fr):
        return None


def run(ctx):
    ctx.rule("R-SINGLE-SUCCESS", "addSuccess at most once and iff all four problem sources are clean; each dirty source records an exception")
    ctx.rule("R-CATCH-ALL", "user code / user Deferred failures in the Twisted runners surface under a catch-all")
    ctx.rule("R-STAGE-CHAIN", "_run_deferred chains the stages in order and marks every failed stage")
    ctx.rule("R-OBSERVER-PAIR", "log observers are restored by cleanups paired with their removal / addition")
    ctx.rule("R-SPINNER-ERRORS-HANDLED", "spinner TimeoutError / NoResultError are handled and recorded; interrupt stops the result")
    classes = ctx.classes
    adrt = classes.get(TWRUNTEST, ADRT)
    Q = f"{TWRUNTEST}:{ADRT}"

    # ------------------------------------------------------------------ single success
    core = own_method(ctx, TWRUNTEST, ADRT, "_run_core")
    brd_f = own_method(ctx, TWRUNTEST, ADRT, "_blocking_run_deferred")
    dom = CoreDomain(brd_f)
    it = Interp(dom, max_depth=3)
    res = it.analyze(core, {}, State([("ev.success", 0), ("ev.recorded", 0)]), receiver=adrt, name="_run_core")
    ctx.stats["states"] += it.steps
    ctx.analysed(core)
    ctx.analysed(brd_f)
    combos = {}
    for r in res:
        if r.kind != "val":
            continue
        s = r.state
        key = (s.get("src.run", "?"), s.get("src.logged", "?"), s.get("src.unhandled", "?"), s.get("src.junk", "?"))
        combos.setdefault(key, set()).add((s.get("ev.success", 0), s.get("ev.recorded", 0), s.get("ev.stop", 0)))
    for key, outs in sorted(combos.items(), key=repr):
        run, logged, unhandled, junk = key
        yn = lambda v: "yes" if v == NONEMPTY else ("no" if v == EMPTY else "NOT COLLECTED")
        label = f"run={run} logged-errors={yn(logged)} unhandled={yn(unhandled)} junk={yn(junk)}"
        if logged == "?" or junk == "?" or run == "?":
            what = "the errors logged during the test are not flushed from the (process-wide) observer" if logged == "?" else "the spinner's junk is not collected" if junk == "?" else "the blocking run is skipped"
            ctx.check("R-SINGLE-SUCCESS", f"_run_core: {label}", core, False,
                      f"on the path with {label}, {what}: it is neither reported for this test nor discarded, and surfaces in the next test run in the same process",
                      construct=f"{Q}._run_core::{label}")
            continue
        clean = run == "ok" and logged == EMPTY and unhandled == EMPTY and junk == EMPTY
        dirty_static = sum(1 for v in (logged, unhandled, junk) if v == NONEMPTY) + (1 if run in ("timeout", "interrupted") else 0)
        good = all((succ == (1 if clean else 0)) and (dirty_static == 0 or rec >= 1) for succ, rec, stop in outs) and len(outs) >= 1
        if run == "interrupted":
            good = good and all(stop == 1 for succ, rec, stop in outs)
        ctx.check("R-SINGLE-SUCCESS", f"_run_core: {label} -> success x{sorted(o[0] for o in outs)}", core, good,
                  f"with {label} the runner reports addSuccess {sorted(o[0] for o in outs)} time(s), records {sorted(o[1] for o in outs)} exception(s)"
                  + (f", result.stop() x{sorted(o[2] for o in outs)}" if run == "interrupted" else "") + ": "
                  + ("success must be reported exactly once" if clean else "no success may be reported and every dirty source must record an exception"
                     + (" and an interrupted run must ask the result to stop" if run == "interrupted" else "")),
                  construct=f"{Q}._run_core::{label}")
    ctx.check("R-SINGLE-SUCCESS", f"all 24 combinations of the problem sources explored ({len(combos)})", core, len(combos) == 24,
              f"{len(combos)} combinations reached a normal exit (16 for a completed run, 4 each for a timed-out and an interrupted one)", examined=len(res), construct=f"{Q}._run_core::combos")
    # each dirty source records through the right call, inside its own arm
    arms = {"flush_logged_errors": "self._got_user_failure", "unhandled": "self._got_user_failure", "junk": "self._log_user_exception"}
    for src, rec in arms.items():
        found = False
        for n in walk_shallow(core, include_self=False):
            if src == "flush_logged_errors" and isinstance(n, ast.For) and src in norm(n.iter):
                found = any(isinstance(c, ast.Call) and dotted(c.func) == rec and c.args and dotted(c.args[0]) == dotted(n.target) for c in walk_shallow(n)) and any(
                    isinstance(a, ast.Assign) and dotted(a.targets[0]) == "successful" and isinstance(a.value, ast.Constant) and a.value.value is False for a in walk_shallow(n))
            if src == "unhandled" and isinstance(n, ast.If) and norm(n.test) == "unhandled":
                loops = [l for l in n.body if isinstance(l, ast.For) and dotted(l.iter) == "unhandled"]
                found = bool(loops) and any(isinstance(c, ast.Call) and dotted(c.func) == rec for c in walk_shallow(loops[0])) and any(
                    isinstance(a, ast.Assign) and dotted(a.targets[0]) == "successful" and isinstance(a.value, ast.Constant) and a.value.value is False for a in n.body)
            if src == "junk" and isinstance(n, ast.If) and norm(n.test) == "junk":
                found = any(isinstance(c, ast.Call) and dotted(c.func) == rec and "UncleanReactorError(junk)" in norm(c) for s in n.body for c in walk_shallow(s)) and any(
                    isinstance(a, ast.Assign) and dotted(a.targets[0]) == "successful" and isinstance(a.value, ast.Constant) and a.value.value is False for a in n.body)
        ctx.check("R-SINGLE-SUCCESS", f"_run_core: the {src} arm clears `successful` and records via {rec.split('.')[-1]}", core, found,
                  f"the {src} arm does not both set successful = False and record an exception for every item", construct=f"{Q}._run_core::arm {src}")
    succ = [c for c in walk_shallow(core, include_self=False) if isinstance(c, ast.Call) and dotted(c.func) == "self.result.addSuccess"]
    ok = len(succ) == 1 and "details=self.case.getDetails()" in norm(succ[0]) and isinstance(succ[0]._parent._parent, ast.If) and norm(succ[0]._parent._parent.test) == "successful"
    ctx.check("R-SINGLE-SUCCESS", "the single addSuccess is guarded by `successful` and carries the details", core, ok, "addSuccess is not reported once under `if successful:` with details", construct=f"{Q}._run_core::guard")
    rd = own_method(ctx, TWRUNTEST, ADRT, "_run_deferred")
    last = [c for c in walk_shallow(rd, include_self=False) if isinstance(c, ast.Call) and isinstance(c.func, ast.Attribute) and c.func.attr == "addBoth" and c.args and isinstance(c.args[0], ast.Lambda)]
    ok = len(last) == 1 and norm(last[0].args[0].body) == "len(fails) == 0"
    ctx.check("R-SINGLE-SUCCESS", "_run_deferred fires with True iff no stage was marked failed", rd, ok, "the Deferred's final value is not `len(fails) == 0`", construct=f"{Q}._run_deferred::verdict")

    # ------------------------------------------------------------------ catch-all siblings
    n_sites = 0
    for cname in ("SynchronousDeferredRunTest", ADRT):
        c = classes.get(TWRUNTEST, cname)
        for mname, f in c.methods.items():
            ctx.analysed(f)
            # (a) maybeDeferred(user function) must get the catch-all errback before it is handed on
            for call in walk_shallow(f, include_self=False):
                if isinstance(call, ast.Call) and dotted(call.func) == "defer.maybeDeferred":
                    n_sites += 1
                    st_ = call
                    while not isinstance(st_, ast.stmt):
                        st_ = st_._parent
                    var = dotted(st_.targets[0]) if isinstance(st_, ast.Assign) else None
                    errbacks = [x for x in walk_shallow(f, include_self=False) if isinstance(x, ast.Call) and dotted(x.func) == f"{var}.addErrback" and x.args and dotted(x.args[0]) == "self._got_user_failure"]
                    tries = []
                    p = None
                    # the Deferred is awaited inside a try: its handler must be catch-all
                    for y in walk_shallow(f, include_self=False):
                        if isinstance(y, ast.Yield) and dotted(y.value) == var:
                            q = y
                            while q is not None and q is not f:
                                par = getattr(q, "_parent", None)
                                if isinstance(par, ast.Try) and any(q is s or any(q is w for w in ast.walk(s)) for s in par.body):
                                    tries.append(par)
                                q = par
                    if errbacks:
                        ok, msg = True, ""
                    elif tries:
                        hs = [h for t in tries for h in t.handlers]
                        ok = any(handler_is_catch_all(h) for h in hs)
                        msg = (f"the Deferred of a user function is awaited under `except {', '.join(n for h in hs for n in handler_names(h))}`: a cleanup raising SystemExit / "
                               "KeyboardInterrupt escapes the generator, the failure is then discarded, the remaining cleanups never run and the test is reported successful")
                    else:
                        ok, msg = False, "the Deferred of a user function gets neither the _got_user_failure errback nor a catch-all handler"
                    ctx.check("R-CATCH-ALL", f"{cname}.{mname}: maybeDeferred({norm(call.args[0]) if call.args else ''}, ...)", call, ok, msg,
                              construct=f"{TWRUNTEST}:{cname}.{mname}::maybeDeferred catch-all")
    ctx.floor("R-CATCH-ALL", 3, "user-code invocation sites in the Twisted runners")
    lue = own_method(ctx, TWRUNTEST, ADRT, "_log_user_exception")
    ok = any(isinstance(t, ast.Try) and any(isinstance(s, ast.Raise) for s in t.body) and any(
        isinstance(c, ast.Call) and dotted(c.func) == "self._got_user_exception" for h in t.handlers for c in walk_shallow(h)) for t in walk_shallow(lue, include_self=False))
    ctx.check("R-CATCH-ALL", "_log_user_exception raises and records through _got_user_exception", lue, ok, "_log_user_exception no longer records the exception", construct=f"{Q}._log_user_exception::records")

    # ------------------------------------------------------------------ stage chain
    inner = {f.name: f for f in rd.body if isinstance(f, FUNC_TYPES)}
    need = {"fail_if_exception_caught", "clean_up", "set_up_done", "tear_down", "force_failure"}
    if not need <= set(inner):
        raise Undecided(f"_run_deferred no longer defines the stage callbacks {sorted(need - set(inner))}: the chain idiom is not one this rule understands")
    ctx.check("R-STAGE-CHAIN", "_run_deferred defines its five stage callbacks", rd, True, construct=f"{Q}._run_deferred::callbacks")

    def canon(stmts, keep):
        """Normalised statement texts with local variable names alpha-renamed (v0, v1, ...)."""
        mapping = {}
        out = []
        for st_ in stmts:
            tree = ast.parse(norm(st_))
            for n in ast.walk(tree):
                if isinstance(n, ast.Name) and n.id not in keep and not (n.id in __builtins_names):
                    if n.id not in mapping:
                        mapping[n.id] = f"v{len(mapping)}"
                    n.id = mapping[n.id]
                if isinstance(n, ast.arg):
                    if n.arg not in mapping:
                        mapping[n.arg] = f"v{len(mapping)}"
                    n.arg = mapping[n.arg]
            out.append(ast.unparse(tree))
        return out

    __builtins_names = {"len", "None", "True", "False", "getattr"}
    keep = set(inner) | {"self", "fails", "_raise_force_fail_error"}
    if True:
        top = canon([s for s in rd.body if isinstance(s, (ast.Assign, ast.Expr, ast.Return)) and not (isinstance(s, ast.Expr) and isinstance(s.value, ast.Constant))], keep)
        want_top = ["fails = []", "v0 = self._run_user(self.case._run_setup, self.result)", "v0.addCallback(set_up_done)", "v0.addBoth(force_failure)", "v0.addBoth(lambda v1: len(fails) == 0)", "return v0"]
        ctx.check("R-STAGE-CHAIN", "setUp first, then set_up_done, then force_failure, then the verdict", rd, top == want_top, f"top-level chain is {top}", construct=f"{Q}._run_deferred::top-chain")
        sud = inner["set_up_done"]
        ifs = [s for s in sud.body if isinstance(s, ast.If)]
        ok = False
        if len(ifs) == 1:
            t = ifs[0]
            fail_arm = canon(t.body, keep)
            ok_arm = canon(t.orelse, keep)
            p0 = sud.args.args[0].arg
            ok = (norm(t.test) in (f"self.exception_caught == {p0}", f"{p0} == self.exception_caught") and fail_arm == ["fails.append(None)", "return clean_up()"]
                  and ok_arm == ["v0 = self._run_user(self.case._run_test_method, self.result)", "v0.addCallback(fail_if_exception_caught)", "v0.addBoth(tear_down)", "return v0"])
        ctx.check("R-STAGE-CHAIN", "setUp failed -> cleanups only; else test method, then tearDown on both outcomes", sud, ok,
                  "set_up_done no longer runs the test iff setUp succeeded and tearDown after the test whatever happened", construct=f"{Q}._run_deferred::set_up_done")
        td = inner["tear_down"]
        ok = canon(td.body, keep) == ["v0 = self._run_user(self.case._run_teardown, self.result)", "v0.addCallback(fail_if_exception_caught)", "v0.addBoth(clean_up)", "return v0"]
        ctx.check("R-STAGE-CHAIN", "tearDown, then cleanups on both outcomes", td, ok, "tear_down no longer chains the cleanups with addBoth", construct=f"{Q}._run_deferred::tear_down")
        fi = inner["fail_if_exception_caught"]
        ok = any(isinstance(n, ast.If) and norm(n.test) in (f"self.exception_caught == {fi.args.args[0].arg}", f"{fi.args.args[0].arg} == self.exception_caught") and [norm(s) for s in n.body] == ["fails.append(None)"] for n in fi.body)
        ctx.check("R-STAGE-CHAIN", "a stage that reported the sentinel is marked failed", fi, ok, "fail_if_exception_caught no longer marks sentinel results", construct=f"{Q}._run_deferred::mark-failed")
        cu = inner["clean_up"]
        done = [f for f in cu.body if isinstance(f, FUNC_TYPES)]
        ok = len(done) == 1 and any(isinstance(n, ast.If) and norm(n.test) == "result is not None" and {"self._exceptions.append(result)", "fails.append(None)"} <= {norm(s) for s in n.body} for n in done[0].body) and any(
            isinstance(s, ast.Assign) and norm(s.value) == "self._run_cleanups()" for s in cu.body) and any(isinstance(s, ast.Return) and "addCallback(clean_up_done)" in norm(s) for s in cu.body)
        ctx.check("R-STAGE-CHAIN", "a cleanup failure is recorded and marks the run failed", cu, ok, "clean_up no longer records the last cleanup exception and marks failure", construct=f"{Q}._run_deferred::clean_up")
        ff = inner["force_failure"]
        ok = any(isinstance(n, ast.If) and "force_failure" in norm(n.test) and any("self._run_user(_raise_force_fail_error)" in norm(s) for s in n.body) and any("addCallback(fails.append)" in norm(s) for s in n.body) for n in ff.body)
        ctx.check("R-STAGE-CHAIN", "a forced failure is raised through _run_user and marks the run failed", ff, ok, "force_failure arm changed", construct=f"{Q}._run_deferred::force_failure")
    rcl = own_method(ctx, TWRUNTEST, ADRT, "_run_cleanups")
    ok = any(isinstance(c, ast.Call) and dotted(c.func) == "self.case._report_traceback" for c in ast.walk(rcl)) and any(
        isinstance(r, ast.Return) and dotted(r.value) == "last_exception" for r in ast.walk(rcl)) and "inlineCallbacks" in " ".join(norm(d) for d in rcl.decorator_list)
    ctx.check("R-STAGE-CHAIN", "async cleanups report each failure's traceback and return the last exception", rcl, ok, "_run_cleanups no longer reports/returns cleanup failures", construct=f"{Q}._run_cleanups::reports")

    # ------------------------------------------------------------------ observers
    nol = own_method(ctx, TWRUNTEST, "_NoTwistedLogObservers", "_setUp")
    loops = [l for l in nol.body if isinstance(l, ast.For)]
    ok = False
    if len(loops) == 1 and isinstance(loops[0].target, ast.Name):
        v = loops[0].target.id
        body = [norm(s) for s in loops[0].body]
        ok = body == [f"publisher.removeObserver({v})", f"self.addCleanup(publisher.addObserver, {v})"]
    ctx.check("R-OBSERVER-PAIR", "every removed observer is re-added by a cleanup registered in the same iteration", nol, ok,
              "an observer can be removed without its re-adding cleanup being registered (Twisted's log observers would not be restored)", construct=f"{TWRUNTEST}:_NoTwistedLogObservers._setUp::pair")
    ok = any("real_observers" in norm(l.iter) for l in loops) and any(isinstance(s, ast.Assign) and "_get_global_publisher_and_observers()" in norm(s.value) for s in nol.body)
    ctx.check("R-OBSERVER-PAIR", "all currently installed observers are removed", nol, ok, "not every installed observer is handled", construct=f"{TWRUNTEST}:_NoTwistedLogObservers._setUp::all")
    tlo = own_method(ctx, TWRUNTEST, "_TwistedLogObservers", "_setUp")
    loops = [l for l in tlo.body if isinstance(l, ast.For)]
    ok = False
    if len(loops) == 1 and isinstance(loops[0].target, ast.Name):
        v = loops[0].target.id
        body = [norm(s) for s in loops[0].body]
        ok = body == [f"self._log_publisher.addObserver({v})", f"self.addCleanup(self._log_publisher.removeObserver, {v})"] and dotted(loops[0].iter) == "self._observers"
    ctx.check("R-OBSERVER-PAIR", "every added observer is removed by a cleanup registered in the same iteration", tlo, ok,
              "an observer can be added without its removal being registered", construct=f"{TWRUNTEST}:_TwistedLogObservers._setUp::pair")
    withs = [w for w in ast.walk(core) if isinstance(w, ast.With)]
    blocking = [c for c in ast.walk(core) if isinstance(c, ast.Call) and dotted(c.func) == "self._blocking_run_deferred"]
    ok = len(blocking) == 1 and sum(1 for w in withs if any(x is blocking[0] for x in ast.walk(w))) == 2 and any("_get_log_fixture()" in norm(w.items[0].context_expr) for w in withs) and any(
        "_ErrorObserver(" in norm(w.items[0].context_expr) for w in withs)
    ctx.check("R-OBSERVER-PAIR", "the blocking run happens inside the log-fixture and error-observer `with` blocks", core, ok,
              "the reactor is spun outside the fixtures: observers would not be restored on timeout / interrupt", construct=f"{Q}._run_core::inside-with")
    glf = own_method(ctx, TWRUNTEST, ADRT, "_get_log_fixture")
    ok = any(isinstance(n, ast.If) and norm(n.test) == "self._suppress_twisted_logging" and "_NoTwistedLogObservers()" in " ".join(norm(s) for s in n.body) for n in glf.body) and any(
        isinstance(n, ast.If) and norm(n.test) == "self._store_twisted_logs" and "CaptureTwistedLogs()" in " ".join(norm(s) for s in n.body) for n in glf.body)
    ctx.check("R-OBSERVER-PAIR", "log suppression / capture fixtures are selected by their options", glf, ok, "_get_log_fixture changed", construct=f"{Q}._get_log_fixture::options")

    # ------------------------------------------------------------------ spinner errors
    brd = own_method(ctx, TWRUNTEST, ADRT, "_blocking_run_deferred")
    tries = [t for t in brd.body if isinstance(t, ast.Try)]
    ok = len(tries) == 1
    handled = {}
    if ok:
        for h in tries[0].handlers:
            for n in handler_names(h):
                handled[n] = h
    for ename, recorder in (("NoResultError", "self._got_user_exception"), ("TimeoutError", "self._log_user_exception")):
        h = handled.get(ename)
        # (that the run then ends unsuccessfully, with everything collected, is decided by R-SINGLE-SUCCESS's abstract run)
        ok = h is not None and any(isinstance(c, ast.Call) and dotted(c.func) == recorder for c in walk_shallow(h))
        ctx.check("R-SPINNER-ERRORS-HANDLED", f"{ename} from the spinner is recorded through {recorder.split('.')[-1]}", h if h is not None else brd, ok,
                  f"{ename} is not handled by recording an exception through {recorder}", construct=f"{Q}._blocking_run_deferred::{ename}")
    h = handled.get("NoResultError")
    ok = h is not None and any(isinstance(c, ast.Call) and dotted(c.func) == "self.result.stop" for c in walk_shallow(h))
    ctx.check("R-SPINNER-ERRORS-HANDLED", "an interrupted run asks the result to stop", h if h is not None else brd, ok, "the NoResultError arm no longer calls self.result.stop()",
              construct=f"{Q}._blocking_run_deferred::stop")
    body_calls = [c for s in (tries[0].body if tries else []) for c in walk_shallow(s) if isinstance(c, ast.Call) and dotted(c.func) == "trap_unhandled_errors"]
    ok = len(body_calls) == 1 and [norm(a) for a in body_calls[0].args] == ["spinner.run", "self._timeout", "self._run_deferred"]
    ctx.check("R-SPINNER-ERRORS-HANDLED", "the run is spun with the configured timeout under trap_unhandled_errors", brd, ok, "the blocking run call changed", construct=f"{Q}._blocking_run_deferred::call")
    ctx.assume("stage exceptions are recorded by the errback added in _run_user before any stage callback sees the sentinel")
