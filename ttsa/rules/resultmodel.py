"""Client programs of the result classes, run as written (shared by C04 and C08).

A scenario is a small function given as source text -- it builds a stack of testtools' own result objects, reports a
history to it and returns what a client would read back (verdicts, stop flags).  It is parsed as if it stood in
testtools/testresult/real.py and interpreted by ttsa.objects: every result class involved runs as written (constructors,
properties, __getattr__ delegation, dispatch through getattr); only the tests reported, the streams written to and
plain (non-testtools) result objects at the bottom of a stack are symbolic objects that accept and log every call.
"""

import ast

from ..absint import Frame, Interp, State, unbox_deep, without_heap, Result
from ..loader import AnalysisError
from . import streamobjects as so
from .common import REAL

TEST = ("wobj", "test")
ERR = ("tuple", ("excclass", "RuntimeError"), ("exc", "RuntimeError", "the test's error"), ("sym", "a traceback"))
OUTCOMES = ("addSuccess", "addError", "addFailure", "addSkip", "addExpectedFailure", "addUnexpectedSuccess")
FAILING = ("addError", "addFailure", "addUnexpectedSuccess")


def outcome_call(name, receiver="r", test="test", details=False):
    """Source of one outcome call with the argument form that outcome takes (``details``: the extended form, with an empty details dict)."""
    if details:
        return f"{receiver}.{name}({test}, details={{}})"
    if name == "addSuccess":
        return f"{receiver}.addSuccess({test})"
    if name == "addUnexpectedSuccess":
        return f"{receiver}.addUnexpectedSuccess({test})"
    if name == "addSkip":
        return f"{receiver}.addSkip({test}, 'a reason')"
    return f"{receiver}.{name}({test}, err)"


class Scenario:
    def __init__(self, ctx, module=REAL, accepting=("test", "stream", "plain", "plain2", "semaphore", "callback"), depth=30, **dom_kw):
        self.ctx = ctx
        self.module = ctx.repo.module(module)
        lacks = set(dom_kw.pop("lacks", ()))
        self.dom = so.StreamDomain(ctx.classes, accepting=accepting, ctors=set(dom_kw.pop("ctors", ())) | {"TracebackContent", "text_content", "Content"}, lacks=lacks, log_cap=dom_kw.pop("log_cap", 200), **dom_kw)
        self.dom.root_class = None
        # unittest.TestResult -- the base class testtools.TestResult keeps its lists and flags in -- is followed in the
        # standard library's own source
        self.dom.followed_externals = frozenset({("unittest.result", "TestResult")})
        self.dom.closed_instances = True
        self.depth = depth

    def run(self, source, **args):
        """-> results of calling the function defined by ``source`` with ``args`` (abstract values)."""
        tree = ast.parse(source)
        f = tree.body[0]
        if not isinstance(f, ast.FunctionDef):
            raise AnalysisError("a scenario is one function definition")
        from ..loader import _annotate
        _annotate(tree, self.module)
        f._parent = self.module.tree   # (it reads the names of that module)
        it = Interp(self.dom, max_depth=self.depth)
        it.round_cache = {}
        params = [a.arg for a in f.args.args]
        argvals = {p: args[p] for p in params if p in args}
        missing = [p for p in params if p not in args]
        if missing:
            raise AnalysisError(f"scenario parameters without a value: {missing}")
        res = it.analyze(f, argvals, State(), receiver=None, name=f.name)
        self.ctx.stats["states"] += it.steps
        for fn in it.functions:
            if fn is not f and getattr(fn, "_module", None) is not None and not getattr(fn, "name", "").startswith("<"):
                self.ctx.analysed(fn)
        return res


def calls(r, prefix):
    return [(n[len(prefix):], pos, dict(kw)) for n, pos, kw, tag in r.state.get("ev.calls", ()) if n.startswith(prefix)]
