"""C10 -- stream consumers account for every test exactly once."""

import ast

from ..astutil import FUNC_TYPES, attr_chain, dotted, norm, walk_shallow
from ..cfg import live_nodes, node_calls
from ..flow import explore
from ..loader import AnalysisError
from .common import REAL, cfg_of, has_kw, kw_value, nodes_calling, own_method, str_const
from .streammodel import handle_status_table, module_const_set, status_map

EXPLANATION = (
    "R-REPORT-REMOVES: every argument of an on_test(...) call in _StreamToTestRecord comes from a removing "
    "accessor of the in-progress table (pop(key) / popitem()), the final-status arm is guarded by "
    "`test_status not in INTERIM_STATES` and stopTestRun is a drain loop over the table -- hence a record "
    "cannot be reported twice and none is left behind. R-IGNORE-NO-ID: _ensure_key returns a falsy key when "
    "test_id is None and status() returns before touching the table; the key is the pair (test_id, "
    "route_code). R-RECORD-UPDATE: status before timestamp before file before tags; chunks appended in "
    "arrival order to one list per file name; first/last timestamps kept. R-SUMMARY-COUNT: in "
    "StreamSummary._gather_test the 'exists' return dominates the single testsRun increment, followed by "
    "exactly one bucket handler chosen by the record's status; each handler appends to at most one list; "
    "wasSuccessful reads the lists fail/incomplete records go to. R-STATUS-TABLES (shared with C09): the "
    "dispatch is exhaustive. R-WRAPPERS-FORWARD: StreamToDict, StreamSummary and StreamToExtendedDecorator "
    "hand startTestRun / status / stopTestRun to their hook exactly once with all arguments (typestate "
    "counter). Concatenation order and timestamps as values are not decided beyond these structural facts."
)

STR = "_StreamToTestRecord"


def count_on_paths(ctx, func, pred):
    g = cfg_of(ctx, func)
    lv = live_nodes(g)
    hit = {n.id for n in g.nodes if n.id in lv and any(pred(c) for c in node_calls(n))}

    def transfer(node, st, kind, target, exp, pair):
        if node.id in hit and kind != "exc":
            return min(st + sum(1 for c in node_calls(node) if pred(c)), 2)
        return st

    exp = explore(g, 0, transfer)
    ctx.stats["states"] += exp.size
    return g, exp, hit


def run(ctx):
    ctx.rule("R-REPORT-REMOVES", "a record is reported only as it is removed from the in-progress table; the table is drained at stopTestRun")
    ctx.rule("R-IGNORE-NO-ID", "events without a test id never touch the table; records are keyed by (test_id, route_code)")
    ctx.rule("R-RECORD-UPDATE", "records keep last status, latest tags, first/last timestamps and chunks in arrival order")
    ctx.rule("R-SUMMARY-COUNT", "testsRun counts each non-'exists' record once; each record lands in exactly the bucket its status names")
    ctx.rule("R-STATUS-TABLES", "status dispatch is exhaustive")
    ctx.rule("R-WRAPPERS-FORWARD", "consumer wrappers forward each call to their hook exactly once with all arguments")
    classes = ctx.classes
    m = ctx.repo.module(REAL)
    Q = f"{REAL}:{STR}"

    # ------------------------------------------------------------------ report implies removal
    cls = classes.get(REAL, STR)
    n_calls = 0
    for mname, f in cls.methods.items():
        for c in walk_shallow(f, include_self=False):
            if isinstance(c, ast.Call) and dotted(c.func) == "self.on_test":
                n_calls += 1
                arg = c.args[0] if c.args else None
                src = arg
                # follow `case.got_timestamp(None)` and locals bound in the same block
                if isinstance(src, ast.Call) and isinstance(src.func, ast.Attribute) and src.func.attr in ("got_timestamp", "set"):
                    src = src.func.value
                if isinstance(src, ast.Name):
                    for n in walk_shallow(f, include_self=False):
                        if isinstance(n, ast.Assign) and (dotted(n.targets[0]) == src.id or (
                                isinstance(n.targets[0], (ast.Tuple, ast.List)) and any(dotted(e) == src.id for e in n.targets[0].elts))):
                            src = n.value
                            break
                txt = norm(src)
                ok = ("self._inprogress.pop(" in txt or "self._inprogress.popitem()" in txt) and "self._inprogress[" not in txt
                ctx.check("R-REPORT-REMOVES", f"{STR}.{mname}: on_test({norm(arg)[:40]})", c, ok,
                          f"the record handed to on_test comes from `{txt[:60]}`, which leaves it in the in-progress table: it will be reported again at stopTestRun (or on the next final status)",
                          construct=f"{Q}.{mname}::on_test-source")
    ctx.floor("R-REPORT-REMOVES", 2, "on_test call sites")
    status = own_method(ctx, REAL, STR, "status")
    g = cfg_of(ctx, status)
    lv = live_nodes(g)
    rep = nodes_calling(g, lambda c: dotted(c.func) == "self.on_test", lv)
    guards = [n.id for n in g.nodes if n.id in lv and n.kind == "test" and norm(n.ast.test) == "test_status not in INTERIM_STATES"]
    ok = len(rep) == 1 and len(guards) == 1 and any(b == rep[0] or rep[0] in g.reach([b]) for b, k in g.succ[guards[0]] if k == "true") and not any(
        rep[0] in g.reach([b]) for b, k in g.succ[guards[0]] if k == "false")
    ctx.check("R-REPORT-REMOVES", "a record is reported from status() exactly when the status is final", status, ok,
              "the report in status() is not guarded by `test_status not in INTERIM_STATES`", construct=f"{Q}.status::final-guard")
    interim = module_const_set(m, "INTERIM_STATES")
    ctx.check("R-REPORT-REMOVES", "INTERIM_STATES = {None, 'inprogress'}", m.tree, interim == frozenset([None, "inprogress"]), f"INTERIM_STATES is {interim}", construct=f"{REAL}:INTERIM_STATES")
    stop = own_method(ctx, REAL, STR, "stopTestRun")
    loops = [l for l in walk_shallow(stop, include_self=False) if isinstance(l, ast.While) and dotted(l.test) == "self._inprogress"]
    ok = len(loops) == 1 and any(isinstance(c, ast.Call) and dotted(c.func) == "self._inprogress.popitem" for c in walk_shallow(loops[0])) and not any(
        isinstance(x, (ast.Break, ast.Return, ast.Continue)) for x in walk_shallow(loops[0])) and any(isinstance(c, ast.Call) and dotted(c.func) == "self.on_test" for c in walk_shallow(loops[0]))
    ctx.check("R-REPORT-REMOVES", "stopTestRun drains the in-progress table, reporting every remaining record", stop, ok,
              "stopTestRun is not `while self._inprogress: report(self._inprogress.popitem())`: incomplete tests would be lost", construct=f"{Q}.stopTestRun::drain")
    ok = any(isinstance(c, ast.Call) and isinstance(c.func, ast.Attribute) and c.func.attr == "got_timestamp" and c.args and isinstance(c.args[0], ast.Constant) and c.args[0].value is None
             for l in loops for c in walk_shallow(l))
    ctx.check("R-REPORT-REMOVES", "incomplete records are reported with no end timestamp", stop, ok, "hung tests are not marked with a None end timestamp", construct=f"{Q}.stopTestRun::no-end-time")
    start = own_method(ctx, REAL, STR, "startTestRun")
    ok = any(isinstance(n, ast.Assign) and dotted(n.targets[0]) == "self._inprogress" and isinstance(n.value, ast.Dict) and not n.value.keys for n in walk_shallow(start, include_self=False))
    ctx.check("R-REPORT-REMOVES", "startTestRun starts with an empty table", start, ok, "the in-progress table is not reset at startTestRun", construct=f"{Q}.startTestRun::reset")

    # ------------------------------------------------------------------ ignore events without id
    ek = own_method(ctx, REAL, STR, "_ensure_key")
    g2 = cfg_of(ctx, ek)
    lv2 = live_nodes(g2)
    none_guard = [n.id for n in g2.nodes if n.id in lv2 and n.kind == "test" and norm(n.ast.test) == "test_id is None"]
    touches = [n.id for n in g2.nodes if n.id in lv2 and n.kind in ("stmt", "test") and "self._inprogress" in norm(n.ast if n.kind == "stmt" else n.ast.test)]
    ok = len(none_guard) == 1 and bool(touches)
    if ok:
        tsucc = [b for b, k in g2.succ[none_guard[0]] if k == "true"]
        reach_true = g2.reach(tsucc)
        ok = not (set(reach_true) & set(touches)) and all(g2.dominated_by(t, set(none_guard)) for t in touches)
        rets = [g2.nodes[i] for i in reach_true if g2.nodes[i].kind == "return"]
        ok = ok and all(r.ast.value is None or (isinstance(r.ast.value, ast.Constant) and not r.ast.value.value) for r in rets)
    ctx.check("R-IGNORE-NO-ID", "_ensure_key: test_id None -> falsy key, table untouched", ek, ok,
              "an event without test id can create or touch a record", construct=f"{Q}._ensure_key::none")
    keys = [n for n in walk_shallow(ek, include_self=False) if isinstance(n, ast.Assign) and dotted(n.targets[0]) == "key"]
    ok = len(keys) == 1 and isinstance(keys[0].value, ast.Tuple) and [dotted(e) for e in keys[0].value.elts] == ["test_id", "route_code"]
    ctx.check("R-IGNORE-NO-ID", "records are keyed by (test_id, route_code)", ek, ok, "the record key is not the pair (test_id, route_code): the same id on two routes would be merged",
              construct=f"{Q}._ensure_key::key")
    creates = [c for c in walk_shallow(ek, include_self=False) if isinstance(c, ast.Call) and dotted(c.func) == "_TestRecord.create"]
    ok = len(creates) == 1 and [dotted(a) for a in creates[0].args] == ["test_id", "timestamp"] and any(
        isinstance(n, ast.If) and norm(n.test) == "key not in self._inprogress" and any(creates[0] in list(walk_shallow(s)) for s in n.body) for n in walk_shallow(ek, include_self=False))
    ctx.check("R-IGNORE-NO-ID", "a record is created only for a key not yet in progress, with the first timestamp", ek, ok,
              "records are re-created for keys already in progress (state lost) or without the first timestamp", construct=f"{Q}._ensure_key::create")
    kn = nodes_calling(g, lambda c: dotted(c.func) == "self._ensure_key", lv)
    early = [n.id for n in g.nodes if n.id in lv and n.kind == "test" and norm(n.ast.test) == "not key"]
    table_uses = [n.id for n in g.nodes if n.id in lv and n.kind in ("stmt", "test") and "self._inprogress" in norm(n.ast if n.kind == "stmt" else n.ast.test)]
    ok = len(kn) == 1 and len(early) == 1 and all(g.dominated_by(t, set(early)) for t in table_uses)
    if ok:
        tsucc = [b for b, k in g.succ[early[0]] if k == "true"]
        ok = not (set(g.reach(tsucc)) & set(table_uses))
    ctx.check("R-IGNORE-NO-ID", "status() returns before touching the table when there is no key", status, ok,
              "status() uses the in-progress table for an event without test id", construct=f"{Q}.status::early-return")
    kc = [c for nid in kn for c in node_calls(g.nodes[nid]) if dotted(c.func) == "self._ensure_key"]
    ok = bool(kc) and [dotted(a) for a in kc[0].args] == ["test_id", "route_code", "timestamp"]
    ctx.check("R-IGNORE-NO-ID", "status() derives the key from the event's test_id and route_code", status, ok, "wrong key arguments", construct=f"{Q}.status::key-args")

    # ------------------------------------------------------------------ record update
    uc = own_method(ctx, REAL, STR, "_update_case")
    def guards(node):
        """Conditions (normalised conjunct texts) that must hold for node to execute."""
        out = set()
        child = node
        p = getattr(node, "_parent", None)
        while p is not None and p is not uc:
            if isinstance(p, ast.If) and any(child is x for x in p.body):
                t = p.test
                for v in (t.values if isinstance(t, ast.BoolOp) and isinstance(t.op, ast.And) else [t]):
                    out.add(norm(v))
            elif isinstance(p, ast.If):
                out.add("<else>")
            child = p
            p = getattr(p, "_parent", None)
        return out

    calls = [c for c in walk_shallow(uc, include_self=False) if isinstance(c, ast.Call) and isinstance(c.func, ast.Attribute)]
    set_status = [c for c in calls if c.func.attr == "set" and dotted(kw_value(c, "status")) == "test_status"]
    got_ts = [c for c in calls if c.func.attr == "got_timestamp" and [dotted(a) for a in c.args] == ["timestamp"]]
    got_file = [c for c in calls if c.func.attr == "got_file" and [dotted(a) for a in c.args] == ["file_name", "file_bytes", "mime_type"]]
    set_tags = [c for c in calls if c.func.attr == "set" and ((len(c.args) == 2 and str_const(c.args[0]) == "tags" and dotted(c.args[1]) == "test_tags") or dotted(kw_value(c, "tags")) == "test_tags")]
    ctx.check("R-RECORD-UPDATE", "_update_case: status replaced iff the event carries one (last status wins)", uc,
              len(set_status) == 1 and guards(set_status[0]) == {"test_status is not None"},
              "the record's status is not set exactly when test_status is not None", construct=f"{Q}._update_case::status")
    ctx.check("R-RECORD-UPDATE", "_update_case: timestamp of every event is recorded", uc, len(got_ts) == 1 and not guards(got_ts[0]),
              "got_timestamp(timestamp) is not called unconditionally", construct=f"{Q}._update_case::timestamp")
    ctx.check("R-RECORD-UPDATE", "_update_case: non-empty file chunks are added to the named attachment", uc,
              len(got_file) == 1 and guards(got_file[0]) == {"file_name is not None", "file_bytes"},
              f"got_file is guarded by {sorted(guards(got_file[0])) if got_file else None} (must be: file_name is not None and file_bytes)", construct=f"{Q}._update_case::file")
    ctx.check("R-RECORD-UPDATE", "_update_case: tags replaced iff the event carries tags (latest tags win)", uc,
              len(set_tags) == 1 and guards(set_tags[0]) == {"test_tags is not None"},
              "the record's tags are not set exactly when test_tags is not None", construct=f"{Q}._update_case::tags")
    rec_var = uc.args.args[1].arg
    chain_ok = all(isinstance(getattr(c, "_parent", None), ast.Assign) and dotted(c._parent.targets[0]) == rec_var and dotted(c.func.value) == rec_var for c in set_status + got_ts + got_file + set_tags)
    rets = [r for r in walk_shallow(uc, include_self=False) if isinstance(r, ast.Return)]
    ctx.check("R-RECORD-UPDATE", "_update_case threads one record through all updates and returns it", uc, chain_ok and len(rets) == 1 and dotted(rets[0].value) == rec_var,
              "an update is applied to a different object or its result is discarded", construct=f"{Q}._update_case::thread")
    upd = [c for c in walk_shallow(status, include_self=False) if isinstance(c, ast.Call) and dotted(c.func) == "self._update_case"]
    ok = len(upd) == 1 and [norm(a) for a in upd[0].args] == ["self._inprogress[key]", "test_status", "test_tags", "file_name", "file_bytes", "mime_type", "timestamp"] and isinstance(
        upd[0]._parent, ast.Assign) and norm(upd[0]._parent.targets[0]) == "self._inprogress[key]"
    ctx.check("R-RECORD-UPDATE", "status() updates the record of its key with all event fields and stores it back", status, ok, "the record update call changed", construct=f"{Q}.status::update")
    rec = classes.get(REAL, "_TestRecord")
    gf = rec.own_method("got_file")
    appends = [c for c in walk_shallow(gf, include_self=False) if isinstance(c, ast.Call) and isinstance(c.func, ast.Attribute) and c.func.attr == "append"]
    ok = len(appends) == 1 and [dotted(a) for a in appends[0].args] == ["file_bytes"] and "iter_bytes()" in norm(appends[0].func.value) and not any(
        isinstance(p, (ast.If, ast.For)) for p in _ancestors(appends[0], gf))
    ctx.check("R-RECORD-UPDATE", "got_file appends every chunk to the file's list (arrival order)", gf, ok, "chunks are not appended unconditionally in arrival order", construct=f"{REAL}:_TestRecord.got_file::append")
    ok = any(isinstance(n, ast.If) and norm(n.test) == "file_name in self.details" for n in walk_shallow(gf, include_self=False)) and len(
        [c for c in ast.walk(gf) if isinstance(c, ast.Call) and dotted(c.func) == "Content"]) == 1
    ctx.check("R-RECORD-UPDATE", "one content object per file name, created on the first chunk", gf, ok, "a new content object can replace the chunks already received", construct=f"{REAL}:_TestRecord.got_file::once")
    gt = rec.own_method("got_timestamp")
    ok = any(isinstance(c, ast.Call) and dotted(c.func) == "self.set" and norm(kw_value(c, "timestamps")) == "(self.timestamps[0], timestamp)" for c in ast.walk(gt))
    ctx.check("R-RECORD-UPDATE", "got_timestamp keeps the first timestamp and replaces the last", gt, ok, "timestamps are not (first, latest)", construct=f"{REAL}:_TestRecord.got_timestamp::pair")
    cr = rec.own_method("create")
    kws = {k.arg: norm(k.value) for c in ast.walk(cr) if isinstance(c, ast.Call) and dotted(c.func) == "cls" for k in c.keywords}
    ok = kws == {"id": "test_id", "tags": "set()", "details": "{}", "status": "'unknown'", "timestamps": "(timestamp, None)"}
    ctx.check("R-RECORD-UPDATE", "a new record starts as unknown with fresh tags/details and the first timestamp", cr, ok, f"_TestRecord.create builds {kws}", construct=f"{REAL}:_TestRecord.create::fields")
    td = rec.own_method("to_dict")
    d = [n for n in ast.walk(td) if isinstance(n, ast.Dict)]
    ok = len(d) == 1 and {str_const(k): norm(v) for k, v in zip(d[0].keys, d[0].values)} == {"id": "self.id", "tags": "self.tags", "details": "self.details", "status": "self.status", "timestamps": "list(self.timestamps)"}
    ctx.check("R-RECORD-UPDATE", "to_dict exposes id, tags, details, status, timestamps", td, ok, "test dict fields changed", construct=f"{REAL}:_TestRecord.to_dict::fields")

    # ------------------------------------------------------------------ summary count
    gt_ = own_method(ctx, REAL, "StreamSummary", "_gather_test")
    g3 = cfg_of(ctx, gt_)
    lv3 = live_nodes(g3)
    ex = [n.id for n in g3.nodes if n.id in lv3 and n.kind == "test" and norm(n.ast.test).replace('"', "'") == "test_record.status == 'exists'"]
    inc = [n.id for n in g3.nodes if n.id in lv3 and n.kind == "stmt" and isinstance(n.ast, ast.AugAssign) and dotted(n.ast.target) == "self.testsRun"]
    ok = len(ex) == 1 and len(inc) == 1 and isinstance(g3.nodes[inc[0]].ast.op, ast.Add) and isinstance(g3.nodes[inc[0]].ast.value, ast.Constant) and g3.nodes[inc[0]].ast.value.value == 1
    if ok:
        tsucc = [b for b, k in g3.succ[ex[0]] if k == "true"]
        fsucc = [b for b, k in g3.succ[ex[0]] if k == "false"]
        ok = inc[0] not in g3.reach(tsucc) and g3.escape_path(fsucc, set(inc), targets=[g3.exit_return]) is None and not any(
            g3.nodes[i].kind not in ("return", "exit_return") for i in g3.reach(tsucc))
    ctx.check("R-SUMMARY-COUNT", "'exists' records return before the single testsRun += 1; all others are counted once", gt_, ok,
              "testsRun is not incremented exactly once for every record whose status is not 'exists'", construct=f"{REAL}:StreamSummary._gather_test::count")
    disp = [c for c in walk_shallow(gt_, include_self=False) if isinstance(c, ast.Call) and isinstance(c.func, ast.Subscript) and dotted(c.func.value) == "self._handle_status"]
    ok = len(disp) == 1 and norm(disp[0].func.slice) == "test_record.status" and not any(isinstance(p, (ast.If, ast.For, ast.Try)) for p in _ancestors(disp[0], gt_))
    ctx.check("R-SUMMARY-COUNT", "exactly one bucket handler, chosen by the record's status", gt_, ok, "the bucket handler is not self._handle_status[test_record.status](case), once", construct=f"{REAL}:StreamSummary._gather_test::dispatch")
    hs, hs_node = handle_status_table(ctx)
    ss = classes.get(REAL, "StreamSummary")
    bucket = {"_fail": {"errors"}, "_incomplete": {"errors"}, "_skip": {"skipped"}, "_xfail": {"expectedFailures"}, "_uxsuccess": {"unexpectedSuccesses"}, "_success": set(), "_exists": set()}
    from .c04 import self_attrs_loaded, self_lists_appended
    for h, want_lists in sorted(bucket.items()):
        f = ss.own_method(h)
        if f is None:
            raise AnalysisError(f"anchor vanished: StreamSummary.{h}")
        got = self_lists_appended(f)
        ctx.check("R-SUMMARY-COUNT", f"StreamSummary.{h} appends to {sorted(want_lists) or 'nothing'}", f, got == want_lists,
                  f"{h} appends to {sorted(got)}", construct=f"{REAL}:StreamSummary.{h}::bucket")
    want_map = {"success": "_success", "skip": "_skip", "exists": "_exists", "fail": "_fail", "xfail": "_xfail", "uxsuccess": "_uxsuccess", "unknown": "_incomplete", "inprogress": "_incomplete"}
    ctx.check("R-SUMMARY-COUNT", "status -> bucket table is the documented one", hs_node, hs == want_map, f"_handle_status is {hs}", construct=f"{REAL}:StreamSummary._handle_status::map")
    ws = ss.own_method("wasSuccessful")
    read = self_attrs_loaded(ws)
    ctx.check("R-SUMMARY-COUNT", "wasSuccessful reads the lists failed / incomplete records go to", ws, bucket["_fail"] | bucket["_incomplete"] <= read,
              f"wasSuccessful reads {sorted(read)}; failed and incomplete tests go to {sorted(bucket['_fail'] | bucket['_incomplete'])}", construct=f"{REAL}:StreamSummary.wasSuccessful::reads")

    # ------------------------------------------------------------------ status tables (exhaustiveness, shared)
    s2m, smap_node = status_map(ctx)
    finals = module_const_set(m, "FINAL_STATES")
    ctx.check("R-STATUS-TABLES", "every final state plus 'inprogress' has a bucket", hs_node, finals is not None and (finals | {"inprogress"}) <= set(hs),
              f"states without a bucket: {sorted((finals or frozenset()) | {'inprogress'} - set(hs))}", construct=f"{REAL}:StreamSummary._handle_status::exhaustive")
    ctx.check("R-STATUS-TABLES", "every replayable status has an outcome method", smap_node, finals is not None and ((finals | {"inprogress"}) - {"exists"}) <= set(s2m),
              "a status cannot be replayed", construct=f"{REAL}:_status_map::exhaustive")
    sted = own_method(ctx, REAL, "StreamToExtendedDecorator", "status")
    ok = any(isinstance(n, ast.If) and norm(n.test).replace('"', "'") == "test_status == 'exists'" and isinstance(n.body[0], ast.Return) for n in sted.body)
    ctx.check("R-STATUS-TABLES", "StreamToExtendedDecorator ignores 'exists' events (no outcome method for them)", sted, ok, "'exists' events would reach _status_map and raise KeyError", construct=f"{REAL}:StreamToExtendedDecorator.status::exists")

    # ------------------------------------------------------------------ wrappers forward
    hooks = {"StreamToDict": "self._hook", "StreamSummary": "self._hook", "StreamToExtendedDecorator": "self.hook"}
    for cname, hook in hooks.items():
        c = classes.get(REAL, cname)
        for meth in ("startTestRun", "status", "stopTestRun"):
            f = c.own_method(meth)
            if f is None:
                raise AnalysisError(f"anchor vanished: {cname}.{meth}")
            g4, exp, hit = count_on_paths(ctx, f, lambda call, meth=meth: dotted(call.func) == f"{hook}.{meth}")
            counts = exp.states_at(g4.exit_return)
            allowed = {1}
            if cname == "StreamToExtendedDecorator" and meth == "status":
                allowed = {0, 1}  # 'exists' events are dropped by design (checked above)
            ok = counts <= allowed and 1 in counts
            argok = True
            for nid in hit:
                for call in node_calls(g4.nodes[nid]):
                    if dotted(call.func) == f"{hook}.{meth}" and meth == "status":
                        va, kw = f.args.vararg, f.args.kwarg
                        named = [a.arg for a in f.args.args[1:]]
                        argok = (va is not None and any(isinstance(a, ast.Starred) and dotted(a.value) == va.arg for a in call.args)) and (
                            kw is not None and any(k.arg is None and dotted(k.value) == kw.arg for k in call.keywords)) and all(
                            any(k.arg == p and dotted(k.value) == p for k in call.keywords) or any(dotted(a) == p for a in call.args) for p in named)
            ctx.check("R-WRAPPERS-FORWARD", f"{cname}.{meth} -> {hook}.{meth} exactly once", f, ok and argok,
                      f"hook call count on returning paths {sorted(counts)}; all arguments passed: {argok}", examined=exp.size, construct=f"{REAL}:{cname}.{meth}::forward")
    for cname, cb in (("StreamToDict", "self._handle_test"), ("StreamSummary", "self._gather_test"), ("StreamToExtendedDecorator", "self._handle_tests")):
        init = own_method(ctx, REAL, cname, "__init__")
        ok = any(isinstance(cc, ast.Call) and dotted(cc.func) == STR and cc.args and dotted(cc.args[0]) == cb for cc in ast.walk(init))
        ctx.check("R-WRAPPERS-FORWARD", f"{cname}'s hook reports to {cb}", init, ok, f"{cname} no longer builds _StreamToTestRecord({cb})", construct=f"{REAL}:{cname}.__init__::hook")
    ht = own_method(ctx, REAL, "StreamToDict", "_handle_test")
    ok = [norm(c) for c in walk_shallow(ht, include_self=False) if isinstance(c, ast.Call)] == ["self.on_test(test_record.to_dict())", "test_record.to_dict()"]
    ctx.check("R-WRAPPERS-FORWARD", "StreamToDict reports each record once as a test dict", ht, ok, "StreamToDict._handle_test changed", construct=f"{REAL}:StreamToDict._handle_test::once")
    ctx.assume("dict.pop / popitem remove what they return")


def _ancestors(node, stop):
    out = []
    n = getattr(node, "_parent", None)
    while n is not None and n is not stop:
        out.append(n)
        n = getattr(n, "_parent", None)
    return out
