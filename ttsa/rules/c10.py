"""C10 -- stream consumers account for every test exactly once."""

import ast

from ..astutil import FUNC_TYPES, attr_chain, dotted, norm, walk_shallow
from ..cfg import live_nodes, node_calls
from ..flow import explore
from ..loader import AnalysisError
from .common import REAL, cfg_of, has_kw, kw_value, nodes_calling, own_method, str_const
from .streammodel import handle_status_table, module_const_set, status_map

EXPLANATION = (
    "R-REPORT-REMOVES: every argument of an on_test(...) call in _StreamToTestRecord comes from a removing "
    "accessor of the in-progress table (pop(key) / popitem()), the final-status arm is guarded by "
    "`test_status not in INTERIM_STATES` and stopTestRun is a drain loop over the table -- hence a record "
    "cannot be reported twice and none is left behind. R-IGNORE-NO-ID: _ensure_key returns a falsy key when "
    "test_id is None and status() returns before touching the table; the key is the pair (test_id, "
    "route_code). R-RECORD-UPDATE: status before timestamp before file before tags; chunks appended in "
    "arrival order to one list per file name; first/last timestamps kept. R-SUMMARY-COUNT: in "
    "StreamSummary._gather_test the 'exists' return dominates the single testsRun increment, followed by "
    "exactly one bucket handler chosen by the record's status; each handler appends to at most one list; "
    "wasSuccessful reads the lists fail/incomplete records go to. R-STATUS-TABLES (shared with C09): the "
    "dispatch is exhaustive. R-WRAPPERS-FORWARD: StreamToDict, StreamSummary and StreamToExtendedDecorator "
    "hand startTestRun / status / stopTestRun to their hook exactly once with all arguments (typestate "
    "counter). Concatenation order and timestamps as values are not decided beyond these structural facts."
)

STR = "_StreamToTestRecord"


def count_on_paths(ctx, func, pred):
    g = cfg_of(ctx, func)
    lv = live_nodes(g)
    hit = {n.id for n in g.nodes if n.id in lv and any(pred(c) for c in node_calls(n))}

    def transfer(node, st, kind, target, exp, pair):
        if node.id in hit and kind != "exc":
            return min(st + sum(1 for c in node_calls(node) if pred(c)), 2)
        return st

    exp = explore(g, 0, transfer)
    ctx.stats["states"] += exp.size
    return g, exp, hit


def run(ctx):
    ctx.rule("R-REPORT-REMOVES", "a record is reported only as it is removed from the in-progress table; the table is drained at stopTestRun")
    ctx.rule("R-IGNORE-NO-ID", "events without a test id never touch the table; records are keyed by (test_id, route_code)")
    ctx.rule("R-RECORD-UPDATE", "records keep last status, latest tags, first/last timestamps and chunks in arrival order")
    ctx.rule("R-SUMMARY-COUNT", "testsRun counts each non-'exists' record once; each record lands in exactly the bucket its status names")
    ctx.rule("R-STATUS-TABLES", "status dispatch is exhaustive")
    ctx.rule("R-WRAPPERS-FORWARD", "consumer wrappers forward each call to their hook exactly once with all arguments")
    classes = ctx.classes
    m = ctx.repo.module(REAL)
    Q = f"{REAL}:{STR}"

    # ------------------------------------------------------------------ the consumer core, on event histories
    # One test key is followed through short histories on the abstract record model (rules/recordmodel.py): what is
    # reported, when, with which fields, and whether the key is gone afterwards -- whatever helpers the code uses.
    from . import recordmodel as rm
    from ..absint import NONE as A_NONE
    E = rm.event
    T, R = ("sym", "T"), ("sym", "R")
    t1, t2, t3 = ("sym", "t1"), ("sym", "t2"), ("sym", "t3")
    T1, T3, NOTAGS = ("tags", "T1"), ("tags", "T3"), ("tags", "empty")
    f_, g_ = ("const", "f"), ("const", "g")
    b1, b2, c1, nothing = ("bytes", "b1"), ("bytes", "b2"), ("bytes", "c1"), ("bytes", "")

    def files(*entries):
        return ("files", tuple((n_, ("ctype", m_), tuple(ch)) for n_, m_, ch in entries))

    def report(status, tags, first, last, fl=files()):
        return (T, ("const", status), tags, ("tuple", first, last), fl)

    HISTORIES = [
        ("R-RECORD-UPDATE", "inprogress+tags+chunk; chunk with another mime type; final with new tags",
         [E(status=("const", "inprogress"), tags=T1, file_name=f_, file_bytes=b1, mime=("const", "m1"), ts=t1),
          E(file_name=f_, file_bytes=b2, mime=("const", "m2"), ts=t2), E(status=("const", "success"), tags=T3, ts=t3)],
         [report("success", T3, t1, t3, files((f_, ("const", "m1"), (b1, b2))))],
         "last status, latest tags, (first, reporting) timestamps, chunks in arrival order under the first content type"),
        ("R-REPORT-REMOVES", "a test left in progress is reported at stopTestRun with no end time",
         [E(status=("const", "inprogress"), tags=T1, ts=t1)], [report("inprogress", T1, t1, A_NONE)],
         "an incomplete test is reported exactly once, when the run stops, with (first timestamp, None)"),
        ("R-IGNORE-NO-ID", "an event without test id", [E(test_id=A_NONE, status=("const", "success"), ts=t1)], [],
         "events without a test id create no record and report nothing"),
        ("R-REPORT-REMOVES", "a single final event", [E(status=("const", "fail"), ts=t1)], [report("fail", NOTAGS, t1, t1)],
         "a test whose first event is final is reported at once, with fresh empty tags and details"),
        ("R-RECORD-UPDATE", "file-only events", [E(file_name=f_, file_bytes=b1, mime=("const", "m1"), ts=t1)], [report("unknown", NOTAGS, t1, A_NONE, files((f_, ("const", "m1"), (b1,))))],
         "a test that only ever sent attachments is reported as 'unknown' when the run stops"),
        ("R-RECORD-UPDATE", "an empty chunk", [E(status=("const", "inprogress"), file_name=f_, file_bytes=nothing, mime=("const", "m1"), ts=t1), E(status=("const", "success"), ts=t2)],
         [report("success", NOTAGS, t1, t2)], "empty chunks add nothing"),
        ("R-RECORD-UPDATE", "final event without tags after tagged events", [E(status=("const", "inprogress"), tags=T1, ts=t1), E(status=("const", "success"), ts=t2)],
         [report("success", T1, t1, t2)], "an event that carries no tags keeps the latest tags seen"),
        ("R-RECORD-UPDATE", "final event with an explicitly empty tag set", [E(status=("const", "inprogress"), tags=T1, ts=t1), E(status=("const", "success"), tags=NOTAGS, ts=t2)],
         [report("success", NOTAGS, t1, t2)], "an explicit empty tag set replaces earlier tags (only the most recent tags are reported)"),
        ("R-RECORD-UPDATE", "two attachments", [E(status=("const", "inprogress"), file_name=f_, file_bytes=b1, mime=("const", "m1"), ts=t1),
                                               E(file_name=g_, file_bytes=c1, mime=("const", "m2"), ts=t2), E(status=("const", "xfail"), ts=t3)],
         [report("xfail", NOTAGS, t1, t3, files((f_, ("const", "m1"), (b1,)), (g_, ("const", "m2"), (c1,))))], "each file name gets its own attachment with its own content type"),
        ("R-RECORD-UPDATE", "final event without timestamp", [E(status=("const", "inprogress"), ts=t1), E(status=("const", "success"))],
         [report("success", NOTAGS, t1, A_NONE)], "the end time is that of the reporting event, also when it carries none"),
        ("R-REPORT-REMOVES", "interim status None then final", [E(ts=t1), E(status=("const", "skip"), ts=t2)], [report("skip", NOTAGS, t1, t2)],
         "events without status are interim: nothing is reported until a final status arrives"),
    ]
    cons_status = own_method(ctx, REAL, STR, "status")
    for rule, name, hist, want, what in HISTORIES:
        states, lost = rm.run_history(ctx, hist)
        problems = set()
        if not states:
            problems.add("no path of the consumer returns normally on this history")
        for s_ in states:
            reps = s_.get("ev.reports", ())
            got = [r_[1:6] for r_ in reps]
            if s_.get("ev.problem", None):
                problems.add(s_.get("ev.problem"))
            if got != want:
                problems.add(f"reported {[(g[1], g[2], g[3], g[4]) for g in got]}; expected {[(w[1], w[2], w[3], w[4]) for w in want]}")
            if any(r_[6] != "record" for r_ in reps):
                problems.add("on_test does not receive the record")
            if any(r_[7] for r_ in reps):
                problems.add("a record is reported while its key is still in the in-progress table (it would be reported again)")
            if s_.get("tbl", False):
                problems.add("the key is still in the in-progress table after stopTestRun")
            if s_.get("ev.replaced_file", 0):
                problems.add("an attachment already received is replaced by a new content object")
        ctx.check(rule, f"history: {name}", cons_status, not problems, f"{what}: " + "; ".join(sorted(problems)), examined=len(states),
                  construct=f"{Q}::history {name}")
    # several tests in progress when the run stops: all of them are reported, none is left behind
    states, _ = rm.run_history(ctx, [E(status=("const", "inprogress"), ts=t1)], others=True)
    problems = set()
    for s_ in states:
        if s_.get("tbl", False) or s_.get("others", False):
            problems.add("tests are still in the in-progress table after stopTestRun: they are never reported")
        if len(s_.get("ev.reports", ())) != 1 or s_.get("ev.other_reports", 0) < 1:
            problems.add(f"{len(s_.get('ev.reports', ()))} report(s) for the followed test and {s_.get('ev.other_reports', 0)} for the others")
    ctx.check("R-REPORT-REMOVES", "history: several tests in progress at stopTestRun are all reported and removed", cons_status, bool(states) and not problems,
              "; ".join(sorted(problems)) or "no path returns", examined=len(states), construct=f"{Q}::history drain-all")
    # the table key distinguishes route codes
    states, _ = rm.run_history(ctx, [E(status=("const", "inprogress"), ts=t1)], stop=False)
    keys = {s_.get("ev.key", None) for s_ in states}
    ctx.check("R-IGNORE-NO-ID", "records are keyed by (test_id, route_code)", cons_status, keys == {("tuple", T, R)},
              f"the in-progress table is keyed by {sorted(map(repr, keys))}: tests with the same id arriving under different route codes would be merged", construct=f"{Q}::key")
    interim = module_const_set(m, "INTERIM_STATES")
    ctx.check("R-REPORT-REMOVES", "INTERIM_STATES = {None, 'inprogress'}", None, interim == frozenset([None, "inprogress"]), f"INTERIM_STATES is {interim}", construct=f"{REAL}::INTERIM_STATES")
    rec_cls = classes.get(REAL, "_TestRecord")
    td = rec_cls.own_method("to_dict")
    keys_ = set()
    if td is not None:
        for n in ast.walk(td):
            if isinstance(n, ast.Dict):
                keys_ |= {k.value for k in n.keys if isinstance(k, ast.Constant)}
    ctx.check("R-RECORD-UPDATE", "to_dict exposes id, tags, details, status, timestamps", td if td is not None else rec_cls.node, keys_ >= {"id", "tags", "details", "status", "timestamps"},
              f"to_dict keys {sorted(keys_)}", construct=f"{REAL}:_TestRecord.to_dict::keys")

    # ------------------------------------------------------------------ summary count
    gt_ = own_method(ctx, REAL, "StreamSummary", "_gather_test")
    from .. import effects
    ss_cls = classes.get(REAL, "StreamSummary")
    rec_param = gt_.args.args[1].arg
    count_problems, disp_problems = [], []
    for status in ("exists", "success", "skip", "fail", "xfail", "uxsuccess", "unknown", "inprogress"):
        dom_ = effects.EffectDomain(classes, attrs={f"{rec_param}.status": ("const", status)}, track_stores={"self.testsRun"},
                                    results={f"{rec_param}.to_test_case": [("case",)]})
        for r in effects.run(ctx, dom_, gt_, ss_cls, {rec_param: ("arg", "record")}):
            if r.kind != "val":
                count_problems.append(f"status {status!r}: raises {r.value!r}")
                continue
            stores = [e for e in effects.calls(r) if e[0] == "store:self.testsRun"]
            disp = [e for e in effects.calls(r) if e[0] == "dispatch:self._handle_status"]
            if len(stores) != (0 if status == "exists" else 1):
                count_problems.append(f"status {status!r}: testsRun is written {len(stores)} time(s)")
            if status == "exists":
                if disp:
                    disp_problems.append("an 'exists' record is handed to a bucket handler")
            elif len(disp) != 1 or disp[0][1][0] != ("const", status) or disp[0][1][1:] != (("case",),):
                disp_problems.append(f"status {status!r}: bucket dispatches {[(e[1][0], e[1][1:]) for e in disp]} (expected one, keyed by the record's status, with the test case)")
    incs = [n for n in ast.walk(gt_) if isinstance(n, ast.AugAssign) and dotted(n.target) == "self.testsRun"]
    inc_ok = all(isinstance(n.op, ast.Add) and isinstance(n.value, ast.Constant) and n.value.value == 1 for n in incs) and bool(incs)
    ctx.check("R-SUMMARY-COUNT", "'exists' records are not counted; every other record adds exactly one to testsRun", gt_, not count_problems and inc_ok,
              "testsRun is not incremented exactly once for every record whose status is not 'exists': " + "; ".join(sorted(set(count_problems))), construct=f"{REAL}:StreamSummary._gather_test::count")
    ctx.check("R-SUMMARY-COUNT", "exactly one bucket handler, chosen by the record's status", gt_, not disp_problems,
              "; ".join(sorted(set(disp_problems))), construct=f"{REAL}:StreamSummary._gather_test::dispatch")
    hs, hs_node = handle_status_table(ctx)
    ss = classes.get(REAL, "StreamSummary")
    bucket = {"_fail": {"errors"}, "_incomplete": {"errors"}, "_skip": {"skipped"}, "_xfail": {"expectedFailures"}, "_uxsuccess": {"unexpectedSuccesses"}, "_success": set(), "_exists": set()}
    from .c04 import self_attrs_loaded, self_lists_appended
    for h, want_lists in sorted(bucket.items()):
        f = ss.own_method(h)
        if f is None:
            raise AnalysisError(f"anchor vanished: StreamSummary.{h}")
        got = self_lists_appended(f)
        ctx.check("R-SUMMARY-COUNT", f"StreamSummary.{h} appends to {sorted(want_lists) or 'nothing'}", f, got == want_lists,
                  f"{h} appends to {sorted(got)}", construct=f"{REAL}:StreamSummary.{h}::bucket")
    want_map = {"success": "_success", "skip": "_skip", "exists": "_exists", "fail": "_fail", "xfail": "_xfail", "uxsuccess": "_uxsuccess", "unknown": "_incomplete", "inprogress": "_incomplete"}
    ctx.check("R-SUMMARY-COUNT", "status -> bucket table is the documented one", hs_node, hs == want_map, f"_handle_status is {hs}", construct=f"{REAL}:StreamSummary._handle_status::map")
    ws = ss.own_method("wasSuccessful")
    read = self_attrs_loaded(ws)
    ctx.check("R-SUMMARY-COUNT", "wasSuccessful reads the lists failed / incomplete records go to", ws, bucket["_fail"] | bucket["_incomplete"] <= read,
              f"wasSuccessful reads {sorted(read)}; failed and incomplete tests go to {sorted(bucket['_fail'] | bucket['_incomplete'])}", construct=f"{REAL}:StreamSummary.wasSuccessful::reads")

    # ------------------------------------------------------------------ status tables (exhaustiveness, shared)
    s2m, smap_node = status_map(ctx)
    finals = module_const_set(m, "FINAL_STATES")
    ctx.check("R-STATUS-TABLES", "every final state plus 'inprogress' has a bucket", hs_node, finals is not None and (finals | {"inprogress"}) <= set(hs),
              f"states without a bucket: {sorted((finals or frozenset()) | {'inprogress'} - set(hs))}", construct=f"{REAL}:StreamSummary._handle_status::exhaustive")
    ctx.check("R-STATUS-TABLES", "every replayable status has an outcome method", smap_node, finals is not None and ((finals | {"inprogress"}) - {"exists"}) <= set(s2m),
              "a status cannot be replayed", construct=f"{REAL}:_status_map::exhaustive")
    sted = own_method(ctx, REAL, "StreamToExtendedDecorator", "status")
    ok = any(isinstance(n, ast.If) and norm(n.test).replace('"', "'") == "test_status == 'exists'" and isinstance(n.body[0], ast.Return) for n in sted.body)
    ctx.check("R-STATUS-TABLES", "StreamToExtendedDecorator ignores 'exists' events (no outcome method for them)", sted, ok, "'exists' events would reach _status_map and raise KeyError", construct=f"{REAL}:StreamToExtendedDecorator.status::exists")

    # ------------------------------------------------------------------ wrappers forward
    hooks = {"StreamToDict": "self._hook", "StreamSummary": "self._hook", "StreamToExtendedDecorator": "self.hook"}
    for cname, hook in hooks.items():
        c = classes.get(REAL, cname)
        for meth in ("startTestRun", "status", "stopTestRun"):
            f = c.own_method(meth)
            if f is None:
                raise AnalysisError(f"anchor vanished: {cname}.{meth}")
            g4, exp, hit = count_on_paths(ctx, f, lambda call, meth=meth: dotted(call.func) == f"{hook}.{meth}")
            counts = exp.states_at(g4.exit_return)
            allowed = {1}
            if cname == "StreamToExtendedDecorator" and meth == "status":
                allowed = {0, 1}  # 'exists' events are dropped by design (checked above)
            ok = counts <= allowed and 1 in counts
            argok = True
            for nid in hit:
                for call in node_calls(g4.nodes[nid]):
                    if dotted(call.func) == f"{hook}.{meth}" and meth == "status":
                        va, kw = f.args.vararg, f.args.kwarg
                        named = [a.arg for a in f.args.args[1:]]
                        argok = (va is not None and any(isinstance(a, ast.Starred) and dotted(a.value) == va.arg for a in call.args)) and (
                            kw is not None and any(k.arg is None and dotted(k.value) == kw.arg for k in call.keywords)) and all(
                            any(k.arg == p and dotted(k.value) == p for k in call.keywords) or any(dotted(a) == p for a in call.args) for p in named)
            ctx.check("R-WRAPPERS-FORWARD", f"{cname}.{meth} -> {hook}.{meth} exactly once", f, ok and argok,
                      f"hook call count on returning paths {sorted(counts)}; all arguments passed: {argok}", examined=exp.size, construct=f"{REAL}:{cname}.{meth}::forward")
    for cname, cb in (("StreamToDict", "self._handle_test"), ("StreamSummary", "self._gather_test"), ("StreamToExtendedDecorator", "self._handle_tests")):
        init = own_method(ctx, REAL, cname, "__init__")
        ok = any(isinstance(cc, ast.Call) and dotted(cc.func) == STR and cc.args and dotted(cc.args[0]) == cb for cc in ast.walk(init))
        ctx.check("R-WRAPPERS-FORWARD", f"{cname}'s hook reports to {cb}", init, ok, f"{cname} no longer builds _StreamToTestRecord({cb})", construct=f"{REAL}:{cname}.__init__::hook")
    ht = own_method(ctx, REAL, "StreamToDict", "_handle_test")
    ok = [norm(c) for c in walk_shallow(ht, include_self=False) if isinstance(c, ast.Call)] == ["self.on_test(test_record.to_dict())", "test_record.to_dict()"]
    ctx.check("R-WRAPPERS-FORWARD", "StreamToDict reports each record once as a test dict", ht, ok, "StreamToDict._handle_test changed", construct=f"{REAL}:StreamToDict._handle_test::once")
    ctx.assume("dict.pop / popitem remove what they return")


def _ancestors(node, stop):
    out = []
    n = getattr(node, "_parent", None)
    while n is not None and n is not stop:
        out.append(n)
        n = getattr(n, "_parent", None)
    return out
