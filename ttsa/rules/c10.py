"""C10 -- stream consumers account for every test exactly once."""

import ast

from ..astutil import FUNC_TYPES, attr_chain, dotted, norm, walk_shallow
from ..cfg import live_nodes, node_calls
from ..flow import explore
from ..loader import AnalysisError
from .common import REAL, cfg_of, has_kw, kw_value, nodes_calling, own_method, str_const
from .streammodel import handle_status_table, module_const_set, status_map

EXPLANATION = (
    'StreamToDict, StreamSummary and StreamToExtendedDecorator are constructed and fed histories of status events '
    '(ttsa.rules.streamobjects; _StreamToTestRecord, _TestRecord and the test dicts / PlaceHolders they make are '
    'interpreted by ttsa.objects; the on_test callback snapshots what it is handed, the decorated result logs). '
    'R-REPORT-REMOVES: every test is reported exactly once -- when its final status arrives, or as incomplete at '
    'stopTestRun -- and nothing is left in the in-progress table; several tests in progress at the end are all reported. '
    'R-IGNORE-NO-ID: events without a test id change nothing; (test id, route code) is the key, so the same id under two '
    'route codes is two tests. R-RECORD-UPDATE: a record keeps the last status, the latest tags, the first and last '
    "timestamps and each attachment's chunks concatenated in arrival order. R-SUMMARY-COUNT: testsRun counts each reported "
    "test whose status is not 'exists' once, each lands in exactly the list its status names, failed and incomplete tests "
    'make wasSuccessful() false. R-STATUS-TABLES: every status a stream can carry is handled. R-WRAPPERS-FORWARD: '
    'StreamToExtendedDecorator replays each test once on the decorated result with times, tags and attachments, also when '
    "the test id is given positionally and when an 'exists' announcement arrives for a test that is under way."
)

STR = "_StreamToTestRecord"
from ..absint import FALSE as FALSE_, TRUE as TRUE_   # noqa: E402


def count_on_paths(ctx, func, pred):
    g = cfg_of(ctx, func)
    lv = live_nodes(g)
    hit = {n.id for n in g.nodes if n.id in lv and any(pred(c) for c in node_calls(n))}

    def transfer(node, st, kind, target, exp, pair):
        if node.id in hit and kind != "exc":
            return min(st + sum(1 for c in node_calls(node) if pred(c)), 2)
        return st

    exp = explore(g, 0, transfer)
    ctx.stats["states"] += exp.size
    return g, exp, hit


def _record(test_id, status, tags, first, last, files=()):
    """What on_test must receive for one test: the described _TestRecord."""
    def ctype(mime):
        # the content type a "<type>/<subtype>" MIME string stands for
        primary, _, sub = mime[1].partition("/")
        return ("object", "ContentType", (("parameters", ("kwdict", ())), ("subtype", ("const", sub)), ("type", ("const", primary))))
    details = ("kwdict", tuple((name, ("content", ctype(mime), tuple(chunks))) for name, mime, chunks in files))
    fields = {"id": test_id, "status": ("const", status), "tags": tags, "timestamps": ("tuple", first, last), "details": details}
    return ("object", "_TestRecord", tuple(sorted(fields.items())))


def _show_report(rep):
    if isinstance(rep, tuple) and rep[:2] == ("object", "_TestRecord"):
        d = dict(rep[2])
        files = [(k, v[2]) for k, v in d.get("details", ("kwdict", ()))[1]] if isinstance(d.get("details"), tuple) else d.get("details")
        return f"(id={d.get('id')}, status={d.get('status')}, tags={d.get('tags')}, timestamps={d.get('timestamps')}, attachments={files})"
    return repr(rep)


def run(ctx):
    ctx.rule("R-REPORT-REMOVES", "a record is reported only as it is removed from the in-progress table; the table is drained at stopTestRun")
    ctx.rule("R-IGNORE-NO-ID", "events without a test id never touch the table; records are keyed by (test_id, route_code)")
    ctx.rule("R-RECORD-UPDATE", "records keep last status, latest tags, first/last timestamps and chunks in arrival order")
    ctx.rule("R-SUMMARY-COUNT", "testsRun counts each non-'exists' record once; each record lands in exactly the bucket its status names")
    ctx.rule("R-STATUS-TABLES", "status dispatch is exhaustive")
    ctx.rule("R-WRAPPERS-FORWARD", "consumer wrappers forward each call to their hook exactly once with all arguments")
    classes = ctx.classes
    Q = f"{REAL}:{STR}"
    from ..absint import NONE as A_NONE
    from . import streamobjects as so
    E = so.event
    T, T2 = ("const", "pkg.T"), ("const", "pkg.T2")
    t1, t2, t3 = ("sym", "t1"), ("sym", "t2"), ("sym", "t3")
    T1, T3, NOTAGS, GIVEN_EMPTY = ("sym", "tags-1"), ("sym", "tags-3"), ("set-of", ()), ("set", ("empty",))
    f_, g_ = ("const", "f"), ("const", "g")
    b1, b2, c1, nothing = ("const", b"b1"), ("const", b"b2"), ("const", b"c1"), ("const", b"")
    m1, m2 = ("const", "text/x-one"), ("const", "text/x-two")
    IP, OK = ("const", "inprogress"), ("const", "success")

    def st_(x):
        return ("const", x)

    HISTORIES = [
        ("R-RECORD-UPDATE", "inprogress+tags+chunk; chunk with another mime type; final with new tags",
         [E(T, status=IP, tags=T1, file_name=f_, file_bytes=b1, mime=m1, ts=t1), E(T, file_name=f_, file_bytes=b2, mime=m2, ts=t2), E(T, status=OK, tags=T3, ts=t3)],
         [_record(T, "success", T3, t1, t3, [("f", m1, (b1, b2))])],
         "last status, latest tags, (first, reporting) timestamps, chunks in arrival order under the first content type"),
        ("R-REPORT-REMOVES", "a test left in progress is reported at stopTestRun with no end time",
         [E(T, status=IP, tags=T1, ts=t1)], [_record(T, "inprogress", T1, t1, A_NONE)],
         "an incomplete test is reported exactly once, when the run stops, with (first timestamp, None)"),
        ("R-IGNORE-NO-ID", "an event without test id", [E(A_NONE, status=OK, ts=t1)], [],
         "events without a test id create no record and report nothing"),
        ("R-REPORT-REMOVES", "a single final event", [E(T, status=st_("fail"), ts=t1)], [_record(T, "fail", NOTAGS, t1, t1)],
         "a test whose first event is final is reported at once, with fresh empty tags and details"),
        ("R-RECORD-UPDATE", "file-only events", [E(T, file_name=f_, file_bytes=b1, mime=m1, ts=t1)], [_record(T, "unknown", NOTAGS, t1, A_NONE, [("f", m1, (b1,))])],
         "a test that only ever sent attachments is reported as 'unknown' when the run stops"),
        ("R-RECORD-UPDATE", "an empty chunk", [E(T, status=IP, file_name=f_, file_bytes=nothing, mime=m1, ts=t1), E(T, status=OK, ts=t2)],
         [_record(T, "success", NOTAGS, t1, t2)], "empty chunks add nothing"),
        ("R-RECORD-UPDATE", "final event without tags after tagged events", [E(T, status=IP, tags=T1, ts=t1), E(T, status=OK, ts=t2)],
         [_record(T, "success", T1, t1, t2)], "an event that carries no tags keeps the latest tags seen"),
        ("R-RECORD-UPDATE", "final event with an explicitly empty tag set", [E(T, status=IP, tags=T1, ts=t1), E(T, status=OK, tags=GIVEN_EMPTY, ts=t2)],
         [_record(T, "success", NOTAGS, t1, t2)], "an explicit empty tag set replaces earlier tags (only the most recent tags are reported)"),
        ("R-RECORD-UPDATE", "two attachments", [E(T, status=IP, file_name=f_, file_bytes=b1, mime=m1, ts=t1), E(T, file_name=g_, file_bytes=c1, mime=m2, ts=t2), E(T, status=st_("xfail"), ts=t3)],
         [_record(T, "xfail", NOTAGS, t1, t3, [("f", m1, (b1,)), ("g", m2, (c1,))])], "each file name gets its own attachment with its own content type"),
        ("R-RECORD-UPDATE", "final event without timestamp", [E(T, status=IP, ts=t1), E(T, status=OK)],
         [_record(T, "success", NOTAGS, t1, A_NONE)], "the end time is that of the reporting event, also when it carries none"),
        ("R-REPORT-REMOVES", "interim status None then final", [E(T, ts=t1), E(T, status=st_("skip"), ts=t2)], [_record(T, "skip", NOTAGS, t1, t2)],
         "events without status are interim: nothing is reported until a final status arrives"),
        ("R-REPORT-REMOVES", "events after the final one start a new record", [E(T, status=OK, ts=t1), E(T, status=st_("fail"), ts=t2)],
         [_record(T, "success", NOTAGS, t1, t1), _record(T, "fail", NOTAGS, t2, t2)], "a reported test is gone from the table: what follows under the same id is a new test, reported once more, separately"),
        ("R-IGNORE-NO-ID", "the same id under two route codes", [E(T, status=IP, ts=t1, route=("const", "R1")), E(T, status=OK, ts=t2, route=("const", "R2"))],
         [_record(T, "success", NOTAGS, t2, t2), _record(T, "inprogress", NOTAGS, t1, A_NONE)], "records are keyed by (test_id, route_code): the same id arriving under another route code is another test"),
    ]
    core = classes.get(REAL, STR)
    cons_status = own_method(ctx, REAL, STR, "status")

    def run_history(cls, ctor_pos, hist, stop=True, accepting=()):
        dom = so.StreamDomain(classes, accepting=accepting or ("decorated",))
        d = so.Driver(ctx, cls, dom)
        runs = d.construct(ctor_pos)
        runs = d.call(runs, "startTestRun")
        for ev in hist:
            runs = d.call(runs, "status", kw=ev)
        if stop:
            runs = d.call(runs, "stopTestRun")
        d.done()
        return d, runs

    def table_left(r):
        """Records still in a dict attribute of the consumer (or of its hook) after the run."""
        from ..absint import unbox_deep
        left = []
        for k, v in r.state.items:
            if k.endswith("._inprogress") or k == "self._inprogress":
                v = unbox_deep(v, r.state)
                if isinstance(v, tuple) and v[:1] == ("kwdict",):
                    left.extend(v[1])
        return left

    for rule, name, hist, want, what in HISTORIES:
        d, runs = run_history(core, [so.ON_TEST], hist)
        problems = set()
        if not runs:
            problems.add("no path of the consumer returns on this history")
        for r in runs:
            if r.kind == "exc":
                problems.add(f"the consumer raises {r.value!r}")
                continue
            reps = r.state.get("ev.reports", ())
            if any(len(pos) != 1 or kw for pos, kw in reps):
                problems.add("on_test is not called with exactly the record")
            got = [pos[0] if pos else None for pos, kw in reps]
            if got != want:
                problems.add(f"reported {[_show_report(g) for g in got]}; expected {[_show_report(w) for w in want]}")
            if r.state.get("ev.reported_while_tabled", 0):
                problems.add("a record is reported while its key is still in the in-progress table (it would be reported again)")
            if table_left(r):
                problems.add("the in-progress table is not empty after stopTestRun")
        ctx.check(rule, f"history: {name}", cons_status, not problems, f"{what}: " + "; ".join(sorted(problems)), examined=len(runs), construct=f"{Q}::history {name}")
    # several tests in progress when the run stops: all of them are reported, none is left behind
    d, runs = run_history(core, [so.ON_TEST], [E(T, status=IP, ts=t1), E(T2, status=IP, ts=t2)])
    problems = set()
    for r in runs:
        if r.kind == "exc":
            problems.add(f"the consumer raises {r.value!r}")
            continue
        got = sorted(repr(pos[0]) for pos, kw in r.state.get("ev.reports", ()) if pos)
        if got != sorted(repr(x) for x in (_record(T, "inprogress", NOTAGS, t1, A_NONE), _record(T2, "inprogress", NOTAGS, t2, A_NONE))):
            problems.add(f"with two tests in progress at stopTestRun the reports are {[_show_report(pos[0]) for pos, kw in r.state.get('ev.reports', ()) if pos]}")
        if table_left(r):
            problems.add("tests are still in the in-progress table after stopTestRun: they are never reported")
    ctx.check("R-REPORT-REMOVES", "history: several tests in progress at stopTestRun are all reported and removed", cons_status, bool(runs) and not problems,
              "; ".join(sorted(problems)) or "no path returns", examined=len(runs), construct=f"{Q}::history drain-all")

    # ------------------------------------------------------------------ StreamToDict: the same accounting, reported as test dicts
    s2d = classes.get(REAL, "StreamToDict")
    d, runs = run_history(s2d, [so.ON_TEST], [E(T, status=IP, tags=T1, file_name=f_, file_bytes=b1, mime=m1, ts=t1), E(T2, status=IP, ts=t2), E(T, status=OK, ts=t3)])
    problems = set()
    for r in runs:
        if r.kind == "exc":
            problems.add(f"StreamToDict raises {r.value!r}")
            continue
        reps = [pos[0] if len(pos) == 1 and not kw else None for pos, kw in r.state.get("ev.reports", ())]
        want = []
        for rec in (_record(T, "success", T1, t1, t3, [("f", m1, (b1,))]), _record(T2, "inprogress", NOTAGS, t2, A_NONE)):
            fields = dict(rec[2])
            fields["timestamps"] = ("tuple",) + tuple(fields["timestamps"][1:])
            want.append(fields)
        got = [dict(x[1]) if isinstance(x, tuple) and x[:1] == ("kwdict",) else x for x in reps]
        if got != want:
            problems.add(f"on_test receives {reps!r}; expected one test dict (id, tags, details, status, timestamps) per test, when it completes or when the run stops")
    ctx.check("R-WRAPPERS-FORWARD", "StreamToDict reports each test once as a test dict: startTestRun / status / stopTestRun reach its record keeper with all arguments", s2d.node,
              bool(runs) and not problems, "; ".join(sorted(problems)) or "no path returns", examined=len(runs), construct=f"{REAL}:StreamToDict::end-to-end")

    # ------------------------------------------------------------------ StreamSummary: counts and buckets
    ss = classes.get(REAL, "StreamSummary")
    statuses = ["success", "skip", "exists", "fail", "xfail", "uxsuccess"]
    ids = {s_: ("const", f"pkg.T_{s_}") for s_ in statuses + ["inprogress", "unknown"]}
    hist = [E(ids[s_], status=st_(s_), ts=t1) for s_ in statuses] + [E(ids["inprogress"], status=IP, ts=t1), E(ids["unknown"], file_name=f_, file_bytes=b1, mime=m1, ts=t1)]
    d, runs = run_history(ss, [], hist)
    want_buckets = {"failures": [], "errors": ["fail", "inprogress", "unknown"], "skipped": ["skip"], "expectedFailures": ["xfail"], "unexpectedSuccesses": ["uxsuccess"]}
    count_problems, bucket_problems, table_problems = set(), set(), set()

    def case_ids(v):
        out = []
        for el in (v[1:] if isinstance(v, tuple) and v[:1] == ("tuple",) else ()):
            obj = el[1] if isinstance(el, tuple) and el[:1] == ("tuple",) and len(el) > 1 else el
            fields = dict(obj[2]) if isinstance(obj, tuple) and obj[:2] == ("object", "PlaceHolder") else {}
            out.append(next((k for k, i in ids.items() if fields.get("_test_id") == i), repr(obj)[:60]))
        return out

    for r in runs:
        if r.kind == "exc":
            table_problems.add(f"the summary raises {r.value!r} on a stream that uses every status")
            continue
        for got in d.read([r], "testsRun"):
            if got.kind != "val" or got.value != ("const", 7):
                count_problems.add(f"after 8 tests, one of them merely announced ('exists'), testsRun is {got.value!r}; expected 7")
        for name, want in want_buckets.items():
            for got in d.read([r], name):
                seen = sorted(case_ids(d.describe(got))) if got.kind == "val" else None
                if seen != sorted(want):
                    bucket_problems.add(f"{name} holds the tests {seen}; expected {sorted(want)}")
        for got in d.call([r], "wasSuccessful"):
            if got.kind != "val" or got.value != FALSE_:
                bucket_problems.add(f"wasSuccessful() is {got.value!r} after a failed and two incomplete tests")
    ctx.check("R-SUMMARY-COUNT", "'exists' records are not counted; every other record adds exactly one to testsRun", ss.node, bool(runs) and not count_problems and not table_problems,
              "; ".join(sorted(count_problems | table_problems)) or "no path returns", examined=len(runs), construct=f"{REAL}:StreamSummary._gather_test::count")
    ctx.check("R-SUMMARY-COUNT", "every test lands in exactly the list its status names (none for success / exists); failed and incomplete tests make wasSuccessful() false", ss.node,
              bool(runs) and not bucket_problems, "; ".join(sorted(bucket_problems)), examined=len(runs), construct=f"{REAL}:StreamSummary._gather_test::dispatch")
    ctx.check("R-STATUS-TABLES", "every status a stream can carry (and the 'unknown' of attachment-only tests) is handled by the summary", ss.node, bool(runs) and not table_problems,
              "; ".join(sorted(table_problems)), examined=len(runs), construct=f"{REAL}:StreamSummary._handle_status::exhaustive")
    d, runs = run_history(ss, [], [E(T, status=IP, ts=t1), E(T, status=OK, ts=t2), E(T2, status=st_("skip"), ts=t2), E(ids["exists"], status=st_("exists"), ts=t1)])
    problems = set()
    for r in runs:
        if r.kind == "exc":
            problems.add(f"the summary raises {r.value!r}")
            continue
        for got in d.call([r], "wasSuccessful"):
            if got.kind != "val" or got.value != TRUE_:
                problems.add(f"wasSuccessful() is {got.value!r} after a passed and a skipped test")
        for got in d.read([r], "testsRun"):
            if got.kind != "val" or got.value != ("const", 2):
                problems.add(f"testsRun is {got.value!r} after two tests (one reported by two events) and one announcement")
    ctx.check("R-SUMMARY-COUNT", "a run of passing and skipped tests is successful and counts each test once", ss.node, bool(runs) and not problems, "; ".join(sorted(problems)) or "no path returns",
              examined=len(runs), construct=f"{REAL}:StreamSummary::success")

    # ------------------------------------------------------------------ StreamToExtendedDecorator: one bracket per test on the decorated result
    sted = classes.get(REAL, "StreamToExtendedDecorator")
    want_outcome = {"success": "addSuccess", "skip": "addSkip", "fail": "addFailure", "xfail": "addExpectedFailure", "uxsuccess": "addUnexpectedSuccess", "inprogress": "addFailure", "unknown": "addFailure"}
    d, runs = run_history(sted, [("wobj", "decorated")], hist)
    problems, table_problems = set(), set()
    for r in runs:
        if r.kind == "exc":
            table_problems.add(f"StreamToExtendedDecorator raises {r.value!r} on a stream that uses every status")
            continue
        calls_ = so.logged(r, "decorated.")
        starts = [c_ for c_ in calls_ if c_[0] == "startTest"]
        outcomes = [c_ for c_ in calls_ if c_[0].startswith("add")]
        started = []
        for c_ in starts:
            obj = d.dom.describe(d.it, c_[1][0], r.state, d.fr) if c_[1] else None
            fields = dict(obj[2]) if isinstance(obj, tuple) and obj[:2] == ("object", "PlaceHolder") else {}
            started.append(next((k for k, i in ids.items() if fields.get("_test_id") == i), "?"))
        if sorted(started) != sorted(want_outcome):
            problems.add(f"the decorated result sees startTest for {sorted(started)}; expected each of {sorted(want_outcome)} exactly once ('exists' announcements are not tests)")
        got_oc = sorted(c_[0] for c_ in outcomes)
        if got_oc != sorted(want_outcome.values()):
            problems.add(f"the outcomes replayed are {got_oc}; expected {sorted(want_outcome.values())}")
        if len([c_ for c_ in calls_ if c_[0] == "stopTest"]) != len(starts):
            problems.add("startTest / stopTest are not paired on the decorated result")
    # nothing of an event is lost on the way through the wrappers: positional arguments, attachments, tags and times arrive
    REAL_TAGS = ("set", ("copy", ("tuple", ("const", "tag-1"))))
    d, runs = run_history(sted, [("wobj", "decorated")], [E(T, status=IP, tags=REAL_TAGS, file_name=f_, file_bytes=b1, mime=m1, ts=t1), E(T, status=OK, ts=t3)])
    for r in runs:
        if r.kind == "exc":
            problems.add(f"StreamToExtendedDecorator raises {r.value!r}")
            continue
        calls_ = so.logged(r, "decorated.")
        times = [c_[1] for c_ in calls_ if c_[0] == "time"]
        if times != [(t1,), (t3,)]:
            problems.add(f"the decorated result is told the times {times}; expected the first and the last timestamp of the test's events")
        def plain(v):
            while isinstance(v, tuple) and ((v[:1] == ("set",) and len(v) == 2) or (v[:1] == ("copy",) and len(v) == 2)):
                v = v[1]
            return v
        tagged = [d.dom._set_elements(c_[1][0]) for c_ in calls_ if c_[0] == "tags" and c_[1]]
        if tagged[:1] != [[("const", "tag-1")]]:
            problems.add(f"the tags of the test do not reach the decorated result (tags calls: {[c_[1] for c_ in calls_ if c_[0] == 'tags']})")
        for c_ in calls_:
            if c_[0] == "addSuccess":
                det = d.dom.describe(d.it, dict(c_[2]).get("details"), r.state, d.fr)
                got_files = {k: v[2] for k, v in det[1]} if isinstance(det, tuple) and det[:1] == ("kwdict",) else det
                if got_files != {"f": (b1,)}:
                    problems.add(f"the outcome is replayed with the attachments {got_files!r}; expected the chunk received for 'f'")
    # an 'exists' announcement for a test that is already under way changes nothing about it
    for stop_only in (False, True):
        hist2 = [E(T, status=IP, file_name=f_, file_bytes=b1, mime=m1, ts=t1), E(T, status=st_("exists"), ts=t2)] + ([] if stop_only else [E(T, status=OK, ts=t3)])
        d3, runs3 = run_history(sted, [("wobj", "decorated")], hist2)
        for r in runs3:
            if r.kind == "exc":
                problems.add(f"StreamToExtendedDecorator raises {r.value!r}")
                continue
            calls_ = so.logged(r, "decorated.")
            ocs = [c_ for c_ in calls_ if c_[0].startswith("add")]
            if len(ocs) != 1 or len([c_ for c_ in calls_ if c_[0] == "startTest"]) != 1:
                problems.add(f"a test announced again ('exists') while in progress is replayed {len(ocs)} time(s) ({[c_[0] for c_ in calls_]}); expected once, "
                             + ("as incomplete when the run stops" if stop_only else "when its final status arrives"))
                continue
            det = d3.dom.describe(d3.it, dict(ocs[0][2]).get("details"), r.state, d3.fr)
            got_files = {k: v[2] for k, v in det[1]} if isinstance(det, tuple) and det[:1] == ("kwdict",) else det
            if not (isinstance(got_files, dict) and got_files.get("f") == (b1,)):
                problems.add(f"the attachment received before the 'exists' announcement is lost (replayed attachments: {got_files!r})")
    for cls_, ctor in ((ss, []), (s2d, [so.ON_TEST]), (sted, [("wobj", "decorated")])):
        dom = so.StreamDomain(classes, accepting=("decorated",))
        d2 = so.Driver(ctx, cls_, dom)
        runs2 = d2.call(d2.construct(ctor), "startTestRun")
        runs2 = d2.call(runs2, "status", pos=[T, OK], kw=[("timestamp", t1)])   # test_id and test_status given positionally
        runs2 = d2.call(runs2, "stopTestRun")
        d2.done()
        for r in runs2:
            if r.kind == "exc":
                problems.add(f"{cls_.name}.status(test_id, test_status) with positional arguments raises {r.value!r}")
            elif cls_ is s2d and len(r.state.get("ev.reports", ())) != 1:
                problems.add("StreamToDict loses an event whose test id is given positionally")
            elif cls_ is sted and not any(c_[0] == "addSuccess" for c_ in so.logged(r, "decorated.")):
                problems.add("StreamToExtendedDecorator loses an event whose test id is given positionally")
            elif cls_ is ss and any(g.kind != "val" or g.value != ("const", 1) for g in d2.read([r], "testsRun")):
                problems.add("StreamSummary loses an event whose test id is given positionally")
    ctx.check("R-WRAPPERS-FORWARD", "StreamToExtendedDecorator replays every test exactly once on the decorated result, when it completes or when the run stops", sted.node,
              bool(runs) and not problems and not table_problems, "; ".join(sorted(problems | table_problems)) or "no path returns", examined=len(runs), construct=f"{REAL}:StreamToExtendedDecorator::end-to-end")
    ctx.check("R-STATUS-TABLES", "every replayable status has an outcome method; 'exists' events are ignored", sted.node, bool(runs) and not table_problems,
              "; ".join(sorted(table_problems)), examined=len(runs), construct=f"{REAL}:_status_map::exhaustive")
    ctx.assume("dict.pop / popitem remove what they return")


def _ancestors(node, stop):
    out = []
    n = getattr(node, "_parent", None)
    while n is not None and n is not stop:
        out.append(n)
        n = getattr(n, "_parent", None)
    return out
