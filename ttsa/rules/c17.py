"""C17 -- tags are scoped: test-local changes never leak, run-level changes persist."""

import ast

from ..absint import NONE, NOTNONE, TOP, TRUE, DefaultDomain, Interp, Result, State, exc, val
from ..objects import ObjectDomain
from ..alias import Aliases
from ..astutil import FUNC_TYPES, attr_chain, dotted, norm, walk_shallow
from ..loader import AnalysisError
from .common import REAL, TESTCASE, cfg_of, module_function, own_method, str_const

EXPLANATION = (
    "R-TAG-TYPESTATE: for every class that owns a TagContext chain (TestResult, "
    "ExtendedToOriginalDecorator, ExtendedToStreamDecorator, doubles.ExtendedTestResult) the methods "
    "startTestRun / startTest / stopTest / tags / current_tags are interpreted abstractly over the value "
    "of self._tags in {context of depth 0 (run level), 1, 2+, None, unset}; ALL method histories from the "
    "post-constructor state are explored to closure (the abstract state space is finite), including the "
    "start-less stopTest that unittest 3.12.1 emits for skipped tests. Required: no transition "
    "dereferences None or an unset context, stopTest never pops the run-level context, startTest/stopTest "
    "are inverse, only startTestRun replaces the run-level context. R-SIBLINGS: the implementations have "
    "identical transition tables. R-COPY-NOT-ALIAS: TagContext copies the parent's tags into a fresh set, "
    "hands out fresh sets and mutates only its own. R-TFR-TAGS: ThreadsafeForwardingResult routes tags to "
    "the per-test buffer iff a test is open, through the pure _merge_tags. R-OBSERVED-TAGS: the stream "
    "decorator sends current_tags with the final status, _update_case overwrites tags only when the event "
    "carries them, PlaceHolder applies and removes the same tag set around its bracket."
)

TAGS_MOD = "testtools.tags"
DOUBLES = "testtools.testresult.doubles"
METHODS = ["startTestRun", "startTest", "stopTest", "tags", "current_tags"]


A_TAG, B_TAG, C_TAG = ("const", "run-tag"), ("const", "test-tag"), ("const", "other-tag")
TEST = ("wobj", "test")


def tagset(*els):
    return ("set", ("copy", ("tuple",) + els))


def _show(s):
    return "{" + ", ".join(sorted(s)) + "}"


# (what is decided, the calls made on a freshly constructed result -- ("current_tags",) observes, the tags expected at each observation)
SCENARIOS = [
    ("run-level tags are visible inside a test; what the test changes is gone after it",
     [("tags", tagset(A_TAG), tagset()), ("current_tags",), ("startTest", TEST), ("current_tags",), ("tags", tagset(B_TAG), tagset(A_TAG)), ("current_tags",), ("stopTest", TEST), ("current_tags",)],
     [{"run-tag"}, {"run-tag"}, {"test-tag"}, {"run-tag"}]),
    ("a stopTest without startTest (unittest 3.12.1 emits it for skipped tests) leaves the run level in place",
     [("tags", tagset(A_TAG), tagset()), ("stopTest", TEST), ("current_tags",), ("tags", tagset(B_TAG), tagset()), ("current_tags",), ("startTest", TEST), ("stopTest", TEST), ("current_tags",)],
     [{"run-tag"}, {"run-tag", "test-tag"}, {"run-tag", "test-tag"}]),
    ("every test starts from the run-level tags, not from what the previous test left",
     [("tags", tagset(A_TAG), tagset()), ("startTest", TEST), ("tags", tagset(B_TAG), tagset()), ("stopTest", TEST), ("startTest", TEST), ("current_tags",), ("tags", tagset(C_TAG), tagset()),
      ("current_tags",), ("stopTest", TEST), ("current_tags",)],
     [{"run-tag"}, {"run-tag", "other-tag"}, {"run-tag"}]),
    ("run-level changes made between tests persist",
     [("startTest", TEST), ("stopTest", TEST), ("tags", tagset(A_TAG, B_TAG), tagset()), ("tags", tagset(), tagset(B_TAG)), ("current_tags",), ("startTest", TEST), ("current_tags",), ("stopTest", TEST)],
     [{"run-tag"}, {"run-tag"}]),
    ("startTestRun begins a run without tags",
     [("tags", tagset(A_TAG), tagset()), ("startTestRun",), ("current_tags",), ("startTest", TEST), ("current_tags",), ("stopTest", TEST)],
     [set(), set()]),
]


class TagScopeDomain(ObjectDomain):
    """The result object and its TagContext chain run as written (contexts are real instances of testtools.tags.TagContext);
    whatever the result decorates / forwards to is a symbolic object that accepts every call."""

    def __init__(self, classes):
        super().__init__(classes, attrs={"self": ("self",)}, oracle=self._oracle, lacks={("decorated", "current_tags"), ("decorated", "tags"), ("decorated", "failfast")}, log_cap=40,
                         results={"utc": [("sym", "utc")]})

    @staticmethod
    def _oracle(n, pos, kw):
        if n.startswith(("decorated.", "test.", "<")):
            return [("val", NONE)]
        return None


def run_scenarios(ctx, cls, ctor_args):
    """-> list of (scenario text, problems, number of paths)."""
    from ..absint import Frame, unbox_deep
    dom = TagScopeDomain(ctx.classes)
    dom.root_class = cls
    out = []
    for text, calls, expected in SCENARIOS:
        it = Interp(dom, max_depth=16)
        it.round_cache = {}
        holder = ast.parse("def _using_the_result():\n    pass").body[0]
        holder._module, holder._parent, holder._class = cls.node._module, cls.node._module.tree, None
        fr = Frame(holder, 0, cls, name="<a client of the result>", is_method=False)
        runs = [((), State())]
        problems = set()
        history = ["<constructed>"]
        init = dom._method(cls, "__init__")
        if init is not None:
            runs = []
            for r in dom.apply(it, ("method", "__init__"), list(ctor_args), [], State(), fr):
                if r.kind == "exc":
                    problems.add(f"the constructor raises {r.value!r}")
                else:
                    runs.append(((), r.state))
        from ..objects import is_inst
        if runs and not all(is_inst(st_.get("self._tags", None)) for _, st_ in runs):
            # a result whose constructor does not make the run-level context yet: its life begins with startTestRun
            calls = [("startTestRun",)] + list(calls)
        for call in calls:
            history.append(call[0])
            nxt = []
            for seen, st in runs:
                if call[0] == "current_tags":
                    results = dom._root_value_attr(it, "current_tags", st, fr)
                else:
                    results = dom.apply(it, ("method", call[0]), list(call[1:]), [], st, fr)
                for r in results:
                    if r.kind == "exc":
                        problems.add(f"after the calls [{' ; '.join(history[:-1])}] {call[0]} raises {r.value!r}")
                        continue
                    if call[0] == "current_tags":
                        els = dom._set_elements(unbox_deep(r.value, r.state))
                        got = None if els is None or not all(isinstance(x, tuple) and x[:1] == ("const",) for x in els) else frozenset(x[1] for x in els)
                        nxt.append((seen + (got,), r.state))
                    else:
                        nxt.append((seen, r.state))
            runs = nxt
        if not runs and not problems:
            problems.add("no path of the scenario returns")
        for seen, _ in runs:
            for i, (got, want) in enumerate(zip(seen, expected)):
                if got is None:
                    problems.add(f"observation {i + 1}: current_tags could not be followed to a set of tags")
                elif set(got) != want:
                    problems.add(f"observation {i + 1} of [{' ; '.join(c[0] for c in calls)}]: current_tags is {_show(got)}, expected {_show(want)}")
        ctx.stats["states"] += it.steps
        for f_ in it.functions:
            ctx.analysed(f_)
        out.append((text, sorted(problems), max(len(runs), 1), tuple(tuple(sorted(x)) if x is not None else None for x in (runs[0][0] if runs else ()))))
    return out


def run(ctx):
    ctx.rule("R-TAG-TYPESTATE", "over all method histories: no None/unset dereference, stopTest never pops the run level, push/pop inverse")
    ctx.rule("R-SIBLINGS", "the TagContext-owning implementations have identical transition tables")
    ctx.rule("R-COPY-NOT-ALIAS", "TagContext copies, never aliases, tag sets")
    ctx.rule("R-TFR-TAGS", "ThreadsafeForwardingResult routes tags to the per-test buffer iff a test is open")
    ctx.rule("R-OBSERVED-TAGS", "observers see the tags current at the outcome; placeholder tags are applied and removed symmetrically")
    classes = ctx.classes
    owners = [(REAL, "TestResult", []), (REAL, "ExtendedToOriginalDecorator", [("wobj", "decorated")]), (REAL, "ExtendedToStreamDecorator", [("wobj", "decorated")]), (DOUBLES, "ExtendedTestResult", [])]
    observed = {}
    for mod, name, ctor_args in owners:
        cls = classes.get(mod, name)
        for text, problems, n, seen in run_scenarios(ctx, cls, ctor_args):
            observed.setdefault(text, {})[name] = seen
            ctx.check("R-TAG-TYPESTATE", f"{name}: {text}", cls.node, not problems, f"{name}: " + "; ".join(problems), examined=n, construct=f"{mod}:{name}::{text}")
    ctx.floor("R-TAG-TYPESTATE", 20, "scenarios")
    for mod, name, _ in owners[1:]:
        diffs = [text for text, per in observed.items() if per.get(name) != per.get("TestResult")]
        ctx.check("R-SIBLINGS", f"{name} agrees with TestResult on what current_tags shows in every scenario", classes.get(mod, name).node, not diffs,
                  f"{name} and TestResult disagree in: {diffs[:3]}", construct=f"{name}::agrees-with-TestResult")

    # ------------------------------------------------------------------ TagContext copies
    # Decided on abstract runs over symbolic sets: which set object a context ends up with / hands out, and what it
    # contains as a set expression -- whatever sequence of set operations the code uses.
    from .. import effects
    tcx = classes.get(TAGS_MOD, "TagContext")
    PARENT, OWN, NEWT, GONET = ("wobj", "p"), ("sym", "own"), ("arg", "new"), ("arg", "gone")
    PTAGS = ("ret", "p", "get_current_tags")

    def canon(e):
        """Set expression without the copies (a copy has the same members)."""
        if isinstance(e, tuple) and e[:1] == ("set",) and len(e) == 2:
            return canon(e[1])
        if isinstance(e, tuple) and e[:1] == ("copy",) and len(e) == 2:
            return canon(e[1])
        if isinstance(e, tuple) and e[:1] in (("union",), ("minus",), ("meet",)):
            l_, r_ = canon(e[1]), canon(e[2])
            if e[0] == "union" and l_ == ("empty",):
                return r_
            if e[0] == "union" and r_ == ("empty",):
                return l_
            return (e[0], l_, r_)
        return e

    def members(e, inside):
        """Is an element a member of the set expression, given for each symbolic leaf whether it is in that leaf?  (None: not decided)"""
        if e in inside:
            return inside[e]
        if not isinstance(e, tuple) or not e:
            return None
        if e[:1] == ("set",) and len(e) == 2:
            return members(e[1], inside)
        if e == ("empty",) or e == ("tuple",):
            return False
        if e[:1] == ("copy",) and len(e) == 2:
            return members(e[1], inside)
        if e[:1] in (("union",), ("minus",), ("meet",)) and len(e) == 3:
            l_, r_ = members(e[1], inside), members(e[2], inside)
            if l_ is None or r_ is None:
                return None
            return (l_ or r_) if e[0] == "union" else (l_ and not r_) if e[0] == "minus" else (l_ and r_)
        return None

    def same_set(e, leaves, want):
        """The set expression denotes want(...) for every way an element can lie in the symbolic leaves."""
        import itertools
        for bits in itertools.product((False, True), repeat=len(leaves)):
            if members(e, dict(zip(leaves, bits))) is not want(*bits):
                return False
        return True

    def tc_run(name, argv, state):
        f = tcx.own_method(name)
        if not isinstance(f, FUNC_TYPES):
            raise AnalysisError(f"anchor vanished: TagContext.{name}")
        dom = ObjectDomain(classes, attrs={"self": ("self",)})
        return f, effects.run(ctx, dom, f, tcx, argv, state=State(state), depth=4)

    def fresh_set(v):
        return isinstance(v, tuple) and v[:1] == ("set",)

    init, res = tc_run("__init__", {"parent": PARENT}, [])
    normal = [r for r in res if r.kind == "val"]
    ok = bool(normal) and all(fresh_set(r.state.get("self._tags", None)) for r in normal)
    ctx.check("R-COPY-NOT-ALIAS", "TagContext.__init__ starts from a fresh set", init, ok, "a new context shares its tag set with another object", examined=len(res),
              construct=f"{TAGS_MOD}:TagContext.__init__::fresh")
    got = {repr(canon(r.state.get("self._tags", None))) for r in normal}
    ctx.check("R-COPY-NOT-ALIAS", "TagContext.__init__ copies the parent's current tags", init, bool(normal) and all(same_set(r.state.get("self._tags", None), [PTAGS], lambda p_: p_) for r in normal),
              f"a child context starts with {sorted(got)} instead of a copy of parent.get_current_tags() (tags current before the test would be invisible inside it)",
              examined=len(res), construct=f"{TAGS_MOD}:TagContext.__init__::copy-parent")
    ok = bool(normal) and all(r.state.get("self.parent", None) == PARENT for r in normal)
    _, res0 = tc_run("__init__", {"parent": NONE}, [])
    normal0 = [r for r in res0 if r.kind == "val"]
    ok0 = bool(normal0) and all(r.state.get("self.parent", None) == NONE and fresh_set(r.state.get("self._tags", None)) and same_set(r.state.get("self._tags"), [], lambda: False) for r in normal0)
    ctx.check("R-COPY-NOT-ALIAS", "TagContext remembers its parent; a root context starts empty", init, ok and ok0,
              "self.parent is not the parent context, or a context without parent does not start with a fresh empty set", examined=len(res) + len(res0),
              construct=f"{TAGS_MOD}:TagContext.__init__::parent")
    g, res = tc_run("get_current_tags", {}, [("self._tags", ("set", OWN))])
    normal = [r for r in res if r.kind == "val"]
    ok = bool(normal) and all(fresh_set(r.value) and r.value != ("set", OWN) and same_set(r.value, [OWN], lambda o_: o_) and r.state.get("self._tags") == ("set", OWN) for r in normal)
    ctx.check("R-COPY-NOT-ALIAS", "get_current_tags returns a fresh set with the context's tags", g, ok,
              "get_current_tags hands out the context's own set (callers could change the context's tags) or not the current tags", examined=len(res),
              construct=f"{TAGS_MOD}:TagContext.get_current_tags::fresh")
    ch_, res = tc_run("change_tags", {"new_tags": NEWT, "gone_tags": GONET}, [("self._tags", ("set", OWN))])
    normal = [r for r in res if r.kind == "val"]
    want = ("minus", ("union", OWN, NEWT), GONET)
    got = {repr(canon(r.state.get("self._tags", None))) for r in normal}
    rets = {repr(canon(r.value)) for r in normal}
    expected = lambda o_, n_, g_: (o_ or n_) and not g_
    ok = bool(normal) and all(same_set(r.state.get("self._tags", None), [OWN, NEWT, GONET], expected) and same_set(r.value, [OWN, NEWT, GONET], expected)
                              and fresh_set(r.value) and r.value != r.state.get("self._tags") for r in normal)
    ctx.check("R-COPY-NOT-ALIAS", "change_tags adds the new tags, then removes the gone tags, on its own set, and returns a copy of the result", ch_, ok,
              f"after change_tags the context holds {sorted(got)} and returns {sorted(rets)}; expected (own | new_tags) - gone_tags, returned as a fresh set", examined=len(res),
              construct=f"{TAGS_MOD}:TagContext.change_tags::ops")

    # ------------------------------------------------------------------ TFR routing
    # Decided on abstract runs of the forwarder (rules/tfrmodel.py): which buffer a tags() call changes, what the
    # per-test block replays -- whatever helpers, loops or inverted tests the code uses.
    from . import tfrmodel as tm
    tf, problems, n = tm.tag_routing_problems(ctx)
    ctx.check("R-TFR-TAGS", "tags() records the change in the per-test buffer iff a test is open, else in the run-level buffer, and in the forwarder's own context", tf,
              not problems, "; ".join(problems), examined=n, construct=f"{REAL}:ThreadsafeForwardingResult.tags::route")
    helper, problems, n = tm.tag_replay_problems(ctx)
    ctx.check("R-TFR-TAGS", "the block replays the run-level buffer, then the test's own buffer, unmerged (test-local changes win)", helper, not problems,
              "; ".join(problems) + ": the target sees tags that differ from the reporter's current_tags at the outcome", examined=n,
              construct=f"{REAL}:ThreadsafeForwardingResult._add_result_with_semaphore::tags-order")

    # ------------------------------------------------------------------ observed tags
    conv = own_method(ctx, REAL, "ExtendedToStreamDecorator", "_convert")
    etsd = classes.get(REAL, "ExtendedToStreamDecorator")
    CUR = ("sym", "current-tags")
    dom = ObjectDomain(classes, attrs={"self": ("self",), "self.current_tags": CUR, "self._started": TRUE}, track=lambda d: d == "self.status", results={"self._now": [("sym", "now")]})
    res = effects.run(ctx, dom, conv, etsd, {"test": ("wobj", "test"), "err": NONE, "details": NONE, "status": ("const", "success"), "reason": NONE}, state=State(), depth=3)
    problems = set()
    for r in res:
        if r.kind != "val":
            continue
        finals = [c_ for c_ in effects.calls(r, "self.status") if any(k == "test_status" and v != NONE for k, v in c_[2])]
        if len(finals) != 1:
            problems.add(f"{len(finals)} final status events are sent for one outcome")
        elif dict(finals[0][2]).get("test_tags") != CUR:
            problems.add(f"the final status event carries test_tags={dict(finals[0][2]).get('test_tags', 'nothing')!r} instead of self.current_tags")
    ctx.check("R-OBSERVED-TAGS", "final status event carries the tags current at the outcome", conv, bool(res) and not problems,
              "; ".join(sorted(problems)) or "no path explored", examined=len(res), construct=f"{REAL}:ExtendedToStreamDecorator._convert::final-tags")
    from . import streamobjects as so
    core = classes.get(REAL, "_StreamToTestRecord")
    T1, T3 = ("sym", "tags-1"), ("sym", "tags-3")
    IP, OK = ("const", "inprogress"), ("const", "success")
    problems = set()
    n = 0
    for name, hist, want in [
        ("tags on an interim event, none on the final one", [so.event(status=IP, tags=T1), so.event(status=OK)], T1),
        ("tags on both events", [so.event(status=IP, tags=T1), so.event(status=OK, tags=T3)], T3),
        ("tags on the final event only", [so.event(status=IP), so.event(status=OK, tags=T3)], T3),
    ]:
        d = so.Driver(ctx, core, so.StreamDomain(classes))
        runs = d.call(d.construct([so.ON_TEST]), "startTestRun")
        for ev in hist:
            runs = d.call(runs, "status", kw=ev)
        runs = d.call(runs, "stopTestRun")
        d.done()
        n += len(runs)
        if not runs:
            problems.add(f"{name}: no path returns normally")
        for r in runs:
            if r.kind == "exc":
                problems.add(f"{name}: the consumer raises {r.value!r}")
                continue
            got = [dict(pos[0][2]).get("tags") if pos and isinstance(pos[0], tuple) and pos[0][:1] == ("object",) else None for pos, kw in r.state.get("ev.reports", ())]
            if got != [want]:
                problems.add(f"{name}: the record is reported with tags {got}, expected [{want}]")
    ctx.check("R-OBSERVED-TAGS", "a record's tags are the latest tags an event carried", core.node, not problems,
              "; ".join(sorted(problems)) + " (an event without tags would erase them, or tags would never be taken)", examined=n, construct=f"{REAL}:_StreamToTestRecord._update_case::latest-tags")
    from .common import EMPTY_SET, PH_TAGS, placeholder_runs
    ph, logs, n = placeholder_runs(ctx)
    problems = set()
    if not logs:
        problems.add("no path of PlaceHolder.run returns normally")
    for log in logs:
        names = [c_[0] for c_ in log]
        tg = [(i, c_[1]) for i, c_ in enumerate(log) if c_[0] == "tags"]
        if "startTest" not in names or "stopTest" not in names:
            problems.add(f"the placeholder does not bracket its outcome with startTest / stopTest (calls {names})")
            continue
        before = [a_ for i, a_ in tg if i < names.index("startTest")]
        inside = [a_ for i, a_ in tg if names.index("startTest") < i < names.index("stopTest")]
        after = [a_ for i, a_ in tg if i > names.index("stopTest")]
        if before != [(PH_TAGS, EMPTY_SET)]:
            problems.add(f"before startTest the placeholder sends tags{before}: expected exactly tags(its tags, set()) so that the test sees them from the start")
        if inside:
            problems.add(f"tags are changed inside the test bracket ({inside})")
        if after != [(EMPTY_SET, PH_TAGS)]:
            problems.add(f"after stopTest the placeholder sends tags{after}: expected exactly tags(set(), its tags) so that its tags do not leak into later tests")
    ctx.check("R-OBSERVED-TAGS", "PlaceHolder.run: add tags, startTest, stopTest, remove the same tags", ph, not problems,
              "; ".join(sorted(problems)), examined=n, construct=f"{TESTCASE}:PlaceHolder.run::tag-symmetry")
    ctx.assume("TagContext is only reached through self._tags of the owning result (no other references are kept)")
