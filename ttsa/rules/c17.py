"""C17 -- tags are scoped: test-local changes never leak, run-level changes persist."""

import ast

from ..absint import NONE, NOTNONE, TOP, TRUE, DefaultDomain, Interp, Result, State, exc, val
from ..alias import Aliases
from ..astutil import FUNC_TYPES, attr_chain, dotted, norm, walk_shallow
from ..loader import AnalysisError
from .common import REAL, TESTCASE, cfg_of, module_function, own_method, str_const

EXPLANATION = (
    "R-TAG-TYPESTATE: for every class that owns a TagContext chain (TestResult, "
    "ExtendedToOriginalDecorator, ExtendedToStreamDecorator, doubles.ExtendedTestResult) the methods "
    "startTestRun / startTest / stopTest / tags / current_tags are interpreted abstractly over the value "
    "of self._tags in {context of depth 0 (run level), 1, 2+, None, unset}; ALL method histories from the "
    "post-constructor state are explored to closure (the abstract state space is finite), including the "
    "start-less stopTest that unittest 3.12.1 emits for skipped tests. Required: no transition "
    "dereferences None or an unset context, stopTest never pops the run-level context, startTest/stopTest "
    "are inverse, only startTestRun replaces the run-level context. R-SIBLINGS: the implementations have "
    "identical transition tables. R-COPY-NOT-ALIAS: TagContext copies the parent's tags into a fresh set, "
    "hands out fresh sets and mutates only its own. R-TFR-TAGS: ThreadsafeForwardingResult routes tags to "
    "the per-test buffer iff a test is open, through the pure _merge_tags. R-OBSERVED-TAGS: the stream "
    "decorator sends current_tags with the final status, _update_case overwrites tags only when the event "
    "carries them, PlaceHolder applies and removes the same tag set around its bracket."
)

TAGS_MOD = "testtools.tags"
DOUBLES = "testtools.testresult.doubles"
METHODS = ["startTestRun", "startTest", "stopTest", "tags", "current_tags"]


def ctx_val(depth, root="R"):
    return ("ctx", min(depth, 2), root)


def normalise_root(st):
    """Name the current chain's root 'R' (identity of the run-level context)."""
    v = st.get("self._tags", None)
    if isinstance(v, tuple) and v and v[0] == "ctx":
        return st.set("self._tags", ("ctx", v[1], "R"))
    return st


class TagDomain(DefaultDomain):
    def __init__(self, classes, cls):
        self.classes = classes
        self.cls = cls

    def truth(self, v):
        if isinstance(v, tuple) and v and v[0] in ("ctx", "ctx-deep"):
            return "T"
        return super().truth(v)

    def is_none(self, v):
        if isinstance(v, tuple) and v and v[0] in ("ctx", "ctx-deep"):
            return "F"
        return super().is_none(v)

    # The context is followed by value: through self._tags, through a local holding it, through `.parent`.
    def _base(self, chain, st, fr):
        """-> (value of the longest context-valued prefix of ``chain``, remaining names) or None."""
        if len(chain) >= 2 and chain[0] == "self" and chain[1] == "_tags":
            return st.get("self._tags", "Unset"), chain[2:]
        if chain and chain[0] != "self":
            key = fr.local(chain[0])
            if st.has(key):
                v = st.get(key)
                if (isinstance(v, tuple) and v and v[0] in ("ctx", "ctx-deep")) or v in (NONE, "Unset"):
                    return v, chain[1:]
        return None

    @staticmethod
    def _parent_of(cur):
        if cur[0] == "ctx-deep":
            return ("ctx-deep",)
        if cur[1] == 0:
            return NONE  # the run-level context has no parent
        if cur[1] == 1:
            return ctx_val(0, cur[2])
        return ("ctx-deep",)

    def load_attr_multi(self, chain, st, fr):
        b = self._base(chain, st, fr)
        if b is None:
            return None
        cur, rest = b
        if not rest:
            return [val(cur, st)]
        for i, name in enumerate(rest):
            if not (isinstance(cur, tuple) and cur and cur[0] in ("ctx", "ctx-deep")):
                what = ".".join(chain[:len(chain) - len(rest) + i])
                return [exc(("AttributeError", f"{what} is {cur} in {fr.name}"), st.set("ev.deref", f"{fr.name}: {what}.{name} with {what} = {cur}"))]
            if name == "parent":
                cur = self._parent_of(cur)
            else:
                return [val(TOP, st)]
        return [val(cur, st)]

    def load_attr(self, chain, st, fr):
        return None

    def call(self, interp, call, st, fr):
        d = dotted(call.func)
        ch = attr_chain(call.func)
        if d == "TagContext":
            out = []
            for r in interp.eval_list(list(call.args), st, fr):
                if r.kind == "exc":
                    out.append(r)
                    continue
                fresh = "fresh@" + fr.name
                if not r.value:
                    out.append(val(ctx_val(0, fresh), r.state))
                else:
                    p = r.value[0]
                    if isinstance(p, tuple) and p[0] == "ctx":
                        out.append(val(ctx_val(p[1] + 1, p[2]), r.state))
                    elif p == NONE:
                        out.append(val(ctx_val(0, fresh), r.state.set("ev.root_replaced", 1)))
                    else:
                        out.append(val(ctx_val(0, fresh), r.state.set("ev.bad_parent", repr(p))))
            return out
        b = self._base(ch[:-1], st, fr) if ch and len(ch) >= 2 else None
        if b is not None and (b[1] or ch[0] != "self" or len(ch) == 3):
            # a method of the context reached through self._tags / a local / .parent
            out = []
            for r0 in self.load_attr_multi(ch[:-1], st, fr):
                if r0.kind == "exc":
                    out.append(r0)
                    continue
                cur = r0.value
                for r in interp.eval_list(list(call.args), r0.state, fr):
                    if r.kind == "exc":
                        out.append(r)
                    elif isinstance(cur, tuple) and cur and cur[0] in ("ctx", "ctx-deep"):
                        out.append(val(TOP, r.state))
                    else:
                        what = ".".join(ch[:-1])
                        out.append(exc(("AttributeError", f"{what} is {cur} in {fr.name}"), r.state.set("ev.deref", f"{fr.name}: {what}.{ch[-1]}() with {what} = {cur}")))
            return out
        if ch and ch[0] in ("self", "super()") and len(ch) == 2 and fr.receiver is not None:
            if ch[0] == "self":
                owner, f = self.classes.resolve_method(fr.receiver, ch[1])
            else:
                here = None
                for k in self.classes.mro(fr.receiver):
                    if getattr(fr.func, "_class", None) is k.node:
                        here = k
                owner, f = self.classes.resolve_method(fr.receiver, ch[1], after=here) if here else (None, None)
            if isinstance(f, FUNC_TYPES) and owner is not None and not owner.external and ch[1] in ("startTestRun", "startTest", "stopTest", "tags", "__init__"):
                params = [p.arg for p in f.args.args][1:]
                out = []
                for r in interp.eval_list(list(call.args), st, fr):
                    if r.kind == "exc":
                        out.append(r)
                        continue
                    argvals = {params[i]: v for i, v in enumerate(r.value) if i < len(params)}
                    out.extend(interp.inline(f, argvals, r.state, fr, receiver=fr.receiver))
                return out
        if d and d.endswith(".startTestRun") and ch and ch[0] in ("TestResult",) and fr.receiver is not None:
            # TestResult.startTestRun(self) in __init__
            ci = self.classes.get(REAL, "TestResult")
            f = ci.own_method("startTestRun")
            return interp.inline(f, {}, st, fr, receiver=fr.receiver)
        # everything else is opaque and total here
        out = []
        for r in interp.eval_list([a.value if isinstance(a, ast.Starred) else a for a in call.args] + [k.value for k in call.keywords], st, fr):
            out.append(r if r.kind == "exc" else val(TOP, r.state))
        return out

    def store_attr(self, key, value, st, fr):
        if key == "self._tags":
            return st.set(key, value)
        if key in ("self._started",):
            return st.set(key, value)
        return st  # other attributes are irrelevant to the typestate

    def raised_value(self, stmt, value, st, fr):
        return ("raised", norm(stmt.exc)[:30])


def project(st):
    return (st.get("self._tags", "Unset"), st.get("self._started", "-"))


def explore_class(ctx, cls, init_via):
    """All method histories over the abstract tag state; returns (transitions, problems)."""
    classes = ctx.classes
    dom = TagDomain(classes, cls)
    it = Interp(dom, max_depth=6)
    # initial state: run the constructor abstractly
    start = set()
    init_owner, init_f = classes.resolve_method(cls, "__init__")
    if isinstance(init_f, FUNC_TYPES) and init_owner is not None and not init_owner.external:
        for r in it.analyze(init_f, {}, State(), receiver=cls, name="__init__"):
            if r.kind == "val":
                start.add(normalise_root(State([(k, v) for k, v in r.state.items if k in ("self._tags", "self._started")])))
    else:
        start.add(State())
    # classes whose constructor does not create the context start after startTestRun
    if any(not s.has("self._tags") for s in start):
        owner, f = classes.resolve_method(cls, "startTestRun")
        nxt = set()
        for s in start:
            for r in Interp(dom, max_depth=6).analyze(f, {}, s, receiver=cls, name="startTestRun"):
                if r.kind == "val":
                    nxt.add(normalise_root(State([(k, v) for k, v in r.state.items if k in ("self._tags", "self._started")])))
        start = nxt
        prefix = ("startTestRun",)
    else:
        prefix = ()
    transitions = {}
    problems = []
    seen = set()
    work = [(s, prefix, False) for s in start]
    while work:
        s, hist, tainted = work.pop()
        key = project(s)
        if (key, tainted) in seen:
            continue
        seen.add((key, tainted))
        for m in METHODS:
            cur = key[0]
            # well-formed histories do not nest tests
            if m == "startTest" and isinstance(cur, tuple) and cur[0] == "ctx" and cur[1] >= 1:
                continue

            def depth(v):
                return v[1] if isinstance(v, tuple) and v and v[0] == "ctx" else None

            def root(v):
                return v[2] if isinstance(v, tuple) and v and v[0] == "ctx" else None
            owner, f = classes.resolve_method(cls, m)
            if not isinstance(f, FUNC_TYPES):
                continue
            it2 = Interp(dom, max_depth=6)
            res = it2.analyze(f, {}, s, receiver=cls, name=m)
            ctx.stats["states"] += it2.steps
            for fn in it2.functions:
                ctx.analysed(fn)
            for r in res:
                s2 = State([(k, v) for k, v in r.state.items if k in ("self._tags", "self._started")])
                deref = r.state.get("ev.deref", None)
                transitions.setdefault((key, m), set()).add((project(s2), "raise" if r.kind == "exc" else "ok"))
                h2 = hist + (m,)
                t2 = tainted
                before, after = key[0], project(s2)[0]
                if m == "startTestRun" and r.kind == "val":
                    s2 = normalise_root(s2)
                    after = project(s2)[0]
                if r.kind == "val" and m == "stopTest" and depth(before) == 0 and depth(after) != 0:
                    problems.append(("pop-root", h2, f"stopTest with the run-level context current (a start-less stopTest, as unittest 3.12.1 emits for skipped "
                                     f"tests) leaves self._tags = {after}: the run-level tags are lost"
                                     + (" and current_tags / tags() raise AttributeError afterwards" if after == NONE else ""), f))
                    t2 = True
                if not tainted:
                    # consequences of an earlier pop of the run-level context are not reported again
                    if deref:
                        problems.append(("deref", h2, deref, f))
                    if r.kind == "val":
                        if m != "startTestRun" and depth(before) is not None and depth(after) is not None and root(after) != root(before):
                            problems.append(("new-root", h2, f"{m} replaces the run-level context by a new one ({root(after)}): run-level tags are lost", f))
                        if m == "stopTest" and depth(before) == 1 and depth(after) != 0:
                            problems.append(("pop", h2, f"stopTest inside a test leaves self._tags = {after} instead of the run-level context", f))
                        if m == "startTest" and depth(before) == 0 and depth(after) != 1:
                            problems.append(("push", h2, f"startTest at run level gives {after} instead of a child context", f))
                        if m == "startTestRun" and depth(after) != 0:
                            problems.append(("reset", h2, f"startTestRun leaves self._tags = {after}", f))
                        if m in ("tags", "current_tags") and after != before:
                            problems.append(("context-replaced", h2, f"{m} replaces the context ({before} -> {after})", f))
                        if m in ("startTest", "stopTest", "tags", "current_tags") and r.state.get("ev.root_replaced", 0):
                            problems.append(("new-root", h2, f"{m} builds a fresh root context from a None parent", f))
                if r.kind == "val" and len(h2) < 9:
                    work.append((s2, h2, t2))
    return transitions, problems, seen


def run(ctx):
    ctx.rule("R-TAG-TYPESTATE", "over all method histories: no None/unset dereference, stopTest never pops the run level, push/pop inverse")
    ctx.rule("R-SIBLINGS", "the TagContext-owning implementations have identical transition tables")
    ctx.rule("R-COPY-NOT-ALIAS", "TagContext copies, never aliases, tag sets")
    ctx.rule("R-TFR-TAGS", "ThreadsafeForwardingResult routes tags to the per-test buffer iff a test is open")
    ctx.rule("R-OBSERVED-TAGS", "observers see the tags current at the outcome; placeholder tags are applied and removed symmetrically")
    classes = ctx.classes
    owners = [(REAL, "TestResult"), (REAL, "ExtendedToOriginalDecorator"), (REAL, "ExtendedToStreamDecorator"), (DOUBLES, "ExtendedTestResult")]
    tables = {}
    for mod, name in owners:
        cls = classes.get(mod, name)
        trans, problems, seen = explore_class(ctx, cls, None)
        tables[name] = trans
        reported = set()
        for kind, hist, msg, f in problems:
            owner_f = getattr(f, "_class", None)
            key = (kind, f.name)
            if key in reported:
                continue
            reported.add(key)
            ctx.check("R-TAG-TYPESTATE", f"{name}: {kind} after history {' ; '.join(hist)}", f, False,
                      f"{name}: after the calls [{' ; '.join(hist)}] {msg}", path=list(hist),
                      construct=f"{mod}:{name}.{f.name}::{kind}")
        for (state, m), outs in sorted(trans.items(), key=repr):
            bad = [p for p in problems if p[1][-1] == m]
            ctx.check("R-TAG-TYPESTATE", f"{name}: state {state[0]} --{m}--> {sorted(set(o[0][0] for o in outs), key=repr)}", cls.node,
                      True, examined=len(outs), construct=f"{mod}:{name}::trans {state} {m}")
        ctx.check("R-TAG-TYPESTATE", f"{name}: {len(seen)} abstract states, {len(trans)} transitions explored to closure", cls.node, len(trans) >= 5,
                  "implausibly small state space (model broken?)", examined=len(trans), construct=f"{mod}:{name}::closure")
    ctx.floor("R-TAG-TYPESTATE", 30, "transitions")

    # ------------------------------------------------------------------ siblings
    def normalise(t):
        out = {}
        for (state, m), outs in t.items():
            if isinstance(state[0], tuple) and state[0][0] == "ctx":
                out[(state[0], m)] = {(o[0][0], o[1]) for o in outs}
        return out

    ref_name = "TestResult"
    ref = normalise(tables[ref_name])
    for name in ("ExtendedToOriginalDecorator", "ExtendedToStreamDecorator", "ExtendedTestResult"):
        other = normalise(tables[name])
        diffs = []
        for k in sorted(set(ref) & set(other), key=repr):
            if k[1] in ("startTest", "stopTest", "startTestRun") and ref[k] != other[k]:
                diffs.append(f"{k[0]} --{k[1]}--> {sorted(ref[k], key=repr)} vs {sorted(other[k], key=repr)}")
        ctx.check("R-SIBLINGS", f"{name} agrees with {ref_name} on push / pop / reset", classes.get(REAL if name != "ExtendedTestResult" else DOUBLES, name).node,
                  not diffs, f"{name} and {ref_name} disagree: {diffs[:3]}", construct=f"{name}::agrees-with-TestResult")

    # ------------------------------------------------------------------ TagContext copies
    # Decided on abstract runs over symbolic sets: which set object a context ends up with / hands out, and what it
    # contains as a set expression -- whatever sequence of set operations the code uses.
    from .. import effects
    tcx = classes.get(TAGS_MOD, "TagContext")
    PARENT, OWN, NEWT, GONET = ("wobj", "p"), ("sym", "own"), ("arg", "new"), ("arg", "gone")
    PTAGS = ("ret", "p", "get_current_tags")

    def canon(e):
        """Set expression without the copies (a copy has the same members)."""
        if isinstance(e, tuple) and e[:1] == ("set",) and len(e) == 2:
            return canon(e[1])
        if isinstance(e, tuple) and e[:1] == ("copy",) and len(e) == 2:
            return canon(e[1])
        if isinstance(e, tuple) and e[:1] in (("union",), ("minus",), ("meet",)):
            l_, r_ = canon(e[1]), canon(e[2])
            if e[0] == "union" and l_ == ("empty",):
                return r_
            if e[0] == "union" and r_ == ("empty",):
                return l_
            return (e[0], l_, r_)
        return e

    def tc_run(name, argv, state):
        f = tcx.own_method(name)
        if not isinstance(f, FUNC_TYPES):
            raise AnalysisError(f"anchor vanished: TagContext.{name}")
        dom = effects.EffectDomain(classes, attrs={"self": ("self",)})
        return f, effects.run(ctx, dom, f, tcx, argv, state=State(state), depth=4)

    def fresh_set(v):
        return isinstance(v, tuple) and v[:1] == ("set",)

    init, res = tc_run("__init__", {"parent": PARENT}, [])
    normal = [r for r in res if r.kind == "val"]
    ok = bool(normal) and all(fresh_set(r.state.get("self._tags", None)) for r in normal)
    ctx.check("R-COPY-NOT-ALIAS", "TagContext.__init__ starts from a fresh set", init, ok, "a new context shares its tag set with another object", examined=len(res),
              construct=f"{TAGS_MOD}:TagContext.__init__::fresh")
    got = {repr(canon(r.state.get("self._tags", None))) for r in normal}
    ctx.check("R-COPY-NOT-ALIAS", "TagContext.__init__ copies the parent's current tags", init, got == {repr(PTAGS)},
              f"a child context starts with {sorted(got)} instead of a copy of parent.get_current_tags() (tags current before the test would be invisible inside it)",
              examined=len(res), construct=f"{TAGS_MOD}:TagContext.__init__::copy-parent")
    ok = bool(normal) and all(r.state.get("self.parent", None) == PARENT for r in normal)
    _, res0 = tc_run("__init__", {"parent": NONE}, [])
    normal0 = [r for r in res0 if r.kind == "val"]
    ok0 = bool(normal0) and all(r.state.get("self.parent", None) == NONE and fresh_set(r.state.get("self._tags", None)) and canon(r.state.get("self._tags")) == ("empty",) for r in normal0)
    ctx.check("R-COPY-NOT-ALIAS", "TagContext remembers its parent; a root context starts empty", init, ok and ok0,
              "self.parent is not the parent context, or a context without parent does not start with a fresh empty set", examined=len(res) + len(res0),
              construct=f"{TAGS_MOD}:TagContext.__init__::parent")
    g, res = tc_run("get_current_tags", {}, [("self._tags", ("set", OWN))])
    normal = [r for r in res if r.kind == "val"]
    ok = bool(normal) and all(fresh_set(r.value) and r.value != ("set", OWN) and canon(r.value) == OWN and r.state.get("self._tags") == ("set", OWN) for r in normal)
    ctx.check("R-COPY-NOT-ALIAS", "get_current_tags returns a fresh set with the context's tags", g, ok,
              "get_current_tags hands out the context's own set (callers could change the context's tags) or not the current tags", examined=len(res),
              construct=f"{TAGS_MOD}:TagContext.get_current_tags::fresh")
    ch_, res = tc_run("change_tags", {"new_tags": NEWT, "gone_tags": GONET}, [("self._tags", ("set", OWN))])
    normal = [r for r in res if r.kind == "val"]
    want = ("minus", ("union", OWN, NEWT), GONET)
    got = {repr(canon(r.state.get("self._tags", None))) for r in normal}
    rets = {repr(canon(r.value)) for r in normal}
    ok = bool(normal) and got == {repr(want)} and rets == {repr(want)} and all(fresh_set(r.value) and r.value != r.state.get("self._tags") for r in normal)
    ctx.check("R-COPY-NOT-ALIAS", "change_tags adds the new tags, then removes the gone tags, on its own set, and returns a copy of the result", ch_, ok,
              f"after change_tags the context holds {sorted(got)} and returns {sorted(rets)}; expected (own | new_tags) - gone_tags, returned as a fresh set", examined=len(res),
              construct=f"{TAGS_MOD}:TagContext.change_tags::ops")

    # ------------------------------------------------------------------ TFR routing
    # Decided on abstract runs of the forwarder (rules/tfrmodel.py): which buffer a tags() call changes, what the
    # per-test block replays -- whatever helpers, loops or inverted tests the code uses.
    from . import tfrmodel as tm
    tf, problems, n = tm.tag_routing_problems(ctx)
    ctx.check("R-TFR-TAGS", "tags() records the change in the per-test buffer iff a test is open, else in the run-level buffer, and in the forwarder's own context", tf,
              not problems, "; ".join(problems), examined=n, construct=f"{REAL}:ThreadsafeForwardingResult.tags::route")
    helper, problems, n = tm.tag_replay_problems(ctx)
    ctx.check("R-TFR-TAGS", "the block replays the run-level buffer, then the test's own buffer, unmerged (test-local changes win)", helper, not problems,
              "; ".join(problems) + ": the target sees tags that differ from the reporter's current_tags at the outcome", examined=n,
              construct=f"{REAL}:ThreadsafeForwardingResult._add_result_with_semaphore::tags-order")

    # ------------------------------------------------------------------ observed tags
    conv = own_method(ctx, REAL, "ExtendedToStreamDecorator", "_convert")
    etsd = classes.get(REAL, "ExtendedToStreamDecorator")
    CUR = ("sym", "current-tags")
    dom = effects.EffectDomain(classes, attrs={"self": ("self",), "self.current_tags": CUR, "self._started": TRUE}, track=lambda d: d == "self.status", results={"self._now": [("sym", "now")]})
    res = effects.run(ctx, dom, conv, etsd, {"test": ("wobj", "test"), "err": NONE, "details": NONE, "status": ("const", "success"), "reason": NONE}, state=State(), depth=3)
    problems = set()
    for r in res:
        if r.kind != "val":
            continue
        finals = [c_ for c_ in effects.calls(r, "self.status") if any(k == "test_status" and v != NONE for k, v in c_[2])]
        if len(finals) != 1:
            problems.add(f"{len(finals)} final status events are sent for one outcome")
        elif dict(finals[0][2]).get("test_tags") != CUR:
            problems.add(f"the final status event carries test_tags={dict(finals[0][2]).get('test_tags', 'nothing')!r} instead of self.current_tags")
    ctx.check("R-OBSERVED-TAGS", "final status event carries the tags current at the outcome", conv, bool(res) and not problems,
              "; ".join(sorted(problems)) or "no path explored", examined=len(res), construct=f"{REAL}:ExtendedToStreamDecorator._convert::final-tags")
    uc = own_method(ctx, REAL, "_StreamToTestRecord", "_update_case")
    from . import recordmodel as rm
    T1, T3 = ("tags", "T1"), ("tags", "T3")
    problems = set()
    n = 0
    for name, hist, want in [
        ("tags on an interim event, none on the final one", [rm.event(status=("const", "inprogress"), tags=T1), rm.event(status=("const", "success"))], T1),
        ("tags on both events", [rm.event(status=("const", "inprogress"), tags=T1), rm.event(status=("const", "success"), tags=T3)], T3),
        ("tags on the final event only", [rm.event(status=("const", "inprogress")), rm.event(status=("const", "success"), tags=T3)], T3),
    ]:
        states, _ = rm.run_history(ctx, hist)
        n += len(states)
        if not states:
            problems.add(f"{name}: no path returns normally")
        for s_ in states:
            got = [r_[3] for r_ in s_.get("ev.reports", ())]
            if got != [want]:
                problems.add(f"{name}: the record is reported with tags {got}, expected [{want}]")
    ctx.check("R-OBSERVED-TAGS", "a record's tags are the latest tags an event carried", uc, not problems,
              "; ".join(sorted(problems)) + " (an event without tags would erase them, or tags would never be taken)", examined=n, construct=f"{REAL}:_StreamToTestRecord._update_case::latest-tags")
    from .common import EMPTY_SET, PH_TAGS, placeholder_runs
    ph, logs, n = placeholder_runs(ctx)
    problems = set()
    if not logs:
        problems.add("no path of PlaceHolder.run returns normally")
    for log in logs:
        names = [c_[0] for c_ in log]
        tg = [(i, c_[1]) for i, c_ in enumerate(log) if c_[0] == "tags"]
        if "startTest" not in names or "stopTest" not in names:
            problems.add(f"the placeholder does not bracket its outcome with startTest / stopTest (calls {names})")
            continue
        before = [a_ for i, a_ in tg if i < names.index("startTest")]
        inside = [a_ for i, a_ in tg if names.index("startTest") < i < names.index("stopTest")]
        after = [a_ for i, a_ in tg if i > names.index("stopTest")]
        if before != [(PH_TAGS, EMPTY_SET)]:
            problems.add(f"before startTest the placeholder sends tags{before}: expected exactly tags(its tags, set()) so that the test sees them from the start")
        if inside:
            problems.add(f"tags are changed inside the test bracket ({inside})")
        if after != [(EMPTY_SET, PH_TAGS)]:
            problems.add(f"after stopTest the placeholder sends tags{after}: expected exactly tags(set(), its tags) so that its tags do not leak into later tests")
    ctx.check("R-OBSERVED-TAGS", "PlaceHolder.run: add tags, startTest, stopTest, remove the same tags", ph, not problems,
              "; ".join(sorted(problems)), examined=n, construct=f"{TESTCASE}:PlaceHolder.run::tag-symmetry")
    ctx.assume("TagContext is only reached through self._tags of the owning result (no other references are kept)")
