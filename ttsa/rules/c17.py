"""C17 -- tags are scoped: test-local changes never leak, run-level changes persist."""

import ast

from ..absint import NONE, NOTNONE, TOP, DefaultDomain, Interp, Result, State, exc, val
from ..alias import Aliases
from ..astutil import FUNC_TYPES, attr_chain, dotted, norm, walk_shallow
from ..loader import AnalysisError
from .common import REAL, TESTCASE, cfg_of, module_function, own_method, str_const

EXPLANATION = (
    "R-TAG-TYPESTATE: for every class that owns a TagContext chain (TestResult, "
    "ExtendedToOriginalDecorator, ExtendedToStreamDecorator, doubles.ExtendedTestResult) the methods "
    "startTestRun / startTest / stopTest / tags / current_tags are interpreted abstractly over the value "
    "of self._tags in {context of depth 0 (run level), 1, 2+, None, unset}; ALL method histories from the "
    "post-constructor state are explored to closure (the abstract state space is finite), including the "
    "start-less stopTest that unittest 3.12.1 emits for skipped tests. Required: no transition "
    "dereferences None or an unset context, stopTest never pops the run-level context, startTest/stopTest "
    "are inverse, only startTestRun replaces the run-level context. R-SIBLINGS: the implementations have "
    "identical transition tables. R-COPY-NOT-ALIAS: TagContext copies the parent's tags into a fresh set, "
    "hands out fresh sets and mutates only its own. R-TFR-TAGS: ThreadsafeForwardingResult routes tags to "
    "the per-test buffer iff a test is open, through the pure _merge_tags. R-OBSERVED-TAGS: the stream "
    "decorator sends current_tags with the final status, _update_case overwrites tags only when the event "
    "carries them, PlaceHolder applies and removes the same tag set around its bracket."
)

TAGS_MOD = "testtools.tags"
DOUBLES = "testtools.testresult.doubles"
METHODS = ["startTestRun", "startTest", "stopTest", "tags", "current_tags"]


def ctx_val(depth, root="R"):
    return ("ctx", min(depth, 2), root)


def normalise_root(st):
    """Name the current chain's root 'R' (identity of the run-level context)."""
    v = st.get("self._tags", None)
    if isinstance(v, tuple) and v and v[0] == "ctx":
        return st.set("self._tags", ("ctx", v[1], "R"))
    return st


class TagDomain(DefaultDomain):
    def __init__(self, classes, cls):
        self.classes = classes
        self.cls = cls

    def truth(self, v):
        if isinstance(v, tuple) and v and v[0] == "ctx":
            return "T"
        return super().truth(v)

    def is_none(self, v):
        if isinstance(v, tuple) and v and v[0] == "ctx":
            return "F"
        return super().is_none(v)

    def load_attr(self, chain, st, fr):
        if len(chain) == 3 and chain[0] == "self" and chain[1] == "_tags" and chain[2] == "parent":
            cur = st.get("self._tags", "Unset")
            if isinstance(cur, tuple) and cur[0] == "ctx":
                if cur[1] == 0:
                    return NONE  # the run-level context has no parent
                if cur[1] == 1:
                    return ctx_val(0, cur[2])
                return ("ctx-deep",)
            return ("deref", cur)
        if len(chain) == 2 and chain[0] == "self" and chain[1] == "_tags":
            if not st.has("self._tags"):
                return "Unset"
        return None

    def call(self, interp, call, st, fr):
        d = dotted(call.func)
        ch = attr_chain(call.func)
        if d == "TagContext":
            out = []
            for r in interp.eval_list(list(call.args), st, fr):
                if r.kind == "exc":
                    out.append(r)
                    continue
                fresh = "fresh@" + fr.name
                if not r.value:
                    out.append(val(ctx_val(0, fresh), r.state))
                else:
                    p = r.value[0]
                    if isinstance(p, tuple) and p[0] == "ctx":
                        out.append(val(ctx_val(p[1] + 1, p[2]), r.state))
                    elif p == NONE:
                        out.append(val(ctx_val(0, fresh), r.state.set("ev.root_replaced", 1)))
                    else:
                        out.append(val(ctx_val(0, fresh), r.state.set("ev.bad_parent", repr(p))))
            return out
        if ch and len(ch) == 3 and ch[:2] == ["self", "_tags"]:
            cur = st.get("self._tags", "Unset")
            out = []
            for r in interp.eval_list(list(call.args), st, fr):
                if r.kind == "exc":
                    out.append(r)
                elif isinstance(cur, tuple) and cur[0] == "ctx":
                    out.append(val(TOP, r.state))
                else:
                    out.append(exc(("AttributeError", f"self._tags is {cur} in {fr.name}"), r.state.set("ev.deref", f"{fr.name}: self._tags.{ch[2]}() with self._tags = {cur}")))
            return out
        if ch and ch[0] in ("self", "super()") and len(ch) == 2 and fr.receiver is not None:
            if ch[0] == "self":
                owner, f = self.classes.resolve_method(fr.receiver, ch[1])
            else:
                here = None
                for k in self.classes.mro(fr.receiver):
                    if getattr(fr.func, "_class", None) is k.node:
                        here = k
                owner, f = self.classes.resolve_method(fr.receiver, ch[1], after=here) if here else (None, None)
            if isinstance(f, FUNC_TYPES) and owner is not None and not owner.external and ch[1] in ("startTestRun", "startTest", "stopTest", "tags", "__init__"):
                params = [p.arg for p in f.args.args][1:]
                out = []
                for r in interp.eval_list(list(call.args), st, fr):
                    if r.kind == "exc":
                        out.append(r)
                        continue
                    argvals = {params[i]: v for i, v in enumerate(r.value) if i < len(params)}
                    out.extend(interp.inline(f, argvals, r.state, fr, receiver=fr.receiver))
                return out
        if d and d.endswith(".startTestRun") and ch and ch[0] in ("TestResult",) and fr.receiver is not None:
            # TestResult.startTestRun(self) in __init__
            ci = self.classes.get(REAL, "TestResult")
            f = ci.own_method("startTestRun")
            return interp.inline(f, {}, st, fr, receiver=fr.receiver)
        # everything else is opaque and total here
        out = []
        for r in interp.eval_list([a.value if isinstance(a, ast.Starred) else a for a in call.args] + [k.value for k in call.keywords], st, fr):
            out.append(r if r.kind == "exc" else val(TOP, r.state))
        return out

    def store_attr(self, key, value, st, fr):
        if key == "self._tags":
            if isinstance(value, tuple) and value and value[0] == "deref":
                return st.set("ev.deref", f"{fr.name}: self._tags.parent with self._tags = {value[1]}").set(key, TOP)
            return st.set(key, value)
        if key in ("self._started",):
            return st.set(key, value)
        return st  # other attributes are irrelevant to the typestate

    def raised_value(self, stmt, value, st, fr):
        return ("raised", norm(stmt.exc)[:30])


def project(st):
    return (st.get("self._tags", "Unset"), st.get("self._started", "-"))


def explore_class(ctx, cls, init_via):
    """All method histories over the abstract tag state; returns (transitions, problems)."""
    classes = ctx.classes
    dom = TagDomain(classes, cls)
    it = Interp(dom, max_depth=6)
    # initial state: run the constructor abstractly
    start = set()
    init_owner, init_f = classes.resolve_method(cls, "__init__")
    if isinstance(init_f, FUNC_TYPES) and init_owner is not None and not init_owner.external:
        for r in it.analyze(init_f, {}, State(), receiver=cls, name="__init__"):
            if r.kind == "val":
                start.add(normalise_root(State([(k, v) for k, v in r.state.items if k in ("self._tags", "self._started")])))
    else:
        start.add(State())
    # classes whose constructor does not create the context start after startTestRun
    if any(not s.has("self._tags") for s in start):
        owner, f = classes.resolve_method(cls, "startTestRun")
        nxt = set()
        for s in start:
            for r in Interp(dom, max_depth=6).analyze(f, {}, s, receiver=cls, name="startTestRun"):
                if r.kind == "val":
                    nxt.add(normalise_root(State([(k, v) for k, v in r.state.items if k in ("self._tags", "self._started")])))
        start = nxt
        prefix = ("startTestRun",)
    else:
        prefix = ()
    transitions = {}
    problems = []
    seen = set()
    work = [(s, prefix, False) for s in start]
    while work:
        s, hist, tainted = work.pop()
        key = project(s)
        if (key, tainted) in seen:
            continue
        seen.add((key, tainted))
        for m in METHODS:
            cur = key[0]
            # well-formed histories do not nest tests
            if m == "startTest" and isinstance(cur, tuple) and cur[0] == "ctx" and cur[1] >= 1:
                continue

            def depth(v):
                return v[1] if isinstance(v, tuple) and v and v[0] == "ctx" else None

            def root(v):
                return v[2] if isinstance(v, tuple) and v and v[0] == "ctx" else None
            owner, f = classes.resolve_method(cls, m)
            if not isinstance(f, FUNC_TYPES):
                continue
            it2 = Interp(dom, max_depth=6)
            res = it2.analyze(f, {}, s, receiver=cls, name=m)
            ctx.stats["states"] += it2.steps
            for fn in it2.functions:
                ctx.analysed(fn)
            for r in res:
                s2 = State([(k, v) for k, v in r.state.items if k in ("self._tags", "self._started")])
                deref = r.state.get("ev.deref", None)
                transitions.setdefault((key, m), set()).add((project(s2), "raise" if r.kind == "exc" else "ok"))
                h2 = hist + (m,)
                t2 = tainted
                before, after = key[0], project(s2)[0]
                if m == "startTestRun" and r.kind == "val":
                    s2 = normalise_root(s2)
                    after = project(s2)[0]
                if r.kind == "val" and m == "stopTest" and depth(before) == 0 and depth(after) != 0:
                    problems.append(("pop-root", h2, f"stopTest with the run-level context current (a start-less stopTest, as unittest 3.12.1 emits for skipped "
                                     f"tests) leaves self._tags = {after}: the run-level tags are lost"
                                     + (" and current_tags / tags() raise AttributeError afterwards" if after == NONE else ""), f))
                    t2 = True
                if not tainted:
                    # consequences of an earlier pop of the run-level context are not reported again
                    if deref:
                        problems.append(("deref", h2, deref, f))
                    if r.kind == "val":
                        if m != "startTestRun" and depth(before) is not None and depth(after) is not None and root(after) != root(before):
                            problems.append(("new-root", h2, f"{m} replaces the run-level context by a new one ({root(after)}): run-level tags are lost", f))
                        if m == "stopTest" and depth(before) == 1 and depth(after) != 0:
                            problems.append(("pop", h2, f"stopTest inside a test leaves self._tags = {after} instead of the run-level context", f))
                        if m == "startTest" and depth(before) == 0 and depth(after) != 1:
                            problems.append(("push", h2, f"startTest at run level gives {after} instead of a child context", f))
                        if m == "startTestRun" and depth(after) != 0:
                            problems.append(("reset", h2, f"startTestRun leaves self._tags = {after}", f))
                        if m in ("tags", "current_tags") and after != before:
                            problems.append(("context-replaced", h2, f"{m} replaces the context ({before} -> {after})", f))
                        if m in ("startTest", "stopTest", "tags", "current_tags") and r.state.get("ev.root_replaced", 0):
                            problems.append(("new-root", h2, f"{m} builds a fresh root context from a None parent", f))
                if r.kind == "val" and len(h2) < 9:
                    work.append((s2, h2, t2))
    return transitions, problems, seen


def run(ctx):
    ctx.rule("R-TAG-TYPESTATE", "over all method histories: no None/unset dereference, stopTest never pops the run level, push/pop inverse")
    ctx.rule("R-SIBLINGS", "the TagContext-owning implementations have identical transition tables")
    ctx.rule("R-COPY-NOT-ALIAS", "TagContext copies, never aliases, tag sets")
    ctx.rule("R-TFR-TAGS", "ThreadsafeForwardingResult routes tags to the per-test buffer iff a test is open")
    ctx.rule("R-OBSERVED-TAGS", "observers see the tags current at the outcome; placeholder tags are applied and removed symmetrically")
    classes = ctx.classes
    owners = [(REAL, "TestResult"), (REAL, "ExtendedToOriginalDecorator"), (REAL, "ExtendedToStreamDecorator"), (DOUBLES, "ExtendedTestResult")]
    tables = {}
    for mod, name in owners:
        cls = classes.get(mod, name)
        trans, problems, seen = explore_class(ctx, cls, None)
        tables[name] = trans
        reported = set()
        for kind, hist, msg, f in problems:
            owner_f = getattr(f, "_class", None)
            key = (kind, f.name)
            if key in reported:
                continue
            reported.add(key)
            ctx.check("R-TAG-TYPESTATE", f"{name}: {kind} after history {' ; '.join(hist)}", f, False,
                      f"{name}: after the calls [{' ; '.join(hist)}] {msg}", path=list(hist),
                      construct=f"{mod}:{name}.{f.name}::{kind}")
        for (state, m), outs in sorted(trans.items(), key=repr):
            bad = [p for p in problems if p[1][-1] == m]
            ctx.check("R-TAG-TYPESTATE", f"{name}: state {state[0]} --{m}--> {sorted(set(o[0][0] for o in outs), key=repr)}", cls.node,
                      True, examined=len(outs), construct=f"{mod}:{name}::trans {state} {m}")
        ctx.check("R-TAG-TYPESTATE", f"{name}: {len(seen)} abstract states, {len(trans)} transitions explored to closure", cls.node, len(trans) >= 5,
                  "implausibly small state space (model broken?)", examined=len(trans), construct=f"{mod}:{name}::closure")
    ctx.floor("R-TAG-TYPESTATE", 30, "transitions")

    # ------------------------------------------------------------------ siblings
    def normalise(t):
        out = {}
        for (state, m), outs in t.items():
            if isinstance(state[0], tuple) and state[0][0] == "ctx":
                out[(state[0], m)] = {(o[0][0], o[1]) for o in outs}
        return out

    ref_name = "TestResult"
    ref = normalise(tables[ref_name])
    for name in ("ExtendedToOriginalDecorator", "ExtendedToStreamDecorator", "ExtendedTestResult"):
        other = normalise(tables[name])
        diffs = []
        for k in sorted(set(ref) & set(other), key=repr):
            if k[1] in ("startTest", "stopTest", "startTestRun") and ref[k] != other[k]:
                diffs.append(f"{k[0]} --{k[1]}--> {sorted(ref[k], key=repr)} vs {sorted(other[k], key=repr)}")
        ctx.check("R-SIBLINGS", f"{name} agrees with {ref_name} on push / pop / reset", classes.get(REAL if name != "ExtendedTestResult" else DOUBLES, name).node,
                  not diffs, f"{name} and {ref_name} disagree: {diffs[:3]}", construct=f"{name}::agrees-with-TestResult")

    # ------------------------------------------------------------------ TagContext copies
    tcx = classes.get(TAGS_MOD, "TagContext")
    init = tcx.own_method("__init__")
    fresh = [n for n in walk_shallow(init, include_self=False) if isinstance(n, ast.Assign) and dotted(n.targets[0]) == "self._tags"]
    a = Aliases(init)
    ok = len(fresh) == 1 and a.of(fresh[0].value) <= {("fresh",)}
    ctx.check("R-COPY-NOT-ALIAS", "TagContext.__init__ starts from a fresh set", init, ok, "a new context shares its tag set with another object", construct=f"{TAGS_MOD}:TagContext.__init__::fresh")
    copies = [c for c in walk_shallow(init, include_self=False) if isinstance(c, ast.Call) and dotted(c.func) == "self._tags.update" and c.args and "parent.get_current_tags()" in norm(c.args[0])]
    ctx.check("R-COPY-NOT-ALIAS", "TagContext.__init__ copies the parent's current tags", init, len(copies) == 1,
              "the parent's tags are not copied into the child (tags current before the test would be invisible inside it)", construct=f"{TAGS_MOD}:TagContext.__init__::copy-parent")
    stores_parent = any(isinstance(n, ast.Assign) and dotted(n.targets[0]) == "self.parent" and dotted(n.value) == "parent" for n in walk_shallow(init, include_self=False))
    ctx.check("R-COPY-NOT-ALIAS", "TagContext remembers its parent", init, stores_parent, "self.parent is not the parent context", construct=f"{TAGS_MOD}:TagContext.__init__::parent")
    g = tcx.own_method("get_current_tags")
    rets = [r for r in walk_shallow(g, include_self=False) if isinstance(r, ast.Return)]
    ag = Aliases(g)
    ok = bool(rets) and all(ag.of(r.value) <= {("fresh",)} for r in rets)
    ctx.check("R-COPY-NOT-ALIAS", "get_current_tags returns a fresh set", g, ok, "get_current_tags hands out the context's own set: callers could change the context's tags", construct=f"{TAGS_MOD}:TagContext.get_current_tags::fresh")
    ch_ = tcx.own_method("change_tags")
    ac = Aliases(ch_)
    muts = list(ac.mutations())
    bad = [m for m in muts if ac.caller_owned(ac.of(m[1]))]
    own = [m for m in muts if ac.of(m[1]) == {("self", "_tags")}]
    ops = [(norm(m[0].func).split(".")[-1], dotted(m[0].args[0])) for m in own if isinstance(m[0], ast.Call) and m[0].args]
    p1, p2 = [x.arg for x in ch_.args.args[1:3]]
    ctx.check("R-COPY-NOT-ALIAS", "change_tags adds new tags then removes gone tags on its own set only", ch_, not bad and ops == [("update", p1), ("difference_update", p2)],
              f"change_tags operations {ops}; mutates caller objects: {bool(bad)}", construct=f"{TAGS_MOD}:TagContext.change_tags::ops")

    # ------------------------------------------------------------------ TFR routing
    tf = own_method(ctx, REAL, "ThreadsafeForwardingResult", "tags")
    ok = False
    for n in walk_shallow(tf, include_self=False):
        if isinstance(n, ast.If) and norm(n.test) == "self._test_start is not None":
            t_ok = any(isinstance(s, ast.Assign) and dotted(s.targets[0]) == "self._test_tags" and isinstance(s.value, ast.Call) and dotted(s.value.func) == "_merge_tags" and dotted(s.value.args[0]) == "self._test_tags" for s in n.body)
            g_ok = any(isinstance(s, ast.Assign) and dotted(s.targets[0]) == "self._global_tags" and isinstance(s.value, ast.Call) and dotted(s.value.func) == "_merge_tags" and dotted(s.value.args[0]) == "self._global_tags" for s in n.orelse)
            ok = t_ok and g_ok
    ctx.check("R-TFR-TAGS", "tags() routes to the per-test buffer iff a test is open, else to the run-level buffer", tf, ok,
              "ThreadsafeForwardingResult.tags no longer routes by `self._test_start is not None` through _merge_tags", construct=f"{REAL}:ThreadsafeForwardingResult.tags::route")
    ok = any(isinstance(c, ast.Call) and dotted(c.func) == "super().tags" for c in walk_shallow(tf, include_self=False))
    ctx.check("R-TFR-TAGS", "tags() also updates the forwarder's own context", tf, ok, "current_tags of the forwarder would not reflect the change", construct=f"{REAL}:ThreadsafeForwardingResult.tags::own-context")

    helper = own_method(ctx, REAL, "ThreadsafeForwardingResult", "_add_result_with_semaphore")
    gh = cfg_of(ctx, helper)
    from ..cfg import live_nodes as _live
    from .common import nodes_calling as _nc
    lvh = _live(gh)

    def tags_of(buf):
        return _nc(gh, lambda c: dotted(c.func) == "self.result.tags" and len(c.args) == 1 and isinstance(c.args[0], ast.Starred) and dotted(c.args[0].value) == buf, lvh)

    gg, gt = tags_of("self._global_tags"), tags_of("self._test_tags")
    others = [n for n in _nc(gh, lambda c: dotted(c.func) == "self.result.tags", lvh) if n not in gg + gt]
    ok = len(gg) == 1 and len(gt) == 1 and not others and not (set(gh.reach(gh.after(gt[0]))) & set(gg))
    ctx.check("R-TFR-TAGS", "the block forwards the run-level buffer, then the test's own buffer, unmerged (test-local changes win)", helper, ok,
              "the forwarded tags are not tags(*self._global_tags) followed by tags(*self._test_tags): a test-local change can be overridden by a run-level one, "
              "so the target sees tags that differ from the reporter's current_tags at the outcome", construct=f"{REAL}:ThreadsafeForwardingResult._add_result_with_semaphore::tags-order")

    # ------------------------------------------------------------------ observed tags
    conv = own_method(ctx, REAL, "ExtendedToStreamDecorator", "_convert")
    finals = [c for c in walk_shallow(conv, include_self=False) if isinstance(c, ast.Call) and dotted(c.func) == "self.status" and any(k.arg == "test_status" for k in c.keywords)]
    ok = len(finals) == 1 and any(k.arg == "test_tags" and dotted(k.value) == "self.current_tags" for k in finals[0].keywords)
    ctx.check("R-OBSERVED-TAGS", "final status event carries the tags current at the outcome", conv, ok,
              "the final status event does not pass test_tags=self.current_tags", construct=f"{REAL}:ExtendedToStreamDecorator._convert::final-tags")
    uc = own_method(ctx, REAL, "_StreamToTestRecord", "_update_case")
    ok = any(isinstance(n, ast.If) and norm(n.test) == "test_tags is not None" and any(isinstance(s, ast.Assign) and "set('tags', test_tags)" in norm(s.value).replace('"', "'") for s in n.body) and not n.orelse
             for n in walk_shallow(uc, include_self=False))
    ctx.check("R-OBSERVED-TAGS", "a record's tags are overwritten only when the event carries tags", uc, ok,
              "_update_case no longer keeps the latest tags seen (an event without tags would erase them, or tags would never be taken)", construct=f"{REAL}:_StreamToTestRecord._update_case::latest-tags")
    ph = own_method(ctx, TESTCASE, "PlaceHolder", "run")
    g = cfg_of(ctx, ph)
    from ..cfg import live_nodes, node_calls
    lv = live_nodes(g)
    seq = []
    for n in sorted((n for n in g.nodes if n.id in lv and n.kind == "stmt"), key=lambda n: n.line):
        for c in node_calls(n):
            d = dotted(c.func)
            if d in ("result.tags", "result.startTest", "result.stopTest"):
                seq.append((d.split(".")[1], [norm(a) for a in c.args]))
    want = [("tags", ["self._tags", "set()"]), ("startTest", ["self"]), ("stopTest", ["self"]), ("tags", ["set()", "self._tags"])]
    ctx.check("R-OBSERVED-TAGS", "PlaceHolder.run: add tags, startTest, stopTest, remove the same tags", ph, seq == want,
              f"PlaceHolder.run calls {seq}", construct=f"{TESTCASE}:PlaceHolder.run::tag-symmetry")
    ctx.assume("TagContext is only reached through self._tags of the owning result (no other references are kept)")
