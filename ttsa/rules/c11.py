"""C11 -- stream decorators forward each event once, change only their field, never alias."""

import ast

from .common import REAL

EXPLANATION = (
    'CopyStreamResult, StreamTagger, TimestampingStreamResult, StreamFailFast and StreamToQueue are constructed and fed '
    'events (ttsa.rules.streamobjects); targets, queue and callback are logging objects. R-FORWARD-ALL-TARGETS: '
    'startTestRun / status / stopTestRun reach every target exactly once, in list order; StreamToQueue puts one event dict '
    'per call. R-FIELD-PASSTHROUGH: every one of the ten status fields reaches every target unchanged except the one the '
    'decorator owns. R-STRICT: the forwarding happens during the call (an error raised by a target surfaces from status() '
    "after the earlier targets were served). R-OWNED-FIELD-GUARD: StreamTagger's targets see (incoming | add) - discard, "
    'None when that is empty; TimestampingStreamResult fills only a missing timestamp, with the current UTC time; '
    "StreamFailFast fires for 'fail' and 'uxsuccess' only, once; StreamToQueue prefixes only the route code. "
    'R-NO-PARAM-MUTATION: the tag set the caller passed (kept on the abstract heap, so that aliases are seen) is the same '
    'object with the same members afterwards; plus the local alias rule over every StreamResult subclass of real.py.'
)

from . import streamobjects as so   # noqa: E402
from ..absint import FALSE, NONE, TRUE, State   # noqa: E402

TARGETS = ("w0", "w1", "queue")
NOW = ("sym", "the-current-utc-time")
FIELDS = [("test_id", ("const", "pkg.T")), ("test_status", ("const", "success")), ("test_tags", None), ("runnable", FALSE), ("file_name", ("const", "f")), ("file_bytes", ("const", b"b")),
          ("eof", TRUE), ("mime_type", ("const", "text/x")), ("route_code", ("const", "r")), ("timestamp", ("sym", "t-given"))]


def tagset(*names):
    return ("set", ("copy", ("tuple",) + tuple(("const", n) for n in names)))


def _event(**over):
    return [(k, over.get(k, v)) for k, v in FIELDS if over.get(k, v) is not None]


class DecoratorDomain(so.StreamDomain):
    def __init__(self, classes, raising=()):
        raising = set(raising)

        def oracle(n, pos, kw):
            if n in raising:
                return [("exc", ("exc", "TargetError"))]
            return None
        super().__init__(classes, accepting=TARGETS, oracle=oracle, results={"datetime.datetime.now": [NOW], "datetime.now": [NOW]},
                         track=lambda d: d in ("datetime.datetime.now", "datetime.now"), log_cap=60)

    def apply(self, interp, fn, pos, kw, st, fr):
        if fn == ("userfn", "on_error"):
            return [so.val(NONE, st.set("ev.on_error", st.get("ev.on_error", 0) + 1))]
        return super().apply(interp, fn, pos, kw, st, fr)


def _calls(r, names=TARGETS):
    return [(n.split(".")[0], n.split(".")[1], pos, dict(kw)) for n, pos, kw, tag in r.state.get("ev.calls", ()) if n.split(".")[0] in names]


def _tags(dom, v):
    if v in (None, NONE):
        return None
    els = dom._set_elements(v) if isinstance(v, tuple) and v[:1] == ("set",) else None
    return sorted(x[1] for x in els) if els is not None and all(isinstance(x, tuple) and x[:1] == ("const",) for x in els) else "?"


def _new(ctx, name, ctor_pos, ctor_kw=(), raising=(), state=None):
    cls = ctx.classes.get(REAL, name)
    d = so.Driver(ctx, cls, DecoratorDomain(ctx.classes, raising))
    return cls, d, d.construct(ctor_pos, ctor_kw, state=state)


def check_copy(ctx):
    W = ("tuple", ("wobj", "w0"), ("wobj", "w1"))
    for name, ctor in (("CopyStreamResult", [W]), ("StreamTagger", [W]), ("TimestampingStreamResult", None)):
        if ctor is None:
            continue
        cls, d, runs = _new(ctx, name, ctor)
        runs = d.call(runs, "startTestRun")
        runs = d.call(runs, "status", kw=_event())
        runs = d.call(runs, "status", pos=[("const", "pkg.U"), ("const", "fail")])   # positional arguments travel too
        runs = d.call(runs, "stopTestRun")
        d.done()
        problems, fields = set(), set()
        for r in runs:
            if r.kind == "exc":
                problems.add(f"raises {r.value!r}")
                continue
            got = [(t, m) for t, m, pos, kw in _calls(r)]
            want = [(t, m) for m in ("startTestRun", "status", "status", "stopTestRun") for t in ("w0", "w1")]
            if got != want:
                problems.add(f"the targets receive {got}; expected every call once per target, target after target, in the order the calls were made")
                continue
            st_calls = [(pos, kw) for t, m, pos, kw in _calls(r) if m == "status"]
            for pos, kw in st_calls[:2]:
                for k, v in _event():
                    if kw.get(k, "absent") != v:
                        fields.add(f"the field {k} arrives as {kw.get(k, 'absent')!r} instead of {v!r}")
            for pos, kw in st_calls[2:]:
                given = list(pos) + [kw.get("test_id"), kw.get("test_status")]
                if ("const", "pkg.U") not in given or ("const", "fail") not in given:
                    fields.add(f"positional test_id / test_status do not reach the targets ({pos!r}, {kw!r})")
        ctx.check("R-FORWARD-ALL-TARGETS", f"{name}: startTestRun / status / stopTestRun reach every target exactly once, in list order", cls.node, bool(runs) and not problems,
                  "; ".join(sorted(problems)) or "no path returns", examined=len(runs), construct=f"{REAL}:{name}::all-targets")
        ctx.check("R-FIELD-PASSTHROUGH", f"{name}: every field reaches every target unchanged", cls.node, bool(runs) and not fields, "; ".join(sorted(fields)), examined=len(runs),
                  construct=f"{REAL}:{name}::fields")
    # a target that raises ends the delivery there: targets before it got the event (strictness: the forwarding is not a lazy map nobody consumes)
    cls, d, runs = _new(ctx, "CopyStreamResult", [W], raising=("w1.status",))
    runs = d.call(d.call(runs, "startTestRun"), "status", kw=_event())
    d.done()
    ok = bool(runs) and all(r.kind == "exc" and [(t, m) for t, m, pos, kw in _calls(r) if m == "status"] == [("w0", "status"), ("w1", "status")] for r in runs)
    ctx.check("R-STRICT", "the forwarding happens during the call (an error of a target surfaces from status(), after the earlier targets were served)", cls.node, ok,
              "status() returns without having delivered the event (a lazy iterator nobody consumes?) or swallows the target's error", examined=len(runs), construct=f"{REAL}:CopyStreamResult.status::strict")


def check_tagger(ctx):
    W = ("tuple", ("wobj", "w0"), ("wobj", "w1"))
    cases = [
        ("tags added and discarded", tagset("keep", "gone"), ["keep", "new"]),
        ("no incoming tags: the added ones alone", None, ["new"]),
        ("everything discarded: no tags at all (None, not an empty set)", tagset("gone"), "none-if-nothing-added"),
        ("a tag both added and discarded is discarded", tagset("keep"), "both"),
    ]
    cls = ctx.classes.get(REAL, "StreamTagger")
    guard, mutate, fields = set(), set(), set()
    n = 0
    for what, incoming, want in cases:
        add = tagset("new") if want not in ("none-if-nothing-added", "both") else tagset() if want != "both" else tagset("new", "gone")
        if want == "both":
            want = ["keep", "new"]
        st0 = State([("heap.caller-tags", incoming)]) if incoming is not None else State()
        _, d, runs = _new(ctx, "StreamTagger", [W], [("add", add), ("discard", tagset("gone"))], state=st0)
        runs = d.call(runs, "startTestRun")
        runs = d.call(runs, "status", kw=_event(test_tags=("h", "caller-tags") if incoming is not None else None))
        d.done()
        for r in runs:
            n += 1
            if r.kind == "exc":
                guard.add(f"[{what}] raises {r.value!r}")
                continue
            sent = [kw for t, m, pos, kw in _calls(r) if m == "status"]
            if len(sent) != 2:
                guard.add(f"[{what}] {len(sent)} status calls reach the two targets")
                continue
            for kw in sent:
                got = _tags(d.dom, kw.get("test_tags"))
                exp = None if want == "none-if-nothing-added" else want
                if got != exp:
                    guard.add(f"[{what}] a target receives test_tags={got}; expected {exp} ((incoming | add) - discard, None when that is empty)")
                for k, v in _event():
                    if k != "test_tags" and kw.get(k, "absent") != v:
                        fields.add(f"the field {k} arrives as {kw.get(k, 'absent')!r} instead of {v!r}")
            if incoming is not None and r.state.get("heap.caller-tags", incoming) != incoming:
                mutate.add(f"[{what}] the caller's own tag set is changed in place (it becomes {r.state.get('heap.caller-tags')!r})")
            tag_objs = [kw.get("test_tags") for kw in sent]
    ctx.check("R-OWNED-FIELD-GUARD", "StreamTagger: targets see (incoming | add) - discard, None when empty", cls.node, n > 0 and not guard, "; ".join(sorted(guard)) or "no path returns", examined=n,
              construct=f"{REAL}:StreamTagger.status::tags")
    ctx.check("R-NO-PARAM-MUTATION", "StreamTagger never changes the tag set the caller passed", cls.node, n > 0 and not mutate, "; ".join(sorted(mutate)), examined=n,
              construct=f"{REAL}:StreamTagger.status::no-mutation")
    ctx.check("R-FIELD-PASSTHROUGH", "StreamTagger: every other field unchanged", cls.node, n > 0 and not fields, "; ".join(sorted(fields)), examined=n, construct=f"{REAL}:StreamTagger.status::fields")


def check_timestamper(ctx):
    cls = ctx.classes.get(REAL, "TimestampingStreamResult")
    guard, fields = set(), set()
    n = 0
    for what, given, want in (("a supplied timestamp is kept", ("sym", "t-given"), ("sym", "t-given")), ("a missing timestamp becomes the current UTC time", None, NOW),
                              ("timestamp=None becomes the current UTC time", NONE, NOW)):
        _, d, runs = _new(ctx, "TimestampingStreamResult", [("wobj", "w0")])
        ev = [(k, v) for k, v in _event() if k != "timestamp"] + ([("timestamp", given)] if given is not None else [])
        runs = d.call(d.call(runs, "startTestRun"), "status", kw=ev)
        d.done()
        for r in runs:
            n += 1
            if r.kind == "exc":
                guard.add(f"[{what}] raises {r.value!r}")
                continue
            sent = [kw for t, m, pos, kw in _calls(r) if m == "status"]
            if len(sent) != 1:
                guard.add(f"[{what}] the target receives {len(sent)} status calls; expected one")
                continue
            if sent[0].get("timestamp", "absent") != want:
                guard.add(f"[{what}] the target receives timestamp={sent[0].get('timestamp', 'absent')!r}; expected {want!r}")
            clock = [e for e in r.state.get("ev.calls", ()) if e[0] in ("datetime.datetime.now", "datetime.now")]
            if want == NOW and not (len(clock) == 1 and (clock[0][1] or clock[0][2])):
                guard.add(f"[{what}] the current time is not taken as an aware (UTC) datetime: now() called as {[(e[1], e[2]) for e in clock]}")
            for k, v in _event():
                if k != "timestamp" and sent[0].get(k, "absent") != v:
                    fields.add(f"the field {k} arrives as {sent[0].get(k, 'absent')!r} instead of {v!r}")
    ctx.check("R-OWNED-FIELD-GUARD", "TimestampingStreamResult fills only a missing timestamp, with the current UTC time", cls.node, n > 0 and not guard, "; ".join(sorted(guard)) or "no path returns",
              examined=n, construct=f"{REAL}:TimestampingStreamResult.status::timestamp")
    ctx.check("R-FIELD-PASSTHROUGH", "TimestampingStreamResult: every other field unchanged, the event forwarded once", cls.node, n > 0 and not fields, "; ".join(sorted(fields)), examined=n,
              construct=f"{REAL}:TimestampingStreamResult.status::fields")


def check_failfast(ctx):
    cls = ctx.classes.get(REAL, "StreamFailFast")
    problems = set()
    n = 0
    for status, fires in (("fail", 1), ("uxsuccess", 1), ("success", 0), ("skip", 0), ("xfail", 0), ("inprogress", 0), ("exists", 0), (None, 0)):
        _, d, runs = _new(ctx, "StreamFailFast", [("userfn", "on_error")])
        runs = d.call(runs, "status", kw=_event(test_status=("const", status) if status else NONE))
        d.done()
        for r in runs:
            n += 1
            if r.kind == "exc":
                problems.add(f"status({status!r}) raises {r.value!r}")
            elif r.state.get("ev.on_error", 0) != fires:
                problems.add(f"for the status {status!r} the callback fires {r.state.get('ev.on_error', 0)} time(s); expected {fires}")
    ctx.check("R-OWNED-FIELD-GUARD", "StreamFailFast fires its callback for 'fail' and 'uxsuccess' only, once per event", cls.node, n > 0 and not problems, "; ".join(sorted(problems)) or "no path returns",
              examined=n, construct=f"{REAL}:StreamFailFast.status::statuses")


def check_queue(ctx):
    cls = ctx.classes.get(REAL, "StreamToQueue")
    problems, fields = set(), set()
    n = 0
    _, d, runs = _new(ctx, "StreamToQueue", [("wobj", "queue"), ("const", "own")])
    runs = d.call(runs, "startTestRun")
    runs = d.call(runs, "status", kw=_event(test_tags=("sym", "the-tags")))
    runs = d.call(runs, "status", kw=[("test_id", ("const", "pkg.V"))])
    runs = d.call(runs, "stopTestRun")
    d.done()
    for r in runs:
        n += 1
        if r.kind == "exc":
            problems.add(f"raises {r.value!r}")
            continue
        puts = [pos for t, m, pos, kw in _calls(r) if t == "queue" and m == "put"]
        evs = [dict(p_[0][1]) if p_ and isinstance(p_[0], tuple) and p_[0][:1] == ("kwdict",) else None for p_ in puts]
        if len(evs) != 4 or None in evs or [e.get("event") for e in evs] != [("const", "startTestRun"), ("const", "status"), ("const", "status"), ("const", "stopTestRun")]:
            problems.add(f"the queue receives {[e.get('event') if e else e for e in evs]}; expected one event dict per call: startTestRun, status, status, stopTestRun")
            continue
        if evs[0].get("result") != ("self",) or evs[3].get("result") != ("self",):
            problems.add("the startTestRun / stopTestRun events do not carry the result that sent them")
        for k, v in _event(test_tags=("sym", "the-tags")):
            want = v if k != "route_code" else ("const", "own/r")
            if evs[1].get(k, "absent") != want:
                fields.add(f"the status event carries {k}={evs[1].get(k, 'absent')!r}; expected {want!r}")
        defaults = {"test_status": NONE, "test_tags": NONE, "runnable": TRUE, "file_name": NONE, "file_bytes": NONE, "eof": FALSE, "mime_type": NONE, "route_code": ("const", "own"), "timestamp": NONE,
                    "test_id": ("const", "pkg.V")}
        for k, want in defaults.items():
            if evs[2].get(k, "absent") != want:
                fields.add(f"an event that leaves {k} out is queued with {k}={evs[2].get(k, 'absent')!r}; expected {want!r}")
    ctx.check("R-FORWARD-ALL-TARGETS", "StreamToQueue puts one event dict on the queue per call, in order", cls.node, n > 0 and not problems, "; ".join(sorted(problems)) or "no path returns", examined=n,
              construct=f"{REAL}:StreamToQueue::events")
    ctx.check("R-FIELD-PASSTHROUGH", "StreamToQueue: every field is queued unchanged; only the route code gets the queue's own prefix", cls.node, n > 0 and not fields, "; ".join(sorted(fields)), examined=n,
              construct=f"{REAL}:StreamToQueue.status::fields")


def run(ctx):
    ctx.rule("R-NO-PARAM-MUTATION", "no in-place mutation of objects received from the caller")
    ctx.rule("R-STRICT", "lazy iterators that perform forwarding are consumed")
    ctx.rule("R-FORWARD-ALL-TARGETS", "each event method reaches every target exactly once, in list order")
    ctx.rule("R-FIELD-PASSTHROUGH", "every status field reaches the forwarding call unchanged except the owned one")
    ctx.rule("R-OWNED-FIELD-GUARD", "the owned field is changed only as documented")
    check_copy(ctx)
    check_tagger(ctx)
    check_timestamper(ctx)
    check_failfast(ctx)
    check_queue(ctx)
