"""C11 -- stream decorators forward each event once, change only their field, never alias."""

import ast

from ..alias import Aliases
from ..astutil import FUNC_TYPES, attr_chain, dotted, norm, params, walk_shallow
from ..cfg import live_nodes, node_calls
from ..flow import explore
from ..loader import AnalysisError
from .common import REAL, cfg_of, module_function, nodes_calling, own_method, str_const

EXPLANATION = (
    "Rules on the StreamResult decorators of testtools.testresult.real: R-NO-PARAM-MUTATION "
    "(local alias analysis: no in-place mutation of an object that may alias a value received "
    "from the caller in status/startTestRun/stopTestRun of any StreamResult class; **kwargs itself "
    "is fresh, values taken out of it are not), R-STRICT (lazy map/filter/generator whose elements "
    "do the forwarding must be materialised; _strict_map materialises), R-FORWARD-ALL-TARGETS "
    "(CopyStreamResult applies the same-named method to every element of self.targets once; "
    "subclasses reach it through super() exactly once on every path -- typestate counter on the "
    "CFG), R-FIELD-PASSTHROUGH (schema = the ten parameters of StreamResult.status: each reaches "
    "the forwarding call unchanged except the field the decorator owns), R-OWNED-FIELD-GUARD "
    "(timestamp filled only when None with an aware-UTC now; fail-fast callback only for "
    "{fail, uxsuccess}; tagger computes (incoming | add) - discard, None when empty)."
)

STREAM_METHODS = ("status", "startTestRun", "stopTestRun")
SCHEMA_FALLBACK = ["test_id", "test_status", "test_tags", "runnable", "file_name", "file_bytes", "eof", "mime_type", "route_code", "timestamp"]


def stream_classes(ctx):
    base = ctx.classes.get(REAL, "StreamResult")
    out = []
    for c in ctx.classes.all:
        if c.external or c.module.name != REAL:
            continue
        if base in ctx.classes.mro(c):
            out.append(c)
    return out


def count_calls_on_paths(ctx, func, pred):
    """Set of call counts {0,1,2} observed at normal exits (typestate counter)."""
    cfg = cfg_of(ctx, func)
    live = live_nodes(cfg)
    hit = set(nodes_calling(cfg, pred, live))

    def transfer(node, st, kind, target, exp, pair):
        if node.id in hit and kind != "exc":
            n = sum(1 for c in node_calls(node) if pred(c))
            return min(st + n, 2)
        return st

    exp = explore(cfg, 0, transfer)
    ctx.stats["states"] += exp.size
    return exp, cfg


ARGS_ = ("tuple", ("arg", "a0"))
IN_TAGS, TS_ = ("arg", "incoming-tags"), ("arg", "supplied-timestamp")


def _kw(**over):
    base = {"test_id": ("arg", "tid"), "test_status": ("arg", "st"), "test_tags": IN_TAGS, "runnable": ("arg", "runnable"), "file_name": ("arg", "fn"),
            "file_bytes": ("arg", "fb"), "eof": ("arg", "eof"), "mime_type": ("arg", "mime"), "route_code": ("arg", "rc"), "timestamp": TS_}
    base.update(over)
    return ("kwdict", tuple((k, v) for k, v in base.items() if v is not None))


def check_copy_semantics(ctx):
    """CopyStreamResult and its two field-owning subclasses, on abstract runs with two symbolic targets: every
    target receives each call exactly once, in order, with the event unchanged except for the field the class owns."""
    from .. import effects
    classes = ctx.classes
    for cname in ("CopyStreamResult", "StreamTagger", "TimestampingStreamResult"):
        c = classes.get(REAL, cname)
        for m in STREAM_METHODS:
            owner, f = classes.resolve_method(c, m)
            if not isinstance(f, FUNC_TYPES) or owner is None or owner.external:
                raise AnalysisError(f"anchor vanished: {cname}.{m}")
            scenarios = [("event", _kw())]
            if m == "status" and cname == "TimestampingStreamResult":
                scenarios = [("timestamp supplied", _kw()), ("timestamp=None", _kw(timestamp="None")), ("no timestamp", _kw(timestamp=None))]
            if m == "status" and cname == "StreamTagger":
                scenarios = [("tags supplied", _kw()), ("test_tags=None", _kw(test_tags="None")), ("no test_tags", _kw(test_tags=None))]
            for sname, kw in scenarios:
                dom = effects.EffectDomain(classes, attrs={"self.targets": ("tuple", ("wobj", "w0"), ("wobj", "w1")), "self.add": ("arg", "add"), "self.discard": ("arg", "discard"),
                                                           "utc": ("utc",), "datetime.timezone.utc": ("utc",), "timezone.utc": ("utc",), "datetime.UTC": ("utc",)},
                                           track=lambda d: d in ("datetime.datetime.now", "datetime.now"), results={"datetime.datetime.now": [("now",)], "datetime.now": [("now",)]})
                argv = {}
                if m == "status":
                    argv = {(f.args.vararg.arg if f.args.vararg else "args"): ARGS_, (f.args.kwarg.arg if f.args.kwarg else "kwargs"): kw}
                res = effects.run(ctx, dom, f, c, argv, depth=7)
                problems = set()
                seen_incoming = set()
                sent_values = set()
                if not any(r.kind == "val" for r in res):
                    problems.add("no returning path")
                for r in res:
                    if r.kind != "val":
                        continue
                    sent = [e for e in effects.calls(r) if e[0] in (f"w0.{m}", f"w1.{m}")]
                    if [e[0] for e in sent] != [f"w0.{m}", f"w1.{m}"]:
                        problems.add(f"targets called: {[e[0] for e in sent]} (each target must get {m} exactly once, in order; a lazy map that nobody consumes calls no one)")
                        continue
                    if m != "status":
                        continue
                    for e in sent:
                        if e[1] != ARGS_[1:]:
                            problems.add("positional event arguments are not passed on unchanged")
                        got = dict(e[2])
                        want = dict(kw[1])
                        owned = {"StreamTagger": "test_tags", "TimestampingStreamResult": "timestamp"}.get(cname)
                        for k in set(got) | set(want):
                            if k == owned:
                                continue
                            if got.get(k) != want.get(k):
                                problems.add(f"event field {k} is {'dropped' if k not in got else 'changed or added'}")
                        if cname == "TimestampingStreamResult":
                            supplied = want.get("timestamp") not in (None, "None")
                            nows = [x for x in effects.calls(r) if x[0] in ("datetime.datetime.now", "datetime.now")]
                            if supplied and got.get("timestamp") != TS_:
                                problems.add("a supplied timestamp is not passed on untouched")
                            if not supplied and (got.get("timestamp") != ("now",) or len(nows) != 1 or (("utc",) not in nows[0][1] and ("tz", ("utc",)) not in nows[0][2])):
                                problems.add("a missing timestamp is not filled with datetime.now(<UTC>)")
                        if cname == "StreamTagger":
                            v = got.get("test_tags")
                            src = want.get("test_tags")
                            ok_empty = v == "None"
                            ok_set = False
                            if isinstance(v, tuple) and v[:1] == ("set",):
                                e_ = v[1]
                                ok_set = (e_[0] == "minus" and e_[2] == ("arg", "discard") and isinstance(e_[1], tuple) and e_[1][0] == "union" and e_[1][2] == ("arg", "add")
                                          and isinstance(e_[1][1], tuple) and e_[1][1][0] in ("copy", "empty"))
                                if ok_set and IN_TAGS in _flatten(e_[1][1]):
                                    seen_incoming.add(True)
                            sent_values.add("None" if ok_empty else "set")
                            if not (ok_empty or ok_set):
                                problems.add(f"outgoing test_tags is {v!r}: not (a copy of the incoming tags | add) - discard, or None when nothing remains")
                if cname == "StreamTagger" and m == "status" and sname == "tags supplied" and not seen_incoming and not problems:
                    problems.add("the incoming tags never reach the outgoing set")
                if cname == "StreamTagger" and m == "status" and not problems and sent_values != {"None", "set"}:
                    problems.add("an empty resulting tag set is not sent as None (consumers treat None as 'no tag information')" if "None" not in sent_values else "the computed tags are never sent")
                name = f"{cname}.{m}" + (f" [{sname}]" if m == "status" and cname != "CopyStreamResult" else "")
                rule = "R-OWNED-FIELD-GUARD" if (m == "status" and cname != "CopyStreamResult") else "R-FORWARD-ALL-TARGETS"
                ctx.check(rule, f"{name}: every target gets the call once, in order" + (", event intact but for the owned field" if m == "status" else ""), f, not problems,
                          "; ".join(sorted(problems)), examined=len(res), construct=f"{REAL}:{cname}.{m}::semantics {sname}")


def _flatten(v):
    out = [v]
    if isinstance(v, tuple):
        for x in v:
            out.extend(_flatten(x))
    return out


def _merge_consts(v):
    if not (isinstance(v, tuple) and v[:1] == ("concat",)):
        return v
    parts = []
    for p_ in v[1:]:
        if parts and isinstance(p_, tuple) and p_[:1] == ("const",) and isinstance(parts[-1], tuple) and parts[-1][:1] == ("const",):
            parts[-1] = ("const", parts[-1][1] + p_[1])
        else:
            parts.append(p_)
    return ("concat",) + tuple(parts) if len(parts) > 1 else parts[0]


def check_queue_semantics(ctx, schema, rule="R-FIELD-PASSTHROUGH"):
    """StreamToQueue: one dict per call is put on the queue; status events carry every schema field unchanged except
    route_code, which gets the queue's own code in front (alone when the event had none)."""
    from .. import effects
    classes = ctx.classes
    sq_cls = classes.get(REAL, "StreamToQueue")
    f = own_method(ctx, REAL, "StreamToQueue", "status")
    for own in (("const", "own"),):   # a queue is always created with its routing code
        for rc in (("arg", "rc"), "None"):
            dom = effects.EffectDomain(classes, attrs={"self.routing_code": own, "self": ("self",)}, track=lambda d: d == "self.queue.put")
            argv = {p_: ("arg", p_) for p_ in schema}
            argv["route_code"] = rc
            res = effects.run(ctx, dom, f, sq_cls, argv)
            want_rc = rc if own == "None" else (own if rc == "None" else ("concat", ("const", "own/"), rc))
            problems = set()
            for r in res:
                if r.kind != "val":
                    problems.add(f"raises {r.value!r}")
                    continue
                puts = effects.calls(r, "self.queue.put")
                if len(puts) != 1 or len(puts[0][1]) != 1 or not (isinstance(puts[0][1][0], tuple) and puts[0][1][0][:1] == ("kwdict",)):
                    problems.add(f"{len(puts)} put() calls with a dict (exactly one expected)")
                    continue
                ev = dict(puts[0][1][0][1])
                if ev.get("event") != ("const", "status") or set(ev) != set(schema) | {"event"}:
                    problems.add(f"event dict keys {sorted(ev)}")
                for fld in schema:
                    got = _merge_consts(ev.get(fld))
                    exp_ = want_rc if fld == "route_code" else ("arg", fld)
                    if got != exp_:
                        problems.add(f"field {fld} is sent as {got!r} (expected {exp_!r})")
            label = f"queue code {'set' if own != 'None' else 'None'}, event route code {'given' if rc != 'None' else 'None'}"
            ctx.check(rule, f"StreamToQueue.status [{label}]: one event with every field intact and the route code prefixed", f, bool(res) and not problems,
                      "; ".join(sorted(problems)), construct=f"{REAL}:StreamToQueue.status::semantics {label}")
    for m in ("startTestRun", "stopTestRun"):
        fm = own_method(ctx, REAL, "StreamToQueue", m)
        dom = effects.EffectDomain(classes, attrs={"self": ("self",)}, track=lambda d: d == "self.queue.put")
        res = effects.run(ctx, dom, fm, sq_cls, {})
        ok = bool(res) and all(r.kind == "val" and [e[1] for e in effects.calls(r, "self.queue.put")] == [(("kwdict", (("event", ("const", m)), ("result", ("self",)))),)] for r in res)
        ctx.check(rule, f"StreamToQueue.{m} enqueues its event with result=self", fm, ok,
                  f"StreamToQueue.{m} does not put exactly one {{event: {m!r}, result: self}}", construct=f"{REAL}:StreamToQueue.{m}::event")


def run(ctx):
    ctx.rule("R-NO-PARAM-MUTATION", "no in-place mutation of objects received from the caller")
    ctx.rule("R-STRICT", "lazy iterators that perform forwarding are consumed")
    ctx.rule("R-FORWARD-ALL-TARGETS", "each event method reaches every target exactly once, in list order")
    ctx.rule("R-FIELD-PASSTHROUGH", "every status field reaches the forwarding call unchanged except the owned one")
    ctx.rule("R-OWNED-FIELD-GUARD", "the owned field is changed only as documented")
    classes = ctx.classes
    sr = classes.get(REAL, "StreamResult")
    st = sr.own_method("status")
    schema = [a.arg for a in st.args.args[1:]] if st is not None else []
    ctx.check("R-FIELD-PASSTHROUGH", "StreamResult.status schema has the ten documented fields", st if st is not None else sr.node,
              schema == SCHEMA_FALLBACK, f"schema is {schema}", construct=f"{REAL}:StreamResult.status::schema")

    # ---------------------------------------------------------------- R-NO-PARAM-MUTATION
    scls = stream_classes(ctx)
    n_funcs = 0
    for c in sorted(scls, key=lambda c: c.node.lineno):
        for m in STREAM_METHODS:
            f = c.methods.get(m)
            if f is None:
                continue
            n_funcs += 1
            ctx.analysed(f)
            a = Aliases(f)
            muts = list(a.mutations())
            bad = []
            for site, tgt, how in muts:
                owned = a.caller_owned(a.of(tgt))
                if owned:
                    bad.append((site, tgt, how, owned))
            if not bad:
                ctx.check("R-NO-PARAM-MUTATION", f"{c.name}.{m}", f, True, examined=max(1, len(muts)))
            for site, tgt, how, owned in bad:
                ctx.check("R-NO-PARAM-MUTATION", f"{c.name}.{m}: {norm(tgt)}{how}", site, False,
                          f"{norm(tgt)}{how} mutates an object that may be the caller's ({', '.join(sorted(o[0] + ':' + o[1] for o in owned))}): "
                          f"the caller's argument (and what sibling targets see) changes; a frozenset raises AttributeError",
                          examined=1)
    ctx.floor("R-NO-PARAM-MUTATION", 20, "StreamResult event methods")

    # ---------------------------------------------------------------- R-STRICT
    check_copy_semantics(ctx)
    # discarded lazy iterators anywhere in the stream classes (quick) / package (thorough)
    scope = [c.node for c in scls]
    if ctx.tier == "thorough":
        scope = [m.tree for m in ctx.repo.modules.values()]
        for m in ctx.repo.modules.values():
            ctx.repo.module(m.name)
    n_lazy = 0
    for root in scope:
        for n in ast.walk(root):
            if isinstance(n, ast.Expr):
                v = n.value
                lazy = (isinstance(v, ast.Call) and dotted(v.func) in ("map", "filter", "zip")) or isinstance(v, ast.GeneratorExp)
                if lazy:
                    n_lazy += 1
                    ctx.check("R-STRICT", f"discarded lazy iterator {norm(v)[:50]}", n, False,
                              "a lazy iterator is created and dropped: its element calls never happen")
    ctx.check("R-STRICT", f"no discarded lazy iterator in scope ({len(scope)} units)", sr.node, True, examined=len(scope),
              construct=f"{REAL}::lazy-sweep")

    # ---------------------------------------------------------------- R-FORWARD-ALL-TARGETS
    copy = classes.get(REAL, "CopyStreamResult")
    # subclasses reach the copying implementation through super() exactly once
    for c in sorted(classes.subclasses(copy, strict=True), key=lambda c: c.node.lineno):
        if c.module.name != REAL:
            continue
        for m in STREAM_METHODS:
            f = c.methods.get(m)
            if f is None:
                owner, rf = classes.resolve_method(c, m)
                ok = owner is not None and (owner is copy or copy in classes.mro(owner))
                ctx.check("R-FORWARD-ALL-TARGETS", f"{c.name}.{m} inherited from {owner.name if owner else None}", c.node, ok,
                          f"{c.name}.{m} resolves to {owner.name if owner else None}, which is not the copying implementation",
                          construct=f"{REAL}:{c.name}.{m}::inherits")
                continue
            exp, cfg = count_calls_on_paths(ctx, f, lambda call: dotted(call.func) == f"super().{m}")
            counts = exp.states_at(cfg.exit_return)
            # what does super().m resolve to?
            owner, rf = classes.resolve_method(c, m, after=c)
            reaches = owner is not None and (owner is copy or copy in classes.mro(owner))
            ctx.check("R-FORWARD-ALL-TARGETS", f"{c.name}.{m} calls super().{m} exactly once on every path", f,
                      counts == {1} and reaches,
                      f"super().{m} call count on returning paths is {sorted(counts)} (resolves to {owner.name if owner else None})",
                      examined=exp.size, construct=f"{REAL}:{c.name}.{m}::super-once")
    ctx.floor("R-FORWARD-ALL-TARGETS", 12)

    # ---------------------------------------------------------------- R-FIELD-PASSTHROUGH
    # StreamToQueue: explicit event dict
    sq = own_method(ctx, REAL, "StreamToQueue", "status")
    sq_params = [a.arg for a in sq.args.args[1:]]
    ctx.check("R-FIELD-PASSTHROUGH", "StreamToQueue.status has the schema's parameters", sq, sq_params == schema,
              f"StreamToQueue.status parameters {sq_params} differ from StreamResult.status {schema}", construct=f"{REAL}:StreamToQueue.status::signature")
    sq_defaults_ok = norm(sq.args) == norm(st.args) if st is not None else False
    ctx.check("R-FIELD-PASSTHROUGH", "StreamToQueue.status has the schema's defaults", sq, sq_defaults_ok,
              "defaults differ from StreamResult.status (an omitted field would change value)", construct=f"{REAL}:StreamToQueue.status::defaults")
    check_queue_semantics(ctx, schema)

    # ---------------------------------------------------------------- R-OWNED-FIELD-GUARD
    # StreamFailFast
    ff = own_method(ctx, REAL, "StreamFailFast", "status")
    from .. import effects
    sff = classes.get(REAL, "StreamFailFast")
    trig = set()
    for status in ("exists", "inprogress", "xfail", "uxsuccess", "success", "fail", "skip", None):
        dom_ = effects.EffectDomain(classes, track=lambda d: d == "self.on_error")
        argv_ = {a_.arg: ("arg", a_.arg) for a_ in ff.args.args[1:]}
        argv_["test_status"] = ("const", status) if status is not None else "None"
        counts = {len(effects.calls(r, "self.on_error")) for r in effects.run(ctx, dom_, ff, sff, argv_) if r.kind == "val"}
        if counts == {1}:
            trig.add(status)
        elif counts != {0}:
            trig.add(f"?{status}:{sorted(counts)}")
    ctx.check("R-OWNED-FIELD-GUARD", "fail-fast callback fires for exactly {fail, uxsuccess}", ff, trig == {"fail", "uxsuccess"},
              f"on_error is triggered (once) by the statuses {sorted(map(str, trig))}", construct=f"{REAL}:StreamFailFast.status::trigger")
    ff_params = [a.arg for a in ff.args.args[1:]]
    ctx.check("R-OWNED-FIELD-GUARD", "StreamFailFast.status has the schema's parameters", ff, ff_params == schema, f"{ff_params}", construct=f"{REAL}:StreamFailFast.status::signature")
    # StreamTagger
    init = own_method(ctx, REAL, "StreamTagger", "__init__")
    snap = {dotted(n.targets[0]): n.value for n in walk_shallow(init, include_self=False) if isinstance(n, ast.Assign)}
    ok = all(isinstance(snap.get(k), ast.Call) and dotted(snap[k].func) in ("frozenset", "set") for k in ("self.add", "self.discard"))
    ctx.check("R-OWNED-FIELD-GUARD", "tagger snapshots its add/discard sets", init, ok, "add/discard are stored without copying (later changes by the creator would leak in)",
              construct=f"{REAL}:StreamTagger.__init__::snapshot")
    ctx.assume("targets' own status() implementations are outside the decorators' responsibility")
