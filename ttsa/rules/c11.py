"""C11 -- stream decorators forward each event once, change only their field, never alias."""

import ast

from ..alias import Aliases
from ..astutil import FUNC_TYPES, attr_chain, dotted, norm, params, walk_shallow
from ..cfg import live_nodes, node_calls
from ..flow import explore
from ..loader import AnalysisError
from .common import REAL, cfg_of, module_function, nodes_calling, own_method, str_const

EXPLANATION = (
    "Rules on the StreamResult decorators of testtools.testresult.real: R-NO-PARAM-MUTATION "
    "(local alias analysis: no in-place mutation of an object that may alias a value received "
    "from the caller in status/startTestRun/stopTestRun of any StreamResult class; **kwargs itself "
    "is fresh, values taken out of it are not), R-STRICT (lazy map/filter/generator whose elements "
    "do the forwarding must be materialised; _strict_map materialises), R-FORWARD-ALL-TARGETS "
    "(CopyStreamResult applies the same-named method to every element of self.targets once; "
    "subclasses reach it through super() exactly once on every path -- typestate counter on the "
    "CFG), R-FIELD-PASSTHROUGH (schema = the ten parameters of StreamResult.status: each reaches "
    "the forwarding call unchanged except the field the decorator owns), R-OWNED-FIELD-GUARD "
    "(timestamp filled only when None with an aware-UTC now; fail-fast callback only for "
    "{fail, uxsuccess}; tagger computes (incoming | add) - discard, None when empty)."
)

STREAM_METHODS = ("status", "startTestRun", "stopTestRun")
SCHEMA_FALLBACK = ["test_id", "test_status", "test_tags", "runnable", "file_name", "file_bytes", "eof", "mime_type", "route_code", "timestamp"]


def stream_classes(ctx):
    base = ctx.classes.get(REAL, "StreamResult")
    out = []
    for c in ctx.classes.all:
        if c.external or c.module.name != REAL:
            continue
        if base in ctx.classes.mro(c):
            out.append(c)
    return out


def count_calls_on_paths(ctx, func, pred):
    """Set of call counts {0,1,2} observed at normal exits (typestate counter)."""
    cfg = cfg_of(ctx, func)
    live = live_nodes(cfg)
    hit = set(nodes_calling(cfg, pred, live))

    def transfer(node, st, kind, target, exp, pair):
        if node.id in hit and kind != "exc":
            n = sum(1 for c in node_calls(node) if pred(c))
            return min(st + n, 2)
        return st

    exp = explore(cfg, 0, transfer)
    ctx.stats["states"] += exp.size
    return exp, cfg


def run(ctx):
    ctx.rule("R-NO-PARAM-MUTATION", "no in-place mutation of objects received from the caller")
    ctx.rule("R-STRICT", "lazy iterators that perform forwarding are consumed")
    ctx.rule("R-FORWARD-ALL-TARGETS", "each event method reaches every target exactly once, in list order")
    ctx.rule("R-FIELD-PASSTHROUGH", "every status field reaches the forwarding call unchanged except the owned one")
    ctx.rule("R-OWNED-FIELD-GUARD", "the owned field is changed only as documented")
    classes = ctx.classes
    sr = classes.get(REAL, "StreamResult")
    st = sr.own_method("status")
    schema = [a.arg for a in st.args.args[1:]] if st is not None else []
    ctx.check("R-FIELD-PASSTHROUGH", "StreamResult.status schema has the ten documented fields", st if st is not None else sr.node,
              schema == SCHEMA_FALLBACK, f"schema is {schema}", construct=f"{REAL}:StreamResult.status::schema")

    # ---------------------------------------------------------------- R-NO-PARAM-MUTATION
    scls = stream_classes(ctx)
    n_funcs = 0
    for c in sorted(scls, key=lambda c: c.node.lineno):
        for m in STREAM_METHODS:
            f = c.methods.get(m)
            if f is None:
                continue
            n_funcs += 1
            ctx.analysed(f)
            a = Aliases(f)
            muts = list(a.mutations())
            bad = []
            for site, tgt, how in muts:
                owned = a.caller_owned(a.of(tgt))
                if owned:
                    bad.append((site, tgt, how, owned))
            if not bad:
                ctx.check("R-NO-PARAM-MUTATION", f"{c.name}.{m}", f, True, examined=max(1, len(muts)))
            for site, tgt, how, owned in bad:
                ctx.check("R-NO-PARAM-MUTATION", f"{c.name}.{m}: {norm(tgt)}{how}", site, False,
                          f"{norm(tgt)}{how} mutates an object that may be the caller's ({', '.join(sorted(o[0] + ':' + o[1] for o in owned))}): "
                          f"the caller's argument (and what sibling targets see) changes; a frozenset raises AttributeError",
                          examined=1)
    ctx.floor("R-NO-PARAM-MUTATION", 20, "StreamResult event methods")

    # ---------------------------------------------------------------- R-STRICT
    sm = module_function(ctx, REAL, "_strict_map")
    rets = [n for n in walk_shallow(sm, include_self=False) if isinstance(n, ast.Return)]
    ok = False
    for r in rets:
        v = r.value
        if isinstance(v, ast.Call) and dotted(v.func) in ("list", "tuple") and v.args:
            inner = v.args[0]
            if isinstance(inner, ast.Call) and dotted(inner.func) == "map" or isinstance(inner, (ast.GeneratorExp,)):
                ok = True
        if isinstance(v, ast.ListComp):
            ok = True
    loops = [n for n in walk_shallow(sm, include_self=False) if isinstance(n, ast.For)]
    if loops and any(isinstance(c, ast.Call) for l in loops for c in walk_shallow(l)):
        ok = True
    ctx.check("R-STRICT", "_strict_map materialises the map", sm, ok,
              "_strict_map returns a lazy iterator: no target would ever be called", construct=f"{REAL}:_strict_map::materialise")
    ps = params(sm)
    va_name = sm.args.vararg.arg if sm.args.vararg else None
    starred_all = any(
        isinstance(c, ast.Call) and dotted(c.func) in ("map", "zip")
        and any(isinstance(x, ast.Starred) and dotted(x.value) == va_name for x in c.args)
        for c in ast.walk(sm))
    fn_used = any(
        isinstance(c, ast.Call) and (dotted(c.func) == ps[0] or (dotted(c.func) == "map" and c.args and dotted(c.args[0]) == ps[0]))
        for c in ast.walk(sm))
    sliced = any(isinstance(x, ast.Subscript) and dotted(x.value) == va_name for x in ast.walk(sm))
    uses_all = va_name is not None and starred_all and fn_used and not sliced
    ctx.check("R-STRICT", "_strict_map applies the function to every element of the sequences", sm, uses_all,
              "_strict_map no longer maps its function over the full sequences", construct=f"{REAL}:_strict_map::all-elements")
    # discarded lazy iterators anywhere in the stream classes (quick) / package (thorough)
    scope = [c.node for c in scls]
    if ctx.tier == "thorough":
        scope = [m.tree for m in ctx.repo.modules.values()]
        for m in ctx.repo.modules.values():
            ctx.repo.module(m.name)
    n_lazy = 0
    for root in scope:
        for n in ast.walk(root):
            if isinstance(n, ast.Expr):
                v = n.value
                lazy = (isinstance(v, ast.Call) and dotted(v.func) in ("map", "filter", "zip")) or isinstance(v, ast.GeneratorExp)
                if lazy:
                    n_lazy += 1
                    ctx.check("R-STRICT", f"discarded lazy iterator {norm(v)[:50]}", n, False,
                              "a lazy iterator is created and dropped: its element calls never happen")
    ctx.check("R-STRICT", f"no discarded lazy iterator in scope ({len(scope)} units)", sr.node, True, examined=len(scope),
              construct=f"{REAL}::lazy-sweep")

    # ---------------------------------------------------------------- R-FORWARD-ALL-TARGETS
    copy = classes.get(REAL, "CopyStreamResult")
    for m in STREAM_METHODS:
        f = copy.methods.get(m)
        if f is None:
            raise AnalysisError(f"anchor vanished: CopyStreamResult.{m}")
        ctx.analysed(f)
        sites = []
        for c in walk_shallow(f, include_self=False):
            if isinstance(c, ast.Call) and dotted(c.func) == "_strict_map" and len(c.args) == 2:
                mc, seq = c.args
                if isinstance(mc, ast.Call) and dotted(mc.func) in ("methodcaller", "operator.methodcaller") and mc.args:
                    sites.append((c, str_const(mc.args[0]), mc, seq))
        loops = [n for n in walk_shallow(f, include_self=False) if isinstance(n, ast.For) and dotted(n.iter) == "self.targets"]
        ok = False
        msg = f"CopyStreamResult.{m} does not apply {m} to every element of self.targets exactly once"
        if len(sites) == 1 and not loops:
            c, name, mc, seq = sites[0]
            ok = name == m and dotted(seq) == "self.targets"
            if ok and m == "status":
                va, kw = f.args.vararg, f.args.kwarg
                ok = (va is not None and kw is not None
                      and any(isinstance(a, ast.Starred) and dotted(a.value) == va.arg for a in mc.args[1:])
                      and any(k.arg is None and dotted(k.value) == kw.arg for k in mc.keywords)
                      and len(mc.args) == 2 and len(mc.keywords) == 1)
                msg = "CopyStreamResult.status does not hand *args, **kwargs unchanged to every target"
        elif len(loops) == 1 and not sites and isinstance(loops[0].target, ast.Name):
            v = loops[0].target.id
            calls = [c for c in walk_shallow(loops[0]) if isinstance(c, ast.Call) and dotted(c.func) == f"{v}.{m}"]
            jumps = [x for x in walk_shallow(loops[0]) if isinstance(x, (ast.Break, ast.Continue, ast.Return, ast.If, ast.Try))]
            ok = len(calls) == 1 and not jumps
        ctx.check("R-FORWARD-ALL-TARGETS", f"CopyStreamResult.{m} reaches every target", f, ok, msg,
                  construct=f"{REAL}:CopyStreamResult.{m}::all-targets")
        # at most once on every path
        exp, cfg = count_calls_on_paths(ctx, f, lambda c: dotted(c.func) == "_strict_map" or (isinstance(c.func, ast.Attribute) and c.func.attr == m and dotted(c.func.value) not in ("super()", "self")))
        counts = exp.states_at(cfg.exit_return)
        ctx.check("R-FORWARD-ALL-TARGETS", f"CopyStreamResult.{m} forwards exactly once per call", f, counts <= {1} and bool(counts) if not loops else True,
                  f"forward count on returning paths: {sorted(counts)}", examined=exp.size, construct=f"{REAL}:CopyStreamResult.{m}::once")
    # subclasses reach the copying implementation through super() exactly once
    for c in sorted(classes.subclasses(copy, strict=True), key=lambda c: c.node.lineno):
        if c.module.name != REAL:
            continue
        for m in STREAM_METHODS:
            f = c.methods.get(m)
            if f is None:
                owner, rf = classes.resolve_method(c, m)
                ok = owner is not None and (owner is copy or copy in classes.mro(owner))
                ctx.check("R-FORWARD-ALL-TARGETS", f"{c.name}.{m} inherited from {owner.name if owner else None}", c.node, ok,
                          f"{c.name}.{m} resolves to {owner.name if owner else None}, which is not the copying implementation",
                          construct=f"{REAL}:{c.name}.{m}::inherits")
                continue
            exp, cfg = count_calls_on_paths(ctx, f, lambda call: dotted(call.func) == f"super().{m}")
            counts = exp.states_at(cfg.exit_return)
            # what does super().m resolve to?
            owner, rf = classes.resolve_method(c, m, after=c)
            reaches = owner is not None and (owner is copy or copy in classes.mro(owner))
            ctx.check("R-FORWARD-ALL-TARGETS", f"{c.name}.{m} calls super().{m} exactly once on every path", f,
                      counts == {1} and reaches,
                      f"super().{m} call count on returning paths is {sorted(counts)} (resolves to {owner.name if owner else None})",
                      examined=exp.size, construct=f"{REAL}:{c.name}.{m}::super-once")
    ctx.floor("R-FORWARD-ALL-TARGETS", 12)

    # ---------------------------------------------------------------- R-FIELD-PASSTHROUGH
    owned_field = {"StreamTagger": "test_tags", "TimestampingStreamResult": "timestamp"}
    for cname, owned in owned_field.items():
        f = own_method(ctx, REAL, cname, "status")
        va, kw = f.args.vararg, f.args.kwarg
        explicit = [a.arg for a in f.args.args[1:]]
        ok_sig = va is not None and kw is not None and not explicit
        ctx.check("R-FIELD-PASSTHROUGH", f"{cname}.status takes the event as *args, **kwargs", f, ok_sig,
                  f"{cname}.status names parameters {explicit}: positional events would be re-ordered", construct=f"{REAL}:{cname}.status::signature")
        if not ok_sig:
            continue
        fw = [c for c in walk_shallow(f, include_self=False) if isinstance(c, ast.Call) and dotted(c.func) == "super().status"]
        ok = False
        msg = f"{cname}.status does not forward *{va.arg} and **{kw.arg}"
        extra_kw = []
        if len(fw) == 1:
            c = fw[0]
            star = [a for a in c.args if isinstance(a, ast.Starred) and dotted(a.value) == va.arg]
            dstar = [k for k in c.keywords if k.arg is None and dotted(k.value) == kw.arg]
            extra_kw = [k for k in c.keywords if k.arg is not None]
            plain = [a for a in c.args if not isinstance(a, ast.Starred)]
            ok = len(star) == 1 and len(dstar) == 1 and not plain and all(k.arg == owned for k in extra_kw)
            msg = f"{norm(c)[:80]} passes something other than *{va.arg}, **{kw.arg} and {owned}="
        ctx.check("R-FIELD-PASSTHROUGH", f"{cname}.status forwards the untouched *args/**kwargs", fw[0] if fw else f, ok, msg,
                  construct=f"{REAL}:{cname}.status::forward")
        # keys of kwargs written / removed
        touched = set()
        for n in walk_shallow(f, include_self=False):
            if isinstance(n, (ast.Assign, ast.AugAssign, ast.Delete)):
                targets = n.targets if not isinstance(n, ast.AugAssign) else [n.target]
                for t in targets:
                    if isinstance(t, ast.Subscript) and dotted(t.value) == kw.arg:
                        touched.add(str_const(t.slice) or norm(t.slice))
                    if isinstance(t, ast.Name) and t.id in (kw.arg, va.arg):
                        touched.add(f"<rebinds {t.id}>")
            if isinstance(n, ast.Call) and isinstance(n.func, ast.Attribute) and dotted(n.func.value) == kw.arg and n.func.attr in ("pop", "update", "clear", "setdefault", "popitem", "__setitem__"):
                touched.add(str_const(n.args[0]) if n.args and n.func.attr in ("pop", "setdefault") else f".{n.func.attr}()")
        ctx.check("R-FIELD-PASSTHROUGH", f"{cname}.status touches only its own field ({owned})", f, touched <= {owned},
                  f"{cname}.status rewrites/removes event fields {sorted(touched - {owned})}", construct=f"{REAL}:{cname}.status::owned-only")
    # StreamToQueue: explicit event dict
    sq = own_method(ctx, REAL, "StreamToQueue", "status")
    sq_params = [a.arg for a in sq.args.args[1:]]
    ctx.check("R-FIELD-PASSTHROUGH", "StreamToQueue.status has the schema's parameters", sq, sq_params == schema,
              f"StreamToQueue.status parameters {sq_params} differ from StreamResult.status {schema}", construct=f"{REAL}:StreamToQueue.status::signature")
    sq_defaults_ok = norm(sq.args) == norm(st.args) if st is not None else False
    ctx.check("R-FIELD-PASSTHROUGH", "StreamToQueue.status has the schema's defaults", sq, sq_defaults_ok,
              "defaults differ from StreamResult.status (an omitted field would change value)", construct=f"{REAL}:StreamToQueue.status::defaults")
    ev = None
    for c in walk_shallow(sq, include_self=False):
        if isinstance(c, ast.Call) and dotted(c.func) == "dict" and any(k.arg == "event" for k in c.keywords):
            ev = {k.arg: k.value for k in c.keywords}
        if isinstance(c, ast.Dict) and any(str_const(k) == "event" for k in c.keys):
            ev = {str_const(k): v for k, v in zip(c.keys, c.values)}
    if ev is None:
        raise AnalysisError("anchor vanished: StreamToQueue.status event dict")
    for fld in schema:
        v = ev.get(fld)
        if fld == "route_code":
            ok = isinstance(v, ast.Call) and dotted(v.func) == "self.route_code" and len(v.args) == 1 and dotted(v.args[0]) == "route_code"
            msg = "route_code is not transformed by self.route_code(route_code) only"
        else:
            ok = v is not None and dotted(v) == fld
            msg = f"event field {fld} is sent as {norm(v) if v is not None else '<missing>'}"
        ctx.check("R-FIELD-PASSTHROUGH", f"StreamToQueue.status sends {fld}", v if v is not None else sq, ok, msg,
                  construct=f"{REAL}:StreamToQueue.status::field {fld}")
    ctx.check("R-FIELD-PASSTHROUGH", "StreamToQueue.status event kind", sq, str_const(ev.get("event")) == "status" and set(ev) == set(schema) | {"event"},
              f"event dict keys {sorted(k for k in ev if k)}", construct=f"{REAL}:StreamToQueue.status::keys")
    puts = [c for c in walk_shallow(sq, include_self=False) if isinstance(c, ast.Call) and dotted(c.func) == "self.queue.put"]
    ctx.check("R-FIELD-PASSTHROUGH", "StreamToQueue.status enqueues exactly one event", sq, len(puts) == 1, f"{len(puts)} put() calls",
              construct=f"{REAL}:StreamToQueue.status::one-put")
    for m in ("startTestRun", "stopTestRun"):
        f = own_method(ctx, REAL, "StreamToQueue", m)
        puts = [c for c in walk_shallow(f, include_self=False) if isinstance(c, ast.Call) and dotted(c.func) == "self.queue.put"]
        ok = False
        if len(puts) == 1 and puts[0].args and isinstance(puts[0].args[0], ast.Call):
            kws = {k.arg: k.value for k in puts[0].args[0].keywords}
            ok = str_const(kws.get("event")) == m and dotted(kws.get("result")) == "self"
        ctx.check("R-FIELD-PASSTHROUGH", f"StreamToQueue.{m} enqueues its event with result=self", f, ok,
                  f"StreamToQueue.{m} does not put dict(event={m!r}, result=self)", construct=f"{REAL}:StreamToQueue.{m}::event")

    # ---------------------------------------------------------------- R-OWNED-FIELD-GUARD
    ts = own_method(ctx, REAL, "TimestampingStreamResult", "status")
    fills = []
    for n in walk_shallow(ts, include_self=False):
        if isinstance(n, ast.Assign) and dotted(n.targets[0]) == "timestamp":
            fills.append(n)
    src = [n for n in fills if isinstance(n.value, ast.Call) and dotted(n.value.func) in ("kwargs.pop", "kwargs.get") and n.value.args and str_const(n.value.args[0]) == "timestamp"]
    gen = [n for n in fills if n not in src]
    ok = len(src) == 1 and len(gen) == 1
    if ok:
        g = gen[0]
        p = getattr(g, "_parent", None)
        ok = isinstance(p, ast.If) and g in p.body and norm(p.test) == "timestamp is None"
    ctx.check("R-OWNED-FIELD-GUARD", "timestamp filled only when missing", ts, ok,
              "the generated timestamp is not assigned exactly under `timestamp is None` (a supplied timestamp could be overwritten)",
              construct=f"{REAL}:TimestampingStreamResult.status::only-when-none")
    ok_now = bool(gen) and isinstance(gen[0].value, ast.Call) and dotted(gen[0].value.func) in ("datetime.datetime.now", "datetime.now") and (
        (gen[0].value.args and dotted(gen[0].value.args[0]) in ("utc", "datetime.timezone.utc", "timezone.utc", "datetime.UTC"))
        or any(k.arg == "tz" and dotted(k.value) in ("utc", "datetime.timezone.utc", "timezone.utc") for k in gen[0].value.keywords))
    ctx.check("R-OWNED-FIELD-GUARD", "fill value is an aware UTC now", gen[0] if gen else ts, ok_now,
              "the filled timestamp is not datetime.now(<UTC tzinfo>)", construct=f"{REAL}:TimestampingStreamResult.status::utc-now")
    fwd = [c for c in walk_shallow(ts, include_self=False) if isinstance(c, ast.Call) and dotted(c.func) == "super().status"]
    ok = len(fwd) == 1 and any(k.arg == "timestamp" and dotted(k.value) == "timestamp" for k in fwd[0].keywords)
    ctx.check("R-OWNED-FIELD-GUARD", "timestamp forwarded", ts, ok, "the (supplied or filled) timestamp is not passed on", construct=f"{REAL}:TimestampingStreamResult.status::passes")
    # StreamFailFast
    ff = own_method(ctx, REAL, "StreamFailFast", "status")
    calls = [c for c in walk_shallow(ff, include_self=False) if isinstance(c, ast.Call) and dotted(c.func) == "self.on_error"]
    ok = False
    trig = None
    if len(calls) == 1:
        p = getattr(getattr(calls[0], "_parent", None), "_parent", None)
        if isinstance(p, ast.If) and isinstance(p.test, ast.Compare) and isinstance(p.test.ops[0], ast.In) and dotted(p.test.left) == "test_status":
            comp = p.test.comparators[0]
            if isinstance(comp, (ast.Tuple, ast.List, ast.Set)):
                trig = {str_const(e) for e in comp.elts}
                ok = trig == {"fail", "uxsuccess"} and not p.orelse
    ctx.check("R-OWNED-FIELD-GUARD", "fail-fast callback fires for exactly {fail, uxsuccess}", ff, ok,
              f"on_error is triggered by {sorted(trig) if trig else 'an unrecognised condition'}", construct=f"{REAL}:StreamFailFast.status::trigger")
    ff_params = [a.arg for a in ff.args.args[1:]]
    ctx.check("R-OWNED-FIELD-GUARD", "StreamFailFast.status has the schema's parameters", ff, ff_params == schema, f"{ff_params}", construct=f"{REAL}:StreamFailFast.status::signature")
    # StreamTagger
    tg = own_method(ctx, REAL, "StreamTagger", "status")
    a = Aliases(tg)
    out_name = None
    store = None
    for n in walk_shallow(tg, include_self=False):
        if isinstance(n, ast.Assign) and isinstance(n.targets[0], ast.Subscript) and dotted(n.targets[0].value) == "kwargs" and str_const(n.targets[0].slice) == "test_tags":
            store = n
    ok = False
    if store is not None and isinstance(store.value, ast.BoolOp) and isinstance(store.value.op, ast.Or) and len(store.value.values) == 2:
        out_name = dotted(store.value.values[0])
        ok = isinstance(store.value.values[1], ast.Constant) and store.value.values[1].value is None
    ctx.check("R-OWNED-FIELD-GUARD", "tagger sends None when no tags remain", store if store is not None else tg, ok,
              "outgoing test_tags is not `<set> or None`", construct=f"{REAL}:StreamTagger.status::none-when-empty")
    seq = []
    for n in tg.body:
        for c in walk_shallow(n):
            if isinstance(c, ast.Call) and isinstance(c.func, ast.Attribute) and dotted(c.func.value) == out_name and c.args:
                seq.append((c.func.attr, dotted(c.args[0])))
            if isinstance(c, ast.Assign) and dotted(c.targets[0]) == out_name and isinstance(c.value, ast.BinOp):
                op = {ast.BitOr: "update", ast.Sub: "difference_update"}.get(type(c.value.op))
                if op:
                    seq.append((op, dotted(c.value.right)))
            if isinstance(c, ast.AugAssign) and dotted(c.target) == out_name:
                op = {ast.BitOr: "update", ast.Sub: "difference_update"}.get(type(c.op))
                if op:
                    seq.append((op, dotted(c.value)))
    ok = seq == [("update", "self.add"), ("difference_update", "self.discard")]
    ctx.check("R-OWNED-FIELD-GUARD", "tagger computes (incoming | add) - discard", tg, ok,
              f"tag operations are {seq}", construct=f"{REAL}:StreamTagger.status::add-then-discard")
    init = own_method(ctx, REAL, "StreamTagger", "__init__")
    snap = {dotted(n.targets[0]): n.value for n in walk_shallow(init, include_self=False) if isinstance(n, ast.Assign)}
    ok = all(isinstance(snap.get(k), ast.Call) and dotted(snap[k].func) in ("frozenset", "set") for k in ("self.add", "self.discard"))
    ctx.check("R-OWNED-FIELD-GUARD", "tagger snapshots its add/discard sets", init, ok, "add/discard are stored without copying (later changes by the creator would leak in)",
              construct=f"{REAL}:StreamTagger.__init__::snapshot")
    ctx.assume("targets' own status() implementations are outside the decorators' responsibility")
