"""Twisted Deferreds as abstract values (shared by C14, C15, C20).

A Deferred is ("dfr", n); its state lives in the abstract State: "dfr.<n>" is ("pending",), ("ok", value),
("fail", failure) or ("paused", inner) -- fired, but its chain waits for a nested Deferred: .called is true, callbacks queue up -- and "dfr.<n>.cbs" the queue of callback pairs not yet run.  The model is Twisted's own
definition of a callback chain: addCallback / addErrback / addBoth / addCallbacks append a pair; a Deferred that
has a result runs its queue at once; a callback's return value is the next result, an exception it raises (any
exception -- Twisted catches everything) or a Failure it returns is the next failure, and a Deferred it returns
hands over that Deferred's result.  Since a chain's final result does not depend on *when* its Deferreds fire,
user functions are modelled as returning already-fired Deferreds (one abstract run per outcome).

Callables are first-class abstract values: nested functions and lambdas (("func", node), lexical closures
resolved by the interpreter), bound methods of wrapped objects (("bound", id, name)), methods of self
(("method", name)) and list.append on an exact local list (("listappend", key)).
"""

import ast

from .. import effects
from ..objects import ObjectDomain
from ..absint import FALSE, NONE, TOP, TRUE, Undecided, exc, unbox_deep, val
from ..astutil import FUNC_TYPES, attr_chain, dotted

DFR_METHODS = {"addCallback", "addErrback", "addBoth", "addCallbacks", "callback", "errback"}
USER_VALUE, USER_EXC = ("sym", "user-value"), ("exc", "UserError")
USER_KINDS = ("value", "raise", "fired-ok", "fired-fail", "pending")


def userfn(kind):
    return ("userfn", kind)


def is_dfr(v):
    return isinstance(v, tuple) and len(v) == 2 and v[0] == "dfr"


def is_failure(v):
    return isinstance(v, tuple) and v[:1] == ("failure",)


class DeferredDomain(ObjectDomain):

    def __init__(self, classes, dfr_results=None, **kw):
        super().__init__(classes, **kw)
        self.dfr_results = dict(dfr_results or {})   # dotted callee -> [("ok", v) | ("fail", f), ...]: returns an already-fired Deferred

    # -- Deferred objects ---------------------------------------------------------------------
    @staticmethod
    def new_dfr(st, outcome=("pending",)):
        n = st.get("ev.dfr", 0)
        return ("dfr", n), st.set("ev.dfr", n + 1).set(f"dfr.{n}", outcome).set(f"dfr.{n}.cbs", ())

    @staticmethod
    def result_of(st, d):
        return st.get(f"dfr.{d[1]}", ("pending",))

    def truth(self, value):
        if is_dfr(value) or is_failure(value) or (isinstance(value, tuple) and value[:1] in (("method",), ("listappend",), ("partial",), ("func",), ("userfn",))):
            return "T"
        return super().truth(value)

    def is_none(self, value):
        if is_dfr(value) or is_failure(value) or (isinstance(value, tuple) and value[:1] in (("method",), ("listappend",), ("func",), ("partial",), ("userfn",))):
            return "F"
        return super().is_none(value)

    def compare(self, op, left, right):
        # symbolic objects are distinct unless they are the same abstract value
        if isinstance(op, (ast.Eq, ast.NotEq, ast.Is, ast.IsNot)) and all(isinstance(v, tuple) and v and v[0] in self.IDENTITY_TAGS + ("dfr", "failure", "method") for v in (left, right)):
            same = left == right
            return "T" if same == isinstance(op, (ast.Eq, ast.Is)) else "F"
        return super().compare(op, left, right)

    # -- first-class callables ----------------------------------------------------------------
    def load_attr(self, chain, st, fr):
        if chain and chain[0] == "<yield>" and any((dotted(x) or "").split(".")[-1] == "inlineCallbacks" for x in getattr(fr.func, "decorator_list", [])):
            return self._yield(chain[2], st, fr)
        if len(chain) == 2 and all(isinstance(c, str) for c in chain) and chain[1] in ("called", "paused", "result"):
            v = st.get(fr.local(chain[0]), None)
            if is_dfr(v):
                res = self.result_of(st, v)
                if chain[1] == "called":
                    return FALSE if res[0] == "pending" else TRUE
                if chain[1] == "paused":
                    return ("const", 1 if res[0] == "paused" else 0)
                if res[0] != "pending":
                    return res[1]   # (a paused Deferred's .result is the nested Deferred it waits for)
        return super().load_attr(chain, st, fr)

    def _yield(self, value, st, fr):
        """`yield d` inside an inlineCallbacks generator: the Deferred's result, or its failure raised."""
        if not is_dfr(value):
            return [val(value, st)]
        res = self.result_of(st, value)
        if res[0] == "ok":
            return [val(res[1], st)]
        if res[0] == "fail":
            f = res[1]
            return [exc(f[1] if is_failure(f) and len(f) > 1 else ("exc", "Failure"), st.set(f"dfr.{value[1]}", ("ok", NONE)))]   # the failure is consumed
        raise Undecided("an inlineCallbacks generator waits for a Deferred that has not fired: outside the synchronous model")

    def apply(self, interp, fn, pos, kw, st, fr):
        """Call the abstract callable ``fn`` with abstract arguments -> list of Result."""
        if isinstance(fn, tuple) and fn[:1] == ("userfn",):
            # a user function of a given kind: returns / raises / returns a Deferred that has fired, failed or is pending
            log = st.get("ev.calls", ())
            pos, kw = [unbox_deep(v, st) for v in pos], [(k, unbox_deep(v, st)) for k, v in kw]
            s = st.set("ev.calls", log + (("user-function", tuple(pos), tuple(kw), fn[1]),))
            kind = fn[1]
            if kind == "value":
                return [val(USER_VALUE, s)]
            if kind == "raise":
                return [exc(USER_EXC, s)]
            oc = {"fired-ok": ("ok", USER_VALUE), "fired-fail": ("fail", ("failure", USER_EXC)), "pending": ("pending",)}[kind]
            dv, s2 = self.new_dfr(s, oc)
            return [val(dv, s2.set("ev.user_dfr", dv))]
        if isinstance(fn, tuple) and fn[:1] == ("method",) and "self." + fn[1] in self.dfr_results:
            return self._fired("self." + fn[1], pos, kw, st)
        return super().apply(interp, fn, pos, kw, st, fr)

    def _is_method_value(self, d):
        return d in self.dfr_results

    def _wrap_generator(self, f, results, fr):
        return self._maybe_generator(f, results)

    def _fired(self, d, pos, kw, st):
        s2 = st
        log = s2.get("ev.calls", ())
        s2 = s2.set("ev.calls", log + ((d, tuple(pos), tuple(kw), "ok"),)) if len(log) < self.log_cap else s2.set("ev.calls.overflow", 1)
        out = []
        for oc in self.dfr_results[d]:
            dv, s3 = self.new_dfr(s2, oc)
            out.append(val(dv, s3))
        return out

    def _maybe_generator(self, f, results):
        """A function decorated with inlineCallbacks returns a Deferred of its return value."""
        if not any((dotted(d_) or "").split(".")[-1] == "inlineCallbacks" for d_ in getattr(f, "decorator_list", [])):
            return results
        out = []
        for r in results:
            if r.kind == "val":
                dv, s2 = self.new_dfr(r.state, ("ok", r.value))
            else:
                dv, s2 = self.new_dfr(r.state, ("fail", ("failure", r.value)))
            out.append(val(dv, s2))
        return out

    # -- running a chain ----------------------------------------------------------------------
    def _to_outcome(self, r):
        """Result of a callback -> (new result of the Deferred, state)."""
        if r.kind == "exc":
            return ("fail", ("failure", r.value)), r.state
        v = r.value
        if is_failure(v):
            return ("fail", v), r.state
        if is_dfr(v):
            inner = self.result_of(r.state, v)
            if inner[0] in ("pending", "paused"):
                raise Undecided("a callback returned a Deferred that has not fired: outside the synchronous model")
            # the inner Deferred's result moves to the outer one
            return inner, r.state.set(f"dfr.{v[1]}", ("ok", NONE))
        return ("ok", v), r.state

    def fire(self, interp, d, st, fr):
        """Run the queued callbacks of ``d`` while it has a result -> list of States."""
        done = []
        work = [st]
        guard = 0
        while work:
            guard += 1
            if guard > 400:
                raise Undecided("callback chain too long for the model")
            s = work.pop()
            res = self.result_of(s, d)
            cbs = s.get(f"dfr.{d[1]}.cbs", ())
            if res[0] in ("pending", "paused") or not cbs:
                done.append(s)
                continue
            (cb, cb_pos, cb_kw), (eb, eb_pos, eb_kw) = cbs[0]
            s = s.set(f"dfr.{d[1]}.cbs", cbs[1:])
            fn, pos, kw = (cb, cb_pos, cb_kw) if res[0] == "ok" else (eb, eb_pos, eb_kw)
            if fn is None:
                work.append(s)
                continue
            for r in self.apply_refs(interp, fn, [res[1]] + list(pos), list(kw), s, fr):
                oc, s2 = self._to_outcome(r)
                work.append(s2.set(f"dfr.{d[1]}", oc))
        return list(dict.fromkeys(done))

    def _dfr_method(self, interp, dv, name, call, st, fr):
        out = []
        exprs = [a.value if isinstance(a, ast.Starred) else a for a in call.args] + [k.value for k in call.keywords]
        extra = name in ("addCallback", "addErrback", "addBoth")   # their further arguments are kept and handed to the callback later: the caller's own objects
        share = [extra and i_ >= 1 and not isinstance(a, ast.Starred) for i_, a in enumerate(call.args)] + [extra and k.arg is not None for k in call.keywords]
        for r in interp.eval_list(exprs, st, fr, share=share):
            if r.kind == "exc":
                out.append(r)
                continue
            pos = []
            for i_, (a, v) in enumerate(zip(call.args, r.value[: len(call.args)])):
                if isinstance(a, ast.Starred) and isinstance(v, tuple) and v[:1] == ("tuple",):
                    pos.extend(v[1:])
                elif i_ >= 1 and name in ("addCallback", "addErrback", "addBoth"):
                    pos.append(self.ref_or_value(interp, a, v, r.state, fr))   # extra callback arguments are aliases, not copies
                else:
                    pos.append(v)
            kw = []
            for k, v in zip(call.keywords, r.value[len(call.args):]):
                if k.arg is None and isinstance(v, tuple) and v[:1] == ("kwdict",):
                    kw.extend(v[1])
                elif k.arg is not None:
                    kw.append((k.arg, self.ref_or_value(interp, k.value, v, r.state, fr) if name in ("addCallback", "addErrback", "addBoth") else v))
            s = r.state
            key = f"dfr.{dv[1]}"
            if name in ("callback", "errback"):
                if self.result_of(s, dv)[0] != "pending":
                    out.append(exc(("exc", "AlreadyCalledError"), s))
                    continue
                arg = pos[0] if pos else (("failure", ("exc", "current")) if name == "errback" else NONE)
                if name == "errback" and not is_failure(arg):
                    arg = ("failure", arg)
                s = s.set(key, ("ok", arg) if name == "callback" and not is_failure(arg) else ("fail", arg))
                out.extend(val(NONE, s2) for s2 in self.fire(interp, dv, s, fr))
                continue
            first = {"addCallback": "callback", "addErrback": "errback", "addBoth": "callback", "addCallbacks": "callback"}[name]
            if not pos and any(k_ == first for k_, _ in kw):
                pos = [dict(kw)[first]]
                kw = [(k_, v_) for k_, v_ in kw if k_ != first]
            if not pos:
                out.append(exc(("exc", "TypeError"), s))
                continue
            nothing = (None, (), ())
            if name == "addCallback":
                pair = ((pos[0], tuple(pos[1:]), tuple(kw)), nothing)
            elif name == "addErrback":
                pair = (nothing, (pos[0], tuple(pos[1:]), tuple(kw)))
            elif name == "addBoth":
                pair = ((pos[0], tuple(pos[1:]), tuple(kw)), (pos[0], tuple(pos[1:]), tuple(kw)))
            else:   # addCallbacks(callback, errback=None, callbackArgs=None, callbackKeywords=None, errbackArgs=None, errbackKeywords=None)
                names = ("callback", "errback", "callbackArgs", "callbackKeywords", "errbackArgs", "errbackKeywords")
                bound = dict(zip(names, pos))
                bound.update(kw)
                if len(pos) > len(names) or set(bound) - set(names):
                    out.append(exc(("exc", "TypeError"), s))
                    continue

                def extra(a_, k_):
                    a_, k_ = bound.get(a_), bound.get(k_)
                    if a_ in (None, NONE):
                        a_ = ("tuple",)
                    if k_ in (None, NONE):
                        k_ = ("kwdict", ())
                    if not (isinstance(a_, tuple) and a_[:1] == ("tuple",) and isinstance(k_, tuple) and k_[:1] == ("kwdict",)):
                        raise Undecided("addCallbacks with extra arguments that are not exact")
                    return tuple(a_[1:]), tuple(k_[1])
                eb = bound.get("errback")
                pair = ((pos[0],) + extra("callbackArgs", "callbackKeywords"), ((eb,) + extra("errbackArgs", "errbackKeywords")) if eb is not None and eb != NONE else nothing)
            s = s.set(key + ".cbs", s.get(key + ".cbs", ()) + (pair,))
            out.extend(val(dv, s2) for s2 in self.fire(interp, dv, s, fr))
        return out

    # -- calls --------------------------------------------------------------------------------
    def call(self, interp, call, st, fr):
        d = dotted(call.func) or ""
        f_ = call.func
        if isinstance(f_, ast.Attribute) and f_.attr in DFR_METHODS and not d.startswith("super()"):
            # a method of a Deferred: the receiver is evaluated once
            out = []
            handled = True
            recv = interp.eval(f_.value, st, fr)
            if all(r.kind == "exc" or is_dfr(r.value) for r in recv) and any(r.kind == "val" for r in recv):
                for r in recv:
                    out.extend([r] if r.kind == "exc" else self._dfr_method(interp, r.value, f_.attr, call, r.state, fr))
                return out
            if any(isinstance(n_, ast.Call) for n_ in ast.walk(f_.value)) and any(r.kind == "val" and is_dfr(r.value) for r in recv):
                raise Undecided("a receiver expression is a Deferred on some paths only")
        if d.split(".")[-1] == "Failure" and len(call.args) <= 1 and not call.keywords:
            out = []
            for r in interp.eval_list(list(call.args), st, fr):
                if r.kind == "exc":
                    out.append(r)
                else:
                    e_ = r.value[0] if r.value else r.state.get("<handling>", ("exc", "current"))
                    out.append(val(("failure", e_), r.state))
            return out
        if isinstance(f_, ast.Attribute) and f_.attr == "raiseException" and not call.args:
            out = []
            handled = True
            for r in interp.eval(f_.value, st, fr):
                if r.kind == "exc":
                    out.append(r)
                elif is_failure(r.value):
                    out.append(exc(r.value[1], r.state))
                else:
                    handled = False
            if handled:
                return out
        if d.split(".")[-1] == "Deferred" and d in ("defer.Deferred", "Deferred") and not call.args:
            dv, s2 = self.new_dfr(st)
            return [val(dv, s2)]
        if d in ("defer.succeed", "succeed", "defer.fail", "fail") and len(call.args) <= 1:
            out = []
            for r in interp.eval_list(list(call.args), st, fr):
                if r.kind == "exc":
                    out.append(r)
                    continue
                arg = r.value[0] if r.value else NONE
                if d.endswith("fail"):
                    oc = ("fail", arg if is_failure(arg) else ("failure", arg if r.value else ("exc", "current")))
                else:
                    oc = ("ok", arg)
                dv, s2 = self.new_dfr(r.state, oc)
                out.append(val(dv, s2))
            return out
        if d in ("defer.maybeDeferred", "maybeDeferred") and call.args:
            out = []
            exprs = [a.value if isinstance(a, ast.Starred) else a for a in call.args] + [k.value for k in call.keywords]
            for r in interp.eval_list(exprs, st, fr):
                if r.kind == "exc":
                    out.append(r)
                    continue
                pos = []
                for a, v in zip(call.args, r.value[: len(call.args)]):
                    if isinstance(a, ast.Starred):
                        els = interp._exact_elements(v)
                        pos.extend(els if els is not None else [])
                    else:
                        pos.append(v)
                kw = []
                for k, v in zip(call.keywords, r.value[len(call.args):]):
                    if k.arg is None and isinstance(v, tuple) and v[:1] == ("kwdict",):
                        kw.extend(v[1])
                    elif k.arg is not None:
                        kw.append((k.arg, v))
                for r2 in self.apply(interp, pos[0], pos[1:], kw, r.state, fr):
                    if r2.kind == "val" and is_dfr(r2.value):
                        out.append(r2)
                        continue
                    oc, s2 = self._to_outcome(r2)
                    dv, s3 = self.new_dfr(s2, oc)
                    out.append(val(dv, s3))
            return out
        if d in self.dfr_results:
            out = []
            exprs = [a.value if isinstance(a, ast.Starred) else a for a in call.args] + [k.value for k in call.keywords]
            for r in interp.eval_list(exprs, st, fr):
                out.extend([r] if r.kind == "exc" else self._fired(d, r.value[: len(call.args)], tuple((k.arg or "**", v) for k, v in zip(call.keywords, r.value[len(call.args):])), r.state))
            return out
        # a local holding a user function of this model
        if isinstance(f_, ast.Name) and st.has(fr.local(f_.id)):
            v = st.get(fr.local(f_.id))
            if isinstance(v, tuple) and v[:1] == ("userfn",) and not any(isinstance(a, ast.Starred) for a in call.args) and all(k.arg is not None for k in call.keywords):
                out = []
                for r in interp.eval_list(list(call.args) + [k.value for k in call.keywords], st, fr):
                    if r.kind == "exc":
                        out.append(r)
                        continue
                    kw = [(k.arg, x) for k, x in zip(call.keywords, r.value[len(call.args):])]
                    out.extend(self.apply(interp, v, list(r.value[: len(call.args)]), kw, r.state, fr))
                return out
        # an inlineCallbacks method of self returns a Deferred
        hit = interp.resolve_callee(call, st, fr, self.classes) if self.inline and not (self.track(d) or d in self.results or d in self.raises or d in self.ctors) else None
        if hit is not None and any((dotted(x) or "").split(".")[-1] == "inlineCallbacks" for x in getattr(hit[0], "decorator_list", [])):
            return self._maybe_generator(hit[0], interp.call_function(hit[0], call, st, fr, receiver=hit[1], bind_self=hit[2]))
        return super().call(interp, call, st, fr)
