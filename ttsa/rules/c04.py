"""C04 -- run verdict and stop control are consistent with the outcomes reported."""

from ..absint import FALSE, NONE, TRUE
from ..loader import AnalysisError
from ..objects import is_inst
from . import resultmodel as rm
from .common import REAL, own_method

EXPLANATION = (
    "Client programs of the result classes, given as source and run as written (ttsa.rules.resultmodel): a scenario builds a "
    "stack of testtools' own result objects (TestResult, TextTestResult, ExtendedToOriginalDecorator, TestResultDecorator, "
    "Tagger, MultiTestResult, ThreadsafeForwardingResult, two-level stacks of them, ExtendedToOriginalDecorator over a plain "
    "2.6-style result, ExtendedToStreamDecorator over StreamSummary), reports a history and returns what a client reads back. "
    "Every class involved is interpreted by ttsa.objects -- constructors, properties and their setters, __getattr__ delegation, "
    "dispatch through getattr(result, message) -- and unittest.TestResult, where the lists and flags live, in the standard "
    "library's own source. R-VERDICT-LISTS: for every stack and each of the six outcomes, wasSuccessful() of the wrapper and of "
    "the wrapped result is False exactly after an error, a failure or an unexpected success, also when a passing test follows. "
    "R-RUN-RESET: a new startTestRun makes the verdict True again, empties every outcome collection and the stop flag, and "
    "keeps failfast. R-FAILFAST-SET: with failfast set -- on the target before wrapping or on the wrapper afterwards -- "
    "shouldStop of wrapper and target is False after startTest and True after the outcome exactly for the three failing "
    "outcomes. R-CONTROL-PLUMBED: stop() on the wrapper sets shouldStop on every wrapped result and on the wrapper. "
    "R-SUMMARY-AGREES: TextTestResult's writes to its stream after histories with 0..3 problems: the count in the 'Ran' line, "
    "OK iff wasSuccessful(), FAILED (failures=N) with N the number of problems, one section per problem. R-EXIT-STATUS: "
    "TestToolsTestRunner.run builds its result with the runner's failfast, brackets test.run(result) with startTestRun / "
    "stopTestRun also when the test raises, and returns what test.run returned; TestProgram.runTests exits with "
    "`not result.wasSuccessful()` of the result the runner returned, exactly when self.exit is set."
)

STACKS = {
    # name -> (lines that bind `target` and `r`, names of further wrapped results)
    "TestResult": ("target = TestResult()\n    r = target", ()),
    "TextTestResult": ("target = TextTestResult(stream)\n    r = target", ()),
    "ExtendedToOriginalDecorator": ("target = TestResult()\n    r = ExtendedToOriginalDecorator(target)", ()),
    "TestResultDecorator": ("target = TestResult()\n    r = TestResultDecorator(target)", ()),
    "Tagger": ("target = TestResult()\n    r = Tagger(target, {'a-tag'}, set())", ()),
    "MultiTestResult": ("target = TestResult()\n    other = TestResult()\n    r = MultiTestResult(target, other)", ("other",)),
    "ThreadsafeForwardingResult": ("target = TestResult()\n    r = ThreadsafeForwardingResult(target, semaphore)", ()),
    "Tagger over MultiTestResult": ("target = TestResult()\n    other = TestResult()\n    r = Tagger(MultiTestResult(target, other), set(), set())", ("other",)),
    "ExtendedToOriginalDecorator over TestResultDecorator": ("target = TestResult()\n    r = ExtendedToOriginalDecorator(TestResultDecorator(target))", ()),
    "ThreadsafeForwardingResult over MultiTestResult": ("target = TestResult()\n    other = TestResult()\n    r = ThreadsafeForwardingResult(MultiTestResult(target, other), semaphore)", ("other",)),
}
ARGS = dict(test=rm.TEST, err=rm.ERR, stream=("wobj", "stream"), semaphore=("wobj", "semaphore"))
HEAD = "def scenario(test, err, stream, semaphore):\n    "


def _bools(v, n):
    """The n booleans of a returned tuple, or None."""
    if isinstance(v, tuple) and v[:1] == ("tuple",) and len(v) == n + 1 and all(x in (TRUE, FALSE) for x in v[1:]):
        return [x == TRUE for x in v[1:]]
    return None


def _run(ctx, body, **kw):
    sc = rm.Scenario(ctx, **kw)
    return sc.run(HEAD + body, **ARGS)


def check_verdicts(ctx, anchor):
    stacks = STACKS if ctx.tier == "thorough" else {k: v for k, v in STACKS.items() if "over" not in k or k.startswith("Tagger")}
    for name, (build, others) in stacks.items():
        reads = ", ".join(["r.wasSuccessful()", "target.wasSuccessful()"] + [f"{o}.wasSuccessful()" for o in others])
        n = 2 + len(others)
        for oc in rm.OUTCOMES:
            body = (f"{build}\n    r.startTestRun()\n    r.startTest(test)\n    {rm.outcome_call(oc)}\n    r.stopTest(test)\n    first = ({reads})\n"
                    f"    r.startTest(test)\n    r.addSuccess(test)\n    r.stopTest(test)\n    second = ({reads})\n    r.stopTestRun()\n    r.startTestRun()\n    third = ({reads})\n    return first + second + third\n")
            res = _run(ctx, body)
            failing = oc in rm.FAILING
            problems, reset = set(), set()
            for r in res:
                got = _bools(r.value, 3 * n) if r.kind == "val" else None
                if got is None:
                    problems.add(f"the scenario {'raises ' + repr(r.value) if r.kind == 'exc' else 'reads back ' + repr(r.value)[:160]}")
                    continue
                who = ["the wrapper", "the wrapped result"] + [f"the other wrapped result" for _ in others]
                for i, w in enumerate(who):
                    if got[i] != (not failing):
                        problems.add(f"after {oc}, wasSuccessful() of {w} is {got[i]}")
                    if got[n + i] != (not failing):
                        problems.add(f"after {oc} and then a passing test, wasSuccessful() of {w} is {got[n + i]}")
                    if not got[2 * n + i]:
                        reset.add(f"after {oc} in the previous run, wasSuccessful() of {w} is False right after the next startTestRun()")
            ctx.check("R-VERDICT-LISTS", f"[{name}] wasSuccessful() after {oc}: {'False' if failing else 'True'}, for the wrapper and what it wraps", anchor, bool(res) and not problems,
                      "; ".join(sorted(problems)) or "the scenario was not followed to its end", examined=len(res), construct=f"{REAL}:{name}::verdict after {oc}")
            if failing:
                ctx.check("R-RUN-RESET", f"[{name}] a new startTestRun() forgets the {oc} of the previous run", anchor, bool(res) and not reset and not any("raises" in p for p in problems),
                          "; ".join(sorted(reset)) or "the scenario was not followed to its end", examined=len(res), construct=f"{REAL}:{name}::verdict reset after {oc}")
    ctx.floor("R-VERDICT-LISTS", 30, "(stack, outcome) pairs")


def check_failfast(ctx, anchor):
    stacks = STACKS if ctx.tier == "thorough" else {k: v for k, v in STACKS.items() if "over" not in k}
    for name, (build, others) in stacks.items():
        lines = build.split("\n    ")
        reads = ", ".join(["r.shouldStop", "target.shouldStop"] + [f"{o}.shouldStop" for o in others])
        n = 2 + len(others)
        for how in ("on the wrapped result, before wrapping", "on the wrapper, after wrapping"):
            if name in ("TestResult", "TextTestResult") and how.startswith("on the wrapped"):
                continue
            setup = "\n    ".join(lines[:1] + ["target.failfast = True"] + [f"{o_}.failfast = True" for o_ in ()] + lines[1:]) if how.startswith("on the wrapped") else build + "\n    r.failfast = True"
            problems = set()
            n_res = 0
            for oc in rm.OUTCOMES:
                body = (f"{setup}\n    r.startTestRun()\n    r.startTest(test)\n    before = ({reads})\n    {rm.outcome_call(oc)}\n    after = ({reads})\n    r.stopTest(test)\n    return before + after\n")
                res = _run(ctx, body)
                n_res += len(res)
                if not res:
                    problems.add("the scenario was not followed to its end")
                for r in res:
                    got = _bools(r.value, 2 * n) if r.kind == "val" else None
                    if got is None:
                        problems.add(f"with {oc} the scenario {'raises ' + repr(r.value) if r.kind == 'exc' else 'reads back ' + repr(r.value)[:160]}")
                        continue
                    if any(got[:n]):
                        problems.add(f"shouldStop is already True after startTest (before {oc})")
                    # every wrapped result of a multiplexer had failfast only if it was set through the wrapper
                    want = oc in rm.FAILING
                    watch = [0, 1] if how.startswith("on the wrapped") else list(range(n))
                    for i in watch:
                        if got[n + i] != want:
                            problems.add(f"after {oc}, shouldStop of {'the wrapper' if i == 0 else 'the wrapped result' if i == 1 else 'the other wrapped result'} is {got[n + i]}; expected {want}")
            known = name.startswith("ThreadsafeForwardingResult") and how.startswith("on the wrapper")
            if known:
                # (recorded finding: the forwarder keeps a failfast of its own)
                ctx.check("R-CONTROL-PLUMBED", f"[{name}; failfast set {how}] the run stops at the first error / failure / unexpected success", anchor, not problems,
                          "; ".join(sorted(problems)), examined=n_res, construct=f"{REAL}:ThreadsafeForwardingResult::failfast")
            else:
                ctx.check("R-FAILFAST-SET", f"[{name}; failfast set {how}] shouldStop becomes True at the first error / failure / unexpected success, and not earlier", anchor, not problems,
                          "; ".join(sorted(problems)), examined=n_res, construct=f"{REAL}:{name}::failfast {how}")
    # a 2.6-style result below ExtendedToOriginalDecorator: the decorator keeps failfast and shouldStop itself
    old_style_lacks = {("plain", a) for a in ("failfast", "shouldStop", "stop", "addSkip", "addExpectedFailure", "addUnexpectedSuccess", "startTestRun", "stopTestRun", "tags", "time", "current_tags")}
    problems = set()
    n_res = 0
    for oc in rm.OUTCOMES:
        body = (f"r = ExtendedToOriginalDecorator(plain)\n    r.failfast = True\n    r.startTestRun()\n    r.startTest(test)\n    before = r.shouldStop\n    {rm.outcome_call(oc)}\n"
                "    after = r.shouldStop\n    return (before, after)\n")
        sc = rm.Scenario(ctx, lacks=old_style_lacks)
        res = sc.run("def scenario(test, err, plain):\n    " + body, test=rm.TEST, err=rm.ERR, plain=("wobj", "plain"))
        n_res += len(res)
        for r in res:
            got = _bools(r.value, 2) if r.kind == "val" else None
            if got is None:
                problems.add(f"with {oc} the scenario {'raises ' + repr(r.value) if r.kind == 'exc' else 'reads back ' + repr(r.value)[:160]}")
            elif got != [False, oc in rm.FAILING]:
                problems.add(f"shouldStop before / after {oc} is {got}; expected [False, {oc in rm.FAILING}]")
    ctx.check("R-FAILFAST-SET", "[ExtendedToOriginalDecorator over a 2.6-style result] failfast set on the decorator stops at the first failing outcome", anchor, n_res > 0 and not problems,
              "; ".join(sorted(problems)) or "no path", examined=n_res, construct=f"{REAL}:ExtendedToOriginalDecorator::failfast over an old-style result")
    # ExtendedToStreamDecorator: failfast is a StreamFailFast among its targets
    problems = set()
    n_res = 0
    for oc in rm.OUTCOMES:
        body = (f"target = StreamSummary()\n    r = ExtendedToStreamDecorator(target)\n    r.failfast = True\n    r.startTestRun()\n    r.startTest(test)\n    before = r.shouldStop\n    {rm.outcome_call(oc, details=True)}\n"
                "    after = r.shouldStop\n    r.stopTest(test)\n    return (before, after, r.wasSuccessful(), target.wasSuccessful())\n")
        sc = rm.Scenario(ctx, oracle=lambda n_, pos, kw: [("val", ("const", "a.test.id"))] if n_ == "test.id" else None)
        res = sc.run("def scenario(test, err):\n    " + body, test=rm.TEST, err=rm.ERR)
        n_res += len(res)
        for r in res:
            got = _bools(r.value, 4) if r.kind == "val" else None
            want = [False, oc in rm.FAILING, oc not in rm.FAILING, oc not in rm.FAILING]
            if got is not None and oc == "addUnexpectedSuccess":
                # (the stream summary's verdict "follows Python" for unexpected successes -- pinned by the repository's own contract
                #  tests; the property asks the stream verdict to be false for failed or incomplete tests only)
                got, want = got[:2], want[:2]
            if got is None:
                problems.add(f"with {oc} the scenario {'raises ' + repr(r.value) if r.kind == 'exc' else 'reads back ' + repr(r.value)[:160]}")
            elif got != want:
                problems.add(f"(shouldStop before, after, wasSuccessful of the decorator, of the stream summary) around {oc} is {got}; expected {want}")
    ctx.check("R-FAILFAST-SET", "[ExtendedToStreamDecorator over StreamSummary] failfast stops at the first failing outcome; the verdicts follow the outcomes", anchor, n_res > 0 and not problems,
              "; ".join(sorted(problems)) or "no path", examined=n_res, construct=f"{REAL}:ExtendedToStreamDecorator::failfast")
    ctx.floor("R-FAILFAST-SET", 8, "stacks")


def check_stop(ctx, anchor):
    for name, (build, others) in STACKS.items():
        reads = ", ".join(["r.shouldStop", "target.shouldStop"] + [f"{o}.shouldStop" for o in others])
        n = 2 + len(others)
        body = f"{build}\n    r.startTestRun()\n    before = ({reads})\n    r.stop()\n    after = ({reads})\n    r.startTestRun()\n    again = ({reads})\n    return before + after + again\n"
        res = _run(ctx, body)
        problems, reset = set(), set()
        for r in res:
            got = _bools(r.value, 3 * n) if r.kind == "val" else None
            if got is None:
                problems.add(f"the scenario {'raises ' + repr(r.value) if r.kind == 'exc' else 'reads back ' + repr(r.value)[:160]}")
                continue
            if any(got[:n]):
                problems.add("shouldStop is True before stop() was called")
            if not all(got[n:2 * n]):
                problems.add(f"after stop() on the wrapper, shouldStop of (wrapper, wrapped result{', other wrapped result' * len(others)}) is {got[n:2 * n]}: suites asking those would go on dispatching tests")
            if any(got[2 * n:]):
                reset.add(f"after stop() and a new startTestRun(), shouldStop of (wrapper, wrapped result{', other' * len(others)}) is {got[2 * n:]}: the new run would not start")
        ctx.check("R-CONTROL-PLUMBED", f"[{name}] stop() reaches the wrapper and every wrapped result", anchor, bool(res) and not problems, "; ".join(sorted(problems)) or "no path",
                  examined=len(res), construct=f"{REAL}:{name}::stop")
        ctx.check("R-RUN-RESET", f"[{name}] startTestRun() clears a stop requested in the previous run", anchor, bool(res) and not reset and not problems, "; ".join(sorted(reset | problems)) or "no path",
                  examined=len(res), construct=f"{REAL}:{name}::stop reset")
    # over a 2.6-style result: stop() is kept by the decorator (there is nowhere to forward it)
    old_style_lacks = {("plain", a) for a in ("failfast", "shouldStop", "stop")}
    sc = rm.Scenario(ctx, lacks=old_style_lacks)
    res = sc.run("def scenario(plain):\n    r = ExtendedToOriginalDecorator(plain)\n    before = r.shouldStop\n    r.stop()\n    return (before, r.shouldStop)\n", plain=("wobj", "plain"))
    bad = [repr(r.value)[:120] for r in res if r.kind != "val" or _bools(r.value, 2) != [False, True]]
    ctx.check("R-CONTROL-PLUMBED", "[ExtendedToOriginalDecorator over a 2.6-style result] stop() is remembered by the decorator", anchor, bool(res) and not bad,
              f"(shouldStop before, after stop()) is {bad}; expected (False, True)", examined=len(res), construct=f"{REAL}:ExtendedToOriginalDecorator::stop over an old-style result")


def check_reset(ctx, anchor):
    for name in ("TestResult", "TextTestResult"):
        build = STACKS[name][0]
        body = (f"{build}\n    r.failfast = True\n    r.startTestRun()\n    r.startTest(test)\n    r.addError(test, err)\n    r.addFailure(test, err)\n    r.addSkip(test, 'a reason')\n"
                "    r.addExpectedFailure(test, err)\n    r.addUnexpectedSuccess(test)\n    r.stopTest(test)\n    r.stopTestRun()\n    r.startTestRun()\n"
                "    return (len(r.errors), len(r.failures), len(r.skip_reasons), len(r.expectedFailures), len(r.unexpectedSuccesses), r.testsRun, r.failfast, r.shouldStop)\n")
        res = _run(ctx, body)
        problems = set()
        want = ("tuple",) + (("const", 0),) * 6 + (TRUE, FALSE)
        for r in res:
            if r.kind != "val" or r.value != want:
                problems.add(f"after a run with every kind of outcome and a new startTestRun(), (errors, failures, skip reasons, expected failures, unexpected successes, testsRun, failfast, shouldStop) is "
                             f"{r.value!r}; expected all collections empty, no test counted, failfast still True, shouldStop False")
        ctx.check("R-RUN-RESET", f"[{name}] startTestRun() empties every outcome collection and the counters; failfast survives", anchor, bool(res) and not problems,
                  "; ".join(sorted(problems))[:700] or "no path", examined=len(res), construct=f"{REAL}:{name}::collections reset")


def check_more(ctx, anchor):
    """Scenarios in which the wrapped results differ from each other, or lack part of the protocol."""
    # a multiplexer's verdict is the conjunction of the verdicts of what it wraps
    body = ("target = TestResult()\n    other = TestResult()\n    other.startTest(test)\n    other.addFailure(test, err)\n    other.stopTest(test)\n    r = MultiTestResult(target, other)\n"
            "    a = (r.wasSuccessful(), target.wasSuccessful(), other.wasSuccessful())\n    r2 = MultiTestResult(target, TestResult())\n    return a + (r2.wasSuccessful(),)\n")
    res = _run(ctx, body)
    bad = [repr(r.value)[:120] for r in res if r.kind != "val" or _bools(r.value, 4) != [False, True, False, True]]
    ctx.check("R-VERDICT-LISTS", "[MultiTestResult] wasSuccessful() is True only if every wrapped result is successful", anchor, bool(res) and not bad,
              f"with one failed and one successful wrapped result, (multiplexer, first, second, a multiplexer over successful ones) say {bad}; expected (False, True, False, True)", examined=len(res),
              construct=f"{REAL}:MultiTestResult::verdict is the conjunction")
    # a result that knows failfast but has no addUnexpectedSuccess: the fallback (a failure) still stops the run
    lacks = {("plain", "addUnexpectedSuccess")}
    sc = rm.Scenario(ctx, lacks=lacks, attrs={"self": ("self",), "plain.failfast": TRUE, "test.failureException": ("excclass", "AssertionError")},
                     oracle=lambda n_, pos, kw: [("exc", ("exc", "AssertionError", "test.fail"))] if n_ == "test.fail" else None)
    res = sc.run("def scenario(test, plain):\n    r = ExtendedToOriginalDecorator(plain)\n    r.startTest(test)\n    r.addUnexpectedSuccess(test)\n    r.stopTest(test)\n    return None\n", test=rm.TEST, plain=("wobj", "plain"))
    problems = set()
    for r in res:
        got = [n for n, pos, kw in rm.calls(r, "plain.")]
        if got.count("stop") < 1 or got.count("addFailure") != 1 or (got.index("stop") < got.index("addFailure") if "stop" in got and "addFailure" in got else False):
            problems.add(f"the result receives {got}; expected the unexpected success as one failure and, failfast being set on it, stop() after that")
    ctx.check("R-FAILFAST-SET", "[ExtendedToOriginalDecorator over a result with failfast but without addUnexpectedSuccess] the unexpected success stops the run", anchor, bool(res) and not problems,
              "; ".join(sorted(problems)) or "no path", examined=len(res), construct=f"{REAL}:ExtendedToOriginalDecorator.addUnexpectedSuccess::failfast of the wrapped result")
    # a foreign result that has the whole protocol and failfast set: the decorator stops it at each failing outcome, and only then
    problems = set()
    n_res = 0
    for oc in rm.OUTCOMES:
        sc = rm.Scenario(ctx, attrs={"self": ("self",), "plain.failfast": TRUE})
        res = sc.run(f"def scenario(test, err, plain):\n    r = ExtendedToOriginalDecorator(plain)\n    r.startTest(test)\n    {rm.outcome_call(oc)}\n    r.stopTest(test)\n    return None\n",
                     test=rm.TEST, err=rm.ERR, plain=("wobj", "plain"))
        n_res += len(res)
        for r in res:
            got = [n for n, pos, kw in rm.calls(r, "plain.")]
            if (got.count("stop") >= 1) != (oc in rm.FAILING) or got.count(oc) != 1:
                problems.add(f"with {oc} the result receives {got}; expected the outcome once and stop() {'after it' if oc in rm.FAILING else 'not at all'}")
    ctx.check("R-FAILFAST-SET", "[ExtendedToOriginalDecorator over a foreign result with failfast set] stop() follows exactly the failing outcomes", anchor, n_res > 0 and not problems,
              "; ".join(sorted(problems)) or "no path", examined=n_res, construct=f"{REAL}:ExtendedToOriginalDecorator::failfast of a foreign result")
    # the stream summary forgets the previous run as well
    body = ("s = StreamSummary()\n    s.startTestRun()\n    s.status(test_id='a', test_status='uxsuccess')\n    s.status(test_id='b', test_status='fail')\n    s.status(test_id='c', test_status='skip')\n"
            "    s.status(test_id='d', test_status='xfail')\n    s.stopTestRun()\n    first = (len(s.errors), len(s.failures), len(s.unexpectedSuccesses), len(s.skipped), len(s.expectedFailures), s.testsRun)\n"
            "    s.startTestRun()\n    return first + (len(s.errors), len(s.failures), len(s.unexpectedSuccesses), len(s.skipped), len(s.expectedFailures), s.testsRun, s.wasSuccessful())\n")
    sc = rm.Scenario(ctx)
    res = sc.run("def scenario():\n    " + body)
    problems = set()
    for r in res:
        v = r.value
        if r.kind != "val" or not (isinstance(v, tuple) and len(v) == 14):
            problems.add(f"the scenario {'raises ' + repr(v) if r.kind == 'exc' else 'reads back ' + repr(v)[:200]}")
        elif v[7:] != (("const", 0),) * 6 + (TRUE,):
            problems.add(f"after a run with a failure, an unexpected success, a skip and an expected failure (counts {v[1:7]!r}) a new startTestRun() leaves (errors, failures, unexpected successes, skipped, "
                         f"expected failures, testsRun, wasSuccessful) = {v[7:]!r}; expected everything empty and True")
    ctx.check("R-RUN-RESET", "[StreamSummary] startTestRun() empties every outcome list and the counter", anchor, bool(res) and not problems, "; ".join(sorted(problems))[:700] or "no path",
              examined=len(res), construct=f"{REAL}:StreamSummary::collections reset")


def check_summary(ctx, anchor):
    histories = [
        ("no test", [], 0),
        ("one passing test", ["addSuccess"], 0),
        ("an error and a passing test", ["addError", "addSuccess"], 1),
        ("a failure", ["addFailure"], 1),
        ("an unexpected success", ["addUnexpectedSuccess"], 1),
        ("a skip and an expected failure", ["addSkip", "addExpectedFailure"], 0),
        ("an error, a failure and an unexpected success", ["addError", "addFailure", "addUnexpectedSuccess"], 3),
    ]
    for label, outcomes, n_problems in histories:
        body = "r = TextTestResult(stream)\n    r.startTestRun()\n" + "".join(f"    r.startTest(test)\n    {rm.outcome_call(oc)}\n    r.stopTest(test)\n" for oc in outcomes) + "    r.stopTestRun()\n    return r.wasSuccessful()\n"
        res = _run(ctx, body, oracle=lambda n_, pos, kw: [("val", ("const", "a.test.id"))] if n_ == "test.id" else None)
        problems = set()
        for r in res:
            if r.kind != "val" or r.value not in (TRUE, FALSE):
                problems.add(f"the scenario {'raises ' + repr(r.value) if r.kind == 'exc' else 'reads back ' + repr(r.value)[:100]}")
                continue
            ok = r.value == TRUE
            writes = [pos[0] if pos else None for n_, pos, kw in rm.calls(r, "stream.") if n_ == "write"]
            texts = [w[1] for w in writes if isinstance(w, tuple) and w[:1] == ("const",) and isinstance(w[1], str)]
            joined = "".join(texts)
            ran = [w for w in writes if isinstance(w, tuple) and w[:1] == ("fmt",) and "Ran %d test" in str(w[1])]
            if len(ran) != 1 or not (isinstance(ran[0][2], tuple) and ran[0][2][:2] == ("tuple", ("const", len(outcomes)))):
                problems.add(f"the 'Ran N tests' line is written {len(ran)} time(s) with {ran[0][2][1] if ran and isinstance(ran[0][2], tuple) and len(ran[0][2]) > 1 else '?'}; expected once with {len(outcomes)}")
            if ("OK" in joined) != ok or ("FAILED (" in joined) != (not ok):
                problems.add(f"wasSuccessful() is {ok} but the summary says {'OK' if 'OK' in joined else ''}{' FAILED' if 'FAILED (' in joined else ''}")
            if not ok and f"failures={n_problems}" not in joined:
                problems.add(f"the failure total written is {[t for t in texts if t.startswith('failures=')]}; expected failures={n_problems}")
            def text(w):
                parts = w[1:] if isinstance(w, tuple) and w[:1] == ("concat",) else (w,)
                return "".join(p[1] for p in parts if isinstance(p, tuple) and p[:1] == ("const",) and isinstance(p[1], str))
            sections = [w for w in writes if any(label in text(w) for label in ("ERROR: ", "FAIL: ", "UNEXPECTED SUCCESS: "))]
            if len(sections) != n_problems:
                problems.add(f"{len(sections)} problem section(s) are written; expected one for each of the {n_problems} problems")
            if ok != (n_problems == 0):
                problems.add(f"wasSuccessful() is {ok} after {n_problems} problem(s)")
        ctx.check("R-SUMMARY-AGREES", f"[{label}] the summary written by stopTestRun agrees with wasSuccessful() and the outcomes", anchor, bool(res) and not problems,
                  "; ".join(sorted(problems))[:800] or "no path", examined=len(res), construct=f"{REAL}:TextTestResult.stopTestRun::summary {label}")
    ctx.floor("R-SUMMARY-AGREES", 5, "histories")


def check_exit_status(ctx):
    RUN = "testtools.run"
    from .. import effects
    classes = ctx.classes
    rt = own_method(ctx, RUN, "TestProgram", "runTests")
    tp = classes.get(RUN, "TestProgram")
    RUNNER, RESULT, SUITE = ("wobj", "runner"), ("wobj", "the_result"), ("wobj", "suite")
    problems = []
    for exit_flag in (TRUE, FALSE):
        for verdict in (TRUE, FALSE):
            def oracle(n, pos, kw, verdict=verdict):
                if n == "runner.run":
                    return [("val", RESULT)]
                if n == "the_result.wasSuccessful":
                    return [("val", verdict)]
                if n.startswith(("runner.", "the_result.", "suite.", "other_result.")):
                    return [("val", NONE)]
                return None
            from . import streamobjects as so
            dom = so.StreamDomain(classes, accepting=("runner", "the_result", "suite"), attrs={"self": ("self",), "self.exit": exit_flag, "self.test": SUITE, "self.catchbreak": FALSE},
                                  track=lambda d: d == "sys.exit", oracle=oracle, results={"self._get_runner": [RUNNER]}, raises={"sys.exit": [("exc", "SystemExit")]})
            res = [r for r in effects.run(ctx, dom, rt, tp) if not (r.kind == "exc" and r.value != ("exc", "SystemExit"))]
            seen_ = {tuple((e[0], e[1]) for e in effects.calls(r, "sys.exit")) for r in res}
            want = {(("sys.exit", (FALSE if verdict == TRUE else TRUE,)),)} if exit_flag == TRUE else {()}
            if seen_ != want:
                problems.append(f"exit={exit_flag}, the runner's result says wasSuccessful()={verdict}: sys.exit calls {sorted(map(repr, seen_))}")
            if any([e[1] for e in effects.calls(r, "runner.run")] != [(SUITE,)] for r in res):
                problems.append("the runner is not asked to run self.test exactly once")
    ctx.check("R-EXIT-STATUS", "TestProgram.runTests exits with `not wasSuccessful()` of the result the runner returned, exactly when self.exit is set", rt, not problems,
              "; ".join(problems), construct=f"{RUN}:TestProgram.runTests::exit")
    # the runner itself
    rr = own_method(ctx, RUN, "TestToolsTestRunner", "run")
    src = "def scenario(test, stdout):\n    runner = TestToolsTestRunner(stdout=stdout, failfast=True)\n    return runner.run(test)\n"
    RET = ("sym", "what test.run returned")
    for raising in (False, True):
        def oracle(n, pos, kw, raising=raising):
            if n == "test.run":
                return [("exc", ("exc", "KeyboardInterrupt"))] if raising else [("val", RET)]
            return None
        sc = rm.Scenario(ctx, module=RUN, accepting=("test", "stdout", "stream"), oracle=oracle, results={"unicode_output_stream": [("wobj", "stream")]}, track=lambda d: d == "unicode_output_stream")
        res = sc.run(src, test=rm.TEST, stdout=("wobj", "stdout"))
        problems = set()
        for r in res:
            log = r.state.get("ev.calls", ())
            names = [e[0] for e in log]
            runs = [e for e in log if e[0] == "test.run"]
            if len(runs) != 1 or len(runs[0][1]) != 1 or not is_inst(runs[0][1][0]):
                problems.add(f"test.run is called {len(runs)} time(s) with {[e[1] for e in runs]!r}; expected once with the result object")
                continue
            result = runs[0][1][0]
            if r.state.get(f"inst.{result[1]}.failfast") != TRUE:
                problems.add("the result handed to the test does not have the runner's failfast")
            i = names.index("test.run")
            before = [e for e in log[:i] if e[0] == "stream.write"]
            after = [e for e in log[i + 1:] if e[0] == "stream.write" and isinstance(e[1][0], tuple) and e[1][0][:1] == ("fmt",) and "Ran %d" in str(e[1][0][1])]
            if not before or len(after) != 1:
                problems.add(f"the run is not bracketed by startTestRun / stopTestRun {'when the test raises' if raising else ''} (writes before: {len(before)}, summary lines after: {len(after)})")
            if not raising and (r.kind != "val" or r.value != RET):
                problems.add(f"run() returns {r.value!r} instead of what test.run(result) returned")
            if raising and not (r.kind == "exc" and r.value[:2] == ("exc", "KeyboardInterrupt")):
                problems.add("an exception of test.run does not propagate out of run()")
        ctx.check("R-EXIT-STATUS", f"TestToolsTestRunner.run ({'the test raises' if raising else 'the test returns'}): a failfast result, bracketed by startTestRun / stopTestRun, run() gives back test.run's result",
                  rr, bool(res) and not problems, "; ".join(sorted(problems)) or "no path", examined=len(res), construct=f"{RUN}:TestToolsTestRunner.run::{'raises' if raising else 'returns'}")


def run(ctx):
    ctx.rule("R-VERDICT-LISTS", "wasSuccessful() of every result and wrapper is False exactly after an error, a failure or an unexpected success")
    ctx.rule("R-SUMMARY-AGREES", "TextTestResult's summary (count, OK / FAILED, failure total, sections) agrees with wasSuccessful() and the outcomes")
    ctx.rule("R-EXIT-STATUS", "exit status = not wasSuccessful(); the runner brackets the run and passes failfast")
    ctx.rule("R-FAILFAST-SET", "under failfast shouldStop becomes True at the first error / failure / unexpected success and not earlier")
    ctx.rule("R-CONTROL-PLUMBED", "stop / shouldStop / failfast of adapters reach the wrapped results")
    ctx.rule("R-RUN-RESET", "startTestRun re-initialises verdict, collections and stop flag; failfast survives")
    tr = ctx.classes.get(REAL, "TestResult")
    if tr is None:
        raise AnalysisError("anchor vanished: testtools.testresult.real.TestResult")
    check_verdicts(ctx, tr.node)
    check_failfast(ctx, tr.node)
    check_stop(ctx, tr.node)
    check_reset(ctx, tr.node)
    check_more(ctx, tr.node)
    check_summary(ctx, ctx.classes.get(REAL, "TextTestResult").node)
    check_exit_status(ctx)
