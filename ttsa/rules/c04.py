"""C04 -- run verdict and stop control are consistent with the outcomes reported."""

import ast

from ..astutil import FUNC_TYPES, attr_chain, dotted, norm, walk_shallow
from ..cfg import live_nodes, node_calls
from ..loader import AnalysisError
from ..symbols import instance_attrs_assigned
from .common import REAL, cfg_of, nodes_calling, own_method, str_const

EXPLANATION = (
    "Sibling-agreement and plumbing rules over every result class of testtools.testresult.real "
    "and testtools.run: R-VERDICT-LISTS (a wasSuccessful that reads outcome lists must read every "
    "list a failing outcome of the same class appends to, and no list a passing outcome appends "
    "to; delegating implementations must delegate to all wrapped results), R-SUMMARY-AGREES "
    "(TextTestResult.stopTestRun chooses OK/FAILED by wasSuccessful(), sums exactly the lists "
    "wasSuccessful reads, renders each of them, prints testsRun), R-EXIT-STATUS (exit status "
    "derived only from not wasSuccessful(); the runner brackets startTestRun/stopTestRun with "
    "finally and passes failfast on), R-FAILFAST-SET (the outcome methods that stop under failfast "
    "are exactly addError/addFailure/addUnexpectedSuccess in every class that consults failfast; "
    "the stream trigger set equals the statuses emitted for those methods), R-CONTROL-PLUMBED "
    "(stop/shouldStop/failfast of every adapter and multiplexer reach the wrapped result(s)), "
    "R-RUN-RESET (every collection an outcome appends to is re-initialised by startTestRun; "
    "failfast and tb_locals survive it). Per-call invariants; histories follow by induction."
)

FAILING = {"addError", "addFailure", "addUnexpectedSuccess"}
PASSING = {"addSuccess", "addSkip", "addExpectedFailure"}
VERDICT_LISTS = {"errors", "failures", "unexpectedSuccesses"}


def self_attrs_loaded(func):
    out = set()
    for n in ast.walk(func):
        if isinstance(n, ast.Attribute) and isinstance(n.ctx, ast.Load):
            ch = attr_chain(n)
            if ch and ch[0] == "self" and len(ch) == 2:
                out.add(ch[1])
    return out


def self_lists_appended(func):
    """self.<X> collections a function adds to (append / setdefault / += / [k]=)."""
    out = set()
    for n in ast.walk(func):
        if isinstance(n, ast.Call) and isinstance(n.func, ast.Attribute) and n.func.attr in ("append", "extend", "add", "setdefault", "insert"):
            ch = attr_chain(n.func.value)
            if ch and ch[0] == "self" and len(ch) == 2:
                out.add(ch[1])
    return out


def calls_named(func, name):
    return [c for c in walk_shallow(func, include_self=False) if isinstance(c, ast.Call) and dotted(c.func) == name]


FAILFAST_IMPLEMENTERS = ("TestResult", "ExtendedToOriginalDecorator", "TestByTestResult")


def run(ctx):
    ctx.rule("R-VERDICT-LISTS", "wasSuccessful reads exactly the lists failing outcomes of the class append to, or delegates to all wrapped results")
    ctx.rule("R-SUMMARY-AGREES", "TextTestResult summary is driven by wasSuccessful() and the same three lists")
    ctx.rule("R-EXIT-STATUS", "exit status = not wasSuccessful(); runner brackets the run and passes failfast")
    ctx.rule("R-FAILFAST-SET", "outcomes that stop under failfast are exactly error, failure, unexpected success")
    ctx.rule("R-CONTROL-PLUMBED", "stop / shouldStop / failfast of adapters reach the wrapped results")
    ctx.rule("R-RUN-RESET", "startTestRun re-initialises every collection outcomes append to; failfast/tb_locals survive")
    classes = ctx.classes
    ctx.repo.module(REAL)
    real_classes = [c for c in classes.all if not c.external and c.module.name == REAL]

    # ------------------------------------------------------------------ R-VERDICT-LISTS
    # 'uxsuccess' is deliberately left out for the stream summary: the repository's own
    # contract tests pin "ExtendedToStreamDecorator follows Python for uxsuccess handling"
    # (StreamSummary.wasSuccessful stays true), and C04/C10 only demand that *failed or
    # incomplete* tests make the stream verdict false.  Demanding more was a false alarm
    # of the design round (former F-K) and has been dropped, see DESIGN.md section 6.
    stream_handlers = {"fail": "failing", "uxsuccess": None, "unknown": "failing", "inprogress": "failing",
                       "success": "passing", "skip": "passing", "xfail": "passing", "exists": "passing"}
    for c in sorted(real_classes, key=lambda c: c.node.lineno):
        f = c.methods.get("wasSuccessful")
        if f is None:
            continue
        ctx.analysed(f)
        delegates = [x for x in walk_shallow(f, include_self=False) if isinstance(x, ast.Call) and (
            (isinstance(x.func, ast.Attribute) and x.func.attr == "wasSuccessful")
            or (dotted(x.func) == "self._dispatch" and x.args and str_const(x.args[0]) == "wasSuccessful"))]
        if delegates:
            d = delegates[0]
            name = norm(d.func)
            ok = True
            msg = ""
            if dotted(d.func) == "self._dispatch":
                # decided on an abstract run over two wrapped results and every combination of their verdicts
                from .. import effects
                from ..absint import FALSE as A_F, TRUE as A_T
                bad = []
                for v0 in (A_T, A_F):
                    for v1 in (A_T, A_F):
                        dom = effects.EffectDomain(classes, attrs={"self._results": ("tuple", ("wobj", "r0"), ("wobj", "r1"))},
                                                   results={"r0.wasSuccessful": [v0], "r1.wasSuccessful": [v1]})
                        outs = {(r.kind, r.value, tuple(e[0] for e in effects.calls(r))) for r in effects.run(ctx, dom, f, c)}
                        want = ("val", A_T if (v0 == A_T and v1 == A_T) else A_F, ("r0.wasSuccessful", "r1.wasSuccessful"))
                        if outs != {want}:
                            bad.append(f"verdicts ({v0}, {v1}) -> {sorted(map(repr, outs))}")
                ok = not bad
                msg = "a multiplexer's verdict must be the conjunction of the verdicts of all its wrapped results, each asked once: " + "; ".join(bad)
            ctx.check("R-VERDICT-LISTS", f"{c.name}.wasSuccessful delegates ({name})", f, ok, msg, construct=f"{REAL}:{c.name}.wasSuccessful::delegate")
            continue
        read = self_attrs_loaded(f)
        # handlers of this class (through the MRO, in-repo only)
        if c.name == "StreamSummary" or classes.get(REAL, "StreamSummary") in classes.mro(c):
            init = c.own_method("__init__") or classes.resolve_method(c, "__init__")[1]
            table = {}
            for n in ast.walk(classes.get(REAL, "StreamSummary").own_method("__init__")):
                if isinstance(n, ast.Dict):
                    for k, v in zip(n.keys, n.values):
                        if str_const(k) and dotted(v) and dotted(v).startswith("self."):
                            table[str_const(k)] = dotted(v).split(".", 1)[1]
            handlers = {}
            for status, mname in table.items():
                owner, hf = classes.resolve_method(c, mname)
                if isinstance(hf, FUNC_TYPES):
                    handlers[f"{mname} [{status}]"] = (stream_handlers.get(status), hf)
        else:
            handlers = {}
            for m in sorted(FAILING | PASSING):
                owner, hf = classes.resolve_method(c, m)
                if isinstance(hf, FUNC_TYPES) and owner is not None and not owner.external:
                    handlers[m] = ("failing" if m in FAILING else "passing", hf)
        for hname, (kind, hf) in sorted(handlers.items()):
            appended = self_lists_appended(hf)
            if kind == "failing":
                ok = bool(appended & read)
                msg = (f"{c.name}.{hname} records a failing outcome in {sorted(appended) or 'no list'} but "
                       f"{c.name}.wasSuccessful only reads {sorted(read & (VERDICT_LISTS | appended)) or sorted(read)}: the run stays 'successful'")
            elif kind == "passing":
                ok = not (appended & read)
                msg = f"{c.name}.{hname} is a passing outcome but appends to {sorted(appended & read)}, which wasSuccessful reads"
            else:
                continue
            ctx.check("R-VERDICT-LISTS", f"{c.name}.wasSuccessful vs {hname}", f, ok, msg,
                      construct=f"{REAL}:{c.name}.wasSuccessful::{hname.split(' ')[0]}")
    ctx.floor("R-VERDICT-LISTS", 14)

    # ------------------------------------------------------------------ R-SUMMARY-AGREES
    ttr = classes.get(REAL, "TextTestResult")
    stop = own_method(ctx, REAL, "TextTestResult", "stopTestRun")
    owner, ws = classes.resolve_method(ttr, "wasSuccessful")
    verdict_lists = self_attrs_loaded(ws) & {"errors", "failures", "unexpectedSuccesses", "expectedFailures", "skipped"}
    cfg = cfg_of(ctx, stop)
    live = live_nodes(cfg)
    T = f"{REAL}:TextTestResult.stopTestRun"
    # OK/FAILED selected by wasSuccessful()
    ok = False
    for n in cfg.nodes:
        if n.id in live and n.kind == "test" and isinstance(n.ast, ast.If) and norm(n.ast.test) in ("self.wasSuccessful()", "not self.wasSuccessful()"):
            pos, neg = (n.ast.body, n.ast.orelse) if not norm(n.ast.test).startswith("not") else (n.ast.orelse, n.ast.body)
            ptxt = " ".join(norm(s) for s in pos)
            ntxt = " ".join(norm(s) for s in neg)
            if "'OK" in ptxt and "FAILED" in ntxt and "FAILED" not in ptxt and "'OK" not in ntxt:
                ok = True
    ctx.check("R-SUMMARY-AGREES", "OK / FAILED arm chosen by wasSuccessful()", stop, ok,
              "the OK/FAILED line is not selected by self.wasSuccessful()", construct=f"{T}::verdict-arm")
    summed = set()
    local_defs = {}
    for n in walk_shallow(stop, include_self=False):
        if isinstance(n, ast.Assign) and len(n.targets) == 1 and isinstance(n.targets[0], ast.Name):
            local_defs.setdefault(n.targets[0].id, []).append(n.value)

    def self_lists_in(expr, depth=0):
        out = set()
        for x in ast.walk(expr):
            ch = attr_chain(x) if isinstance(x, ast.Attribute) else None
            if ch and ch[0] == "self" and len(ch) == 2:
                out.add(ch[1])
            if isinstance(x, ast.Name) and isinstance(x.ctx, ast.Load) and depth < 3:
                for v in local_defs.get(x.id, []):
                    out |= self_lists_in(v, depth + 1)
        return out

    for c in ast.walk(stop):
        if isinstance(c, ast.Call) and dotted(c.func) == "sum":
            summed |= self_lists_in(c)
    ctx.check("R-SUMMARY-AGREES", "failure total sums exactly the lists wasSuccessful reads", stop, summed == verdict_lists,
              f"failure total sums {sorted(summed)} but wasSuccessful reads {sorted(verdict_lists)}", construct=f"{T}::failure-total")
    rendered = set()
    for c in walk_shallow(stop, include_self=False):
        if isinstance(c, ast.Call) and dotted(c.func) == "self._show_list" and len(c.args) == 2:
            ch = attr_chain(c.args[1])
            if ch and ch[0] == "self":
                rendered.add(ch[1])
        if isinstance(c, ast.For):
            ch = attr_chain(c.iter)
            if ch and ch[0] == "self" and len(ch) == 2 and any(isinstance(w, ast.Call) and dotted(w.func) == "self.stream.write" for w in walk_shallow(c)):
                rendered.add(ch[1])
    ctx.check("R-SUMMARY-AGREES", "one section per problem for every verdict list", stop, verdict_lists <= rendered,
              f"lists {sorted(verdict_lists - rendered)} are counted in the verdict but not rendered", construct=f"{T}::sections")
    sl = own_method(ctx, REAL, "TextTestResult", "_show_list")
    loops = [n for n in walk_shallow(sl, include_self=False) if isinstance(n, ast.For) and dotted(n.iter) == sl.args.args[2].arg]
    ok = len(loops) == 1 and not any(isinstance(x, (ast.Break, ast.Continue, ast.Return)) for x in walk_shallow(loops[0])) and any(
        isinstance(w, ast.Call) and dotted(w.func) == "self.stream.write" for w in walk_shallow(loops[0]))
    ctx.check("R-SUMMARY-AGREES", "_show_list writes a section for every element", sl, ok, "_show_list skips elements", construct=f"{REAL}:TextTestResult._show_list::all")
    count_ok = any(isinstance(n, ast.BinOp) and isinstance(n.op, ast.Mod) and isinstance(n.left, ast.Constant) and "Ran %d test" in str(n.left.value)
                   and isinstance(n.right, ast.Tuple) and dotted(n.right.elts[0]) == "self.testsRun" for n in ast.walk(stop))
    ctx.check("R-SUMMARY-AGREES", "test count printed is testsRun", stop, count_ok, "the 'Ran N tests' line does not print self.testsRun", construct=f"{T}::count")

    # ------------------------------------------------------------------ R-EXIT-STATUS
    RUN = "testtools.run"
    rt = own_method(ctx, RUN, "TestProgram", "runTests")
    from .. import effects
    from ..absint import FALSE as A_F, TRUE as A_T
    tp = classes.get(RUN, "TestProgram")
    problems = []
    for exit_flag in (A_T, A_F):
        for verdict in (A_T, A_F):
            dom = effects.EffectDomain(classes, attrs={"self.exit": exit_flag}, track=lambda d: d == "sys.exit",
                                       results={"self.result.wasSuccessful": [verdict]}, raises={"sys.exit": [("exc", "SystemExit")]}, inline=False)
            seen_ = {tuple((e[0], e[1]) for e in effects.calls(r, "sys.exit")) for r in effects.run(ctx, dom, rt, tp) if not (r.kind == "exc" and r.value != ("exc", "SystemExit"))}
            want = {(("sys.exit", (A_F if verdict == A_T else A_T,)),)} if exit_flag == A_T else {()}
            if seen_ != want:
                problems.append(f"exit={exit_flag}, wasSuccessful()={verdict}: sys.exit calls {sorted(map(repr, seen_))}")
    ctx.check("R-EXIT-STATUS", "exit status is not result.wasSuccessful()", rt, not problems,
              "the process exit status is not `not result.wasSuccessful()` (or sys.exit is not called exactly when self.exit is set): " + "; ".join(problems),
              construct=f"{RUN}:TestProgram.runTests::exit")
    assigned = [n for n in walk_shallow(rt, include_self=False) if isinstance(n, ast.Assign) and dotted(n.targets[0]) == "self.result"
                and isinstance(n.value, ast.Call) and isinstance(n.value.func, ast.Attribute) and n.value.func.attr == "run" and n.value.args and dotted(n.value.args[0]) == "self.test"]
    ctx.check("R-EXIT-STATUS", "result is what the runner returned for self.test", rt, len(assigned) == 1, "self.result is not testRunner.run(self.test)", construct=f"{RUN}:TestProgram.runTests::result")
    rr = own_method(ctx, RUN, "TestToolsTestRunner", "run")
    rcfg = cfg_of(ctx, rr)
    rlive = live_nodes(rcfg)
    s_nodes = nodes_calling(rcfg, lambda c: dotted(c.func) == "result.startTestRun", rlive)
    e_nodes = nodes_calling(rcfg, lambda c: dotted(c.func) == "result.stopTestRun", rlive)
    t_nodes = nodes_calling(rcfg, lambda c: dotted(c.func) == "test.run", rlive)
    ok = len(s_nodes) == 1 and bool(e_nodes) and len(t_nodes) == 1
    esc = rcfg.escape_path(rcfg.after(s_nodes[0]), set(e_nodes)) if ok else None
    ctx.check("R-EXIT-STATUS", "runner brackets the run with startTestRun / stopTestRun (finally)", rr, ok and esc is None,
              "a path leaves the run after startTestRun without stopTestRun (the summary would not be printed)",
              path=rcfg.describe_path(esc) if esc else None, construct=f"{RUN}:TestToolsTestRunner.run::bracket")
    rets = [n for n in rcfg.nodes if n.id in rlive and n.kind == "return"]
    ok = bool(rets) and all(isinstance(r.ast.value, ast.Call) and dotted(r.ast.value.func) == "test.run" and r.ast.value.args and dotted(r.ast.value.args[0]) == "result" for r in rets)
    ctx.check("R-EXIT-STATUS", "runner returns what test.run(result) returned", rr, ok, "run() does not return test.run(result)", construct=f"{RUN}:TestToolsTestRunner.run::returns")
    mk = [c for c in walk_shallow(rr, include_self=False) if isinstance(c, ast.Call) and dotted(c.func) == "TextTestResult"]
    ok = len(mk) == 1 and any(k.arg == "failfast" and dotted(k.value) == "self.failfast" for k in mk[0].keywords)
    ctx.check("R-EXIT-STATUS", "runner passes failfast to its result", rr, ok, "TextTestResult is built without failfast=self.failfast", construct=f"{RUN}:TestToolsTestRunner.run::failfast")
    gi = own_method(ctx, RUN, "TestToolsTestRunner", "__init__")
    ok = any(isinstance(n, ast.Assign) and dotted(n.targets[0]) == "self.failfast" and dotted(n.value) == "failfast" for n in walk_shallow(gi, include_self=False))
    ctx.check("R-EXIT-STATUS", "runner keeps the failfast option", gi, ok, "TestToolsTestRunner.__init__ drops failfast", construct=f"{RUN}:TestToolsTestRunner.__init__::failfast")

    # ------------------------------------------------------------------ R-FAILFAST-SET
    from .. import effects
    from ..absint import FALSE as A_FALSE, TRUE as A_TRUE

    def stop_counts(c, func, failfast):
        """Set of numbers of self.stop() calls over the normal paths of func, with the public self.failfast = failfast.
        A private backing field (`_failfast`, used by adapters as a fallback when the wrapped result has no failfast
        of its own) is tried with both values: the decision must follow the public attribute, not the private one."""
        out = set()
        for private in (A_TRUE, A_FALSE):
            dom = effects.EffectDomain(classes, attrs={"self.failfast": failfast, "self._failfast": private}, track=lambda d: d == "self.stop")
            params = [a.arg for a in func.args.args][1:]
            argv = {p_: ("arg", p_) for p_ in params}
            if "err" in argv and "details" in argv:
                argv["details"] = "None"   # callers pass exactly one of err / details
            res = effects.run(ctx, dom, func, c, argv)
            out |= {len(effects.calls(r, "self.stop")) for r in res if r.kind == "val"}
        return out

    n_ff = 0
    for c in sorted(real_classes, key=lambda c: c.node.lineno):
        consult = []
        for m in sorted(FAILING | PASSING):
            f = c.methods.get(m)
            if f is not None and any(n_ >= 1 for n_ in stop_counts(c, f, A_TRUE)):
                consult.append(m)
        # classes confirmed (by reading, on the pinned tree) to implement failfast in their outcome methods are checked
        # whether or not they still consult the flag there: moving the stop elsewhere (stopTest, wasSuccessful ...) delays it
        if not consult and c.name not in FAILFAST_IMPLEMENTERS:
            continue
        for m in sorted(FAILING | PASSING):
            f = c.methods.get(m)
            if f is None:
                continue
            on, off = stop_counts(c, f, A_TRUE), stop_counts(c, f, A_FALSE)
            n_ff += 1
            if m in FAILING:
                ctx.check("R-FAILFAST-SET", f"{c.name}.{m} stops under failfast (and only then)", f, bool(on) and min(on) >= 1 and off <= {0},
                          f"{c.name}.{m}: self.stop() is called {sorted(on)} time(s) on its returning paths with failfast set and {sorted(off)} with failfast unset: "
                          "failfast would not stop at this failing outcome" if not (bool(on) and min(on) >= 1) else f"{c.name}.{m} stops although failfast is unset",
                          construct=f"{REAL}:{c.name}.{m}::failfast-stop")
            else:
                ctx.check("R-FAILFAST-SET", f"{c.name}.{m} does not stop", f, on <= {0} and off <= {0},
                          f"{c.name}.{m} is a passing outcome but requests a stop", construct=f"{REAL}:{c.name}.{m}::no-stop")
    ctx.floor("R-FAILFAST-SET", 12, "outcome methods in classes consulting failfast")
    # stream side: statuses emitted for the failing methods == StreamFailFast trigger set
    etsd = classes.get(REAL, "ExtendedToStreamDecorator")
    emitted = {}
    for m in sorted(FAILING | PASSING):
        owner, f = classes.resolve_method(etsd, m)
        if not isinstance(f, FUNC_TYPES):
            continue
        for c in walk_shallow(f, include_self=False):
            if isinstance(c, ast.Call) and dotted(c.func) == "self._convert" and len(c.args) >= 4:
                emitted[m] = str_const(c.args[3])
    ff = own_method(ctx, REAL, "StreamFailFast", "status")
    sff = classes.get(REAL, "StreamFailFast")
    trig = set()
    for status in ("exists", "inprogress", "xfail", "uxsuccess", "success", "fail", "skip", None):
        dom = effects.EffectDomain(classes, track=lambda d: d == "self.on_error")
        argv = {a.arg: ("arg", a.arg) for a in ff.args.args[1:]}
        argv["test_status"] = ("const", status) if status is not None else "None"
        counts = {len(effects.calls(r, "self.on_error")) for r in effects.run(ctx, dom, ff, sff, argv) if r.kind == "val"}
        if counts == {1}:
            trig.add(status)
        elif counts != {0}:
            trig.add(f"?{status}:{sorted(counts)}")
    fail_status = {emitted.get(m) for m in FAILING}
    pass_status = {emitted.get(m) for m in PASSING}
    ctx.check("R-FAILFAST-SET", "StreamFailFast triggers = statuses emitted for failing outcomes", ff,
              trig == fail_status and not (trig & pass_status) and None not in fail_status,
              f"StreamFailFast triggers on {sorted(trig)} but ExtendedToStreamDecorator emits {emitted}", construct=f"{REAL}:StreamFailFast.status::trigger-vs-emitted")
    sf = etsd.own_method("_set_failfast")
    ok = sf is not None and any(isinstance(c, ast.Call) and dotted(c.func) == "self.targets.append" and c.args and isinstance(c.args[0], ast.Call)
                                and dotted(c.args[0].func) == "StreamFailFast" and c.args[0].args and dotted(c.args[0].args[0]) == "self.stop" for c in ast.walk(sf))
    ctx.check("R-FAILFAST-SET", "stream failfast wires StreamFailFast(self.stop) into the targets", sf if sf is not None else etsd.node, ok,
              "ExtendedToStreamDecorator.failfast = True does not add StreamFailFast(self.stop)", construct=f"{REAL}:ExtendedToStreamDecorator._set_failfast::wire")
    tc = own_method(ctx, REAL, "TestControl", "stop")
    ok = any(isinstance(n, ast.Assign) and dotted(n.targets[0]) == "self.shouldStop" and isinstance(n.value, ast.Constant) and n.value.value is True for n in ast.walk(tc))
    ctx.check("R-FAILFAST-SET", "TestControl.stop sets shouldStop", tc, ok, "TestControl.stop does not set shouldStop = True", construct=f"{REAL}:TestControl.stop::sets")

    # ------------------------------------------------------------------ R-CONTROL-PLUMBED
    wrappers = {
        "MultiTestResult": ("_results", "dispatch"),
        "ThreadsafeForwardingResult": ("result", "attr"),
        "ExtendedToOriginalDecorator": ("decorated", "attr"),
        "TestResultDecorator": ("decorated", "attr"),
        "Tagger": ("decorated", "attr"),
    }

    def reaches_wrapped(func, attr, how, member):
        """Does func forward/read ``member`` on the wrapped result(s)?"""
        if not isinstance(func, FUNC_TYPES):
            return False
        for n in ast.walk(func):
            if how == "dispatch":
                if isinstance(n, ast.Call) and dotted(n.func) == "self._dispatch" and n.args:
                    a0 = str_const(n.args[0])
                    if a0 == member or (a0 in ("__getattr__", "__setattr__", "__getattribute__") and len(n.args) > 1 and str_const(n.args[1]) == member):
                        return True
                if isinstance(n, ast.Call) and dotted(n.func) == "getattr" and len(n.args) >= 2 and str_const(n.args[1]) == member and "_results" in norm(n.args[0]):
                    return True
            else:
                if isinstance(n, ast.Attribute) and n.attr == member and dotted(n.value) == f"self.{attr}":
                    return True
                if isinstance(n, ast.Call) and dotted(n.func) in ("getattr", "setattr", "hasattr") and len(n.args) >= 2 and dotted(n.args[0]) == f"self.{attr}" and str_const(n.args[1]) == member:
                    return True
        return False

    for cname, (attr, how) in wrappers.items():
        c = classes.get(REAL, cname)
        # stop
        owner, f = classes.resolve_method(c, "stop")
        ok = False
        if owner is not None and not owner.external and isinstance(f, FUNC_TYPES):
            from .. import effects
            wrapped = ("tuple", ("wobj", "w0"), ("wobj", "w1")) if how == "dispatch" else ("wobj", "w0")
            ids = ["w0", "w1"] if how == "dispatch" else ["w0"]
            dom = effects.EffectDomain(classes, attrs={f"self.{attr}": wrapped})
            res_ = [r for r in effects.run(ctx, dom, f, c) if r.kind == "val"]
            ok = bool(res_) and all([e[0] for e in effects.calls(r) if e[0].endswith(".stop")] == [f"{i}.stop" for i in ids] for r in res_)
        ctx.check("R-CONTROL-PLUMBED", f"{cname}.stop reaches the wrapped result(s)", f if isinstance(f, FUNC_TYPES) else c.node, ok,
                  f"{cname}.stop resolves to {owner.qual if owner else None} and does not forward to self.{attr}", construct=f"{REAL}:{cname}::stop")
        if cname == "MultiTestResult" and isinstance(f, FUNC_TYPES):
            d = classes.get(REAL, "MultiTestResult").own_method("_dispatch")
            dom = effects.EffectDomain(classes, attrs={"self._results": ("tuple", ("wobj", "w0"), ("wobj", "w1"))})
            res_ = effects.run(ctx, dom, d, c, {"message": ("const", "anyMethod"), d.args.vararg.arg if d.args.vararg else "args": ("tuple", ("arg", 0)),
                                                 d.args.kwarg.arg if d.args.kwarg else "kwargs": ("kwdict", (("k", ("arg", "k")),))})
            want_calls = [("w0.anyMethod", (("arg", 0),), (("k", ("arg", "k")),), "ok"), ("w1.anyMethod", (("arg", 0),), (("k", ("arg", "k")),), "ok")]
            ok = bool(res_) and all(r.kind == "val" and effects.calls(r) == want_calls and r.value == ("tuple", ("ret", "w0", "anyMethod"), ("ret", "w1", "anyMethod")) for r in res_)  # a lazy result would be ("lazyseq", ...)
            ctx.check("R-CONTROL-PLUMBED", "MultiTestResult._dispatch calls every wrapped result (strict)", d, ok,
                      "_dispatch does not eagerly call the message on every element of self._results", construct=f"{REAL}:MultiTestResult._dispatch::all")
        # shouldStop
        powner = classes.resolve_attr_owner(c, "shouldStop")
        ok = False
        where = c.node
        if powner is not None and "shouldStop" in powner.properties and not powner.external:
            g = powner.properties["shouldStop"][0]
            gf = powner.own_method(g.id) if isinstance(g, ast.Name) else g
            ok = reaches_wrapped(gf, attr, how, "shouldStop")
            where = gf if isinstance(gf, FUNC_TYPES) else c.node
        ctx.check("R-CONTROL-PLUMBED", f"{cname}.shouldStop reads the wrapped result(s)", where, ok,
                  f"{cname}.shouldStop does not read self.{attr}: suites would not see a stop requested on the target", construct=f"{REAL}:{cname}::shouldStop")
        # failfast
        powner = classes.resolve_attr_owner(c, "failfast")
        ok = False
        if powner is not None and "failfast" in powner.properties and not powner.external:
            g, s = powner.properties["failfast"]
            gf = powner.own_method(g.id) if isinstance(g, ast.Name) else g
            sf_ = powner.own_method(s.id) if isinstance(s, ast.Name) else s
            ok = reaches_wrapped(gf, attr, how, "failfast") and reaches_wrapped(sf_, attr, how, "failfast")
        ctx.check("R-CONTROL-PLUMBED", f"{cname}.failfast reaches the wrapped result(s)", c.node, ok,
                  f"{cname} has no forwarding failfast property: setting wrapper.failfast after wrapping is silently dropped, the run does not stop at the first failure",
                  construct=f"{REAL}:{cname}::failfast")
    # ETOD.stop falls back to its own flag when the target has no stop
    es = own_method(ctx, REAL, "ExtendedToOriginalDecorator", "stop")
    ok = any(isinstance(n, ast.Assign) and dotted(n.targets[0]) == "self.shouldStop" and isinstance(n.value, ast.Constant) and n.value.value is True for n in ast.walk(es))
    ctx.check("R-CONTROL-PLUMBED", "ExtendedToOriginalDecorator.stop records the request when the target cannot", es, ok,
              "stop() on a target without stop() is dropped", construct=f"{REAL}:ExtendedToOriginalDecorator.stop::fallback")

    # ------------------------------------------------------------------ R-RUN-RESET
    def reset_attrs(cls, meth="startTestRun", depth=0):
        """Attributes assigned by cls.<meth> incl. super() chains and unittest's __init__."""
        owner, f = classes.resolve_method(cls, meth)
        out = set()
        if not isinstance(f, FUNC_TYPES) or depth > 4:
            return out
        out |= instance_attrs_assigned(f)
        for c in walk_shallow(f, include_self=False):
            if isinstance(c, ast.Call):
                ch = attr_chain(c.func)
                if ch and ch[0] == "super()" and len(ch) == 2:
                    o2, f2 = classes.resolve_method(cls, ch[1], after=owner)
                    if isinstance(f2, FUNC_TYPES):
                        out |= instance_attrs_assigned(f2)
                        for c2 in walk_shallow(f2, include_self=False):
                            if isinstance(c2, ast.Call):
                                ch2 = attr_chain(c2.func)
                                if ch2 and ch2[0] == "super()" and len(ch2) == 2:
                                    o3, f3 = classes.resolve_method(cls, ch2[1], after=o2)
                                    if isinstance(f3, FUNC_TYPES):
                                        out |= instance_attrs_assigned(f3)
        return out

    for cname, handler_names in (("TestResult", sorted(FAILING | PASSING)), ("StreamSummary", ["_fail", "_incomplete", "_uxsuccess", "_xfail", "_skip", "_success", "_exists"])):
        c = classes.get(REAL, cname)
        appended = set()
        for h in handler_names:
            f = c.own_method(h)
            if f is not None:
                appended |= self_lists_appended(f)
        if cname == "StreamSummary":
            g = c.own_method("_gather_test")
            for n in ast.walk(g):
                if isinstance(n, ast.AugAssign) and dotted(n.target) and dotted(n.target).startswith("self."):
                    appended.add(dotted(n.target).split(".", 1)[1])
        if cname == "TestResult":
            # run state also lives in plain attributes: what stop() and startTest() write
            # (shouldStop, testsRun, ... -- through the MRO, unittest's source included)
            for h in ("stop", "startTest"):
                owner, f = classes.resolve_method(c, h)
                seen_f = set()
                while isinstance(f, FUNC_TYPES) and id(f) not in seen_f:
                    seen_f.add(id(f))
                    for n in ast.walk(f):
                        tgt = None
                        if isinstance(n, ast.Assign) and len(n.targets) == 1:
                            tgt = n.targets[0]
                        elif isinstance(n, ast.AugAssign):
                            tgt = n.target
                        ch = attr_chain(tgt) if tgt is not None else None
                        if ch and ch[0] == "self" and len(ch) == 2 and not ch[1].startswith("_"):
                            appended.add(ch[1])
                    sup_calls = [x for x in walk_shallow(f, include_self=False) if isinstance(x, ast.Call) and attr_chain(x.func) and attr_chain(x.func)[0] == "super()" and attr_chain(x.func)[-1] == h]
                    if not sup_calls:
                        break
                    owner, f = classes.resolve_method(c, h, after=owner)
        reset = reset_attrs(c)
        for a in sorted(appended):
            ctx.check("R-RUN-RESET", f"{cname}.startTestRun re-initialises self.{a}", c.own_method("startTestRun") or c.node, a in reset,
                      f"run state is kept in self.{a} (written by outcomes, stop() or startTest()) but startTestRun does not reset it: a second run on the same result object starts from the first run's state",
                      construct=f"{REAL}:{cname}.startTestRun::reset {a}")
    ctx.floor("R-RUN-RESET", 10)
    tr = classes.get(REAL, "TestResult")
    st = own_method(ctx, REAL, "TestResult", "startTestRun")
    scfg = cfg_of(ctx, st)
    slive = live_nodes(scfg)
    sup = nodes_calling(scfg, lambda c: dotted(c.func) == "super().__init__", slive)
    for opt in ("failfast", "tb_locals"):
        saves = [n.id for n in scfg.nodes if n.id in slive and n.kind == "stmt" and isinstance(n.ast, ast.Assign) and dotted(n.ast.value) == f"self.{opt}" and isinstance(n.ast.targets[0], ast.Name)]
        rest = [n.id for n in scfg.nodes if n.id in slive and n.kind == "stmt" and isinstance(n.ast, ast.Assign) and dotted(n.ast.targets[0]) == f"self.{opt}" and isinstance(n.ast.value, ast.Name)]
        own_assigned = opt in instance_attrs_assigned(st)
        chain_assigned = opt in (reset_attrs(tr) - instance_attrs_assigned(st)) or (bool(sup) and opt in reset_attrs(tr))
        if not sup or not chain_assigned:
            # nothing startTestRun calls re-initialises the option; its own assignments (if any) must write back a saved copy
            ok = not own_assigned or (bool(saves) and bool(rest) and len(rest) == sum(1 for n in scfg.nodes if n.id in slive and n.kind == "stmt" and isinstance(n.ast, ast.Assign) and dotted(n.ast.targets[0]) == f"self.{opt}")
                                      and all(scfg.nodes[r].ast.value.id == scfg.nodes[saves[0]].ast.targets[0].id and scfg.dominated_by(r, set(saves)) for r in rest))
        else:
            ok = bool(sup) and bool(saves) and bool(rest) and scfg.dominated_by(sup[0], set(saves)) and scfg.escape_path(scfg.after(sup[0]), set(rest), targets=[scfg.exit_return]) is None
            if ok:
                sv = scfg.nodes[saves[0]].ast.targets[0].id
                ok = scfg.nodes[rest[0]].ast.value.id == sv
        ctx.check("R-RUN-RESET", f"TestResult.startTestRun preserves {opt}", st, ok,
                  f"startTestRun re-initialises {opt} (through the base-class constructor) without saving it before and restoring it afterwards", construct=f"{REAL}:TestResult.startTestRun::keep {opt}")
    init = own_method(ctx, REAL, "TestResult", "__init__")
    ok = bool(calls_named(init, "TestResult.startTestRun")) or bool(calls_named(init, "self.startTestRun"))
    ctx.check("R-RUN-RESET", "TestResult.__init__ goes through startTestRun", init, ok, "constructor no longer initialises through startTestRun", construct=f"{REAL}:TestResult.__init__::start")
    ctx.assume("unittest.TestResult.__init__ (parsed, not run) initialises failures/errors/testsRun/skipped/shouldStop as its source says")
