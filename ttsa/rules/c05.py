"""C05 -- all details and every traceback reach the result; none is dropped or overwritten."""

from ..objects import is_inst
from . import casemodel as cm
from .common import RUNTEST, TESTCASE, TWRUNTEST, check_copy_content_snapshot

EXPLANATION = (
    "TestCase.run is followed as written (ttsa.rules.casemodel); what the rules read is the `details` argument of the one "
    "outcome call the result receives -- an exact dict of names to content objects. The user's stages attach details, use a "
    "fixture that carries details, make failing assertThat / expectThat calls whose mismatch carries details, skip with and "
    "without a reason, expect a failure, register addOnException handlers and raise exceptions of every kind, alone and as "
    "MultipleExceptions. R-DETAILS-PASSED: for every kind of outcome the details contain every detail attached by any stage, "
    "with the content object that was attached; a skip carries its reason (also the default one), an expected failure its "
    "reason. R-TRACEBACK-PER-EXC: the details contain exactly one TracebackContent per failure / error raised (each "
    "constituent of a MultipleExceptions, the assertion behind an expected failure), built from that exception's exc_info, "
    "and none for skips / expected failures / unexpected successes. R-UNIQUE-WRITE: user details named like generated ones "
    "('traceback', 'traceback-1', 'Failed expectation', a fixture's and a mismatch's names) are all still there, unchanged, next "
    "to the generated ones; the Twisted runner attaches the debug information of every unhandled Deferred through "
    "addDetailUniqueName (model shared with C14). R-MISMATCH-DETAILS: every detail of the mismatch of a failing assertThat / "
    "expectThat is in the outcome's details. R-HANDLERS-BEFORE-OUTCOME: every addOnException handler is called exactly once "
    "per exception raised by user code (per constituent), with its exc_info, before the outcome call. R-EAGER-SNAPSHOT: the "
    "details of a fixture are gathered -- also when the fixture's setUp fails -- as copies whose bytes were read when they "
    "were gathered (_copy_content run against a source that goes on changing)."
)

KIND_STAGES = ("setUp", "test", "tearDown", "cleanup")


def C(n):
    """A content object attached by the user."""
    return ("new", "Content", (("sym", "content-type of " + n), ("sym", "byte source of " + n)))


def _details(r):
    """-> (outcome method, details dict of that call as a list of (name, content)), or (None, None) when there is not exactly one outcome."""
    calls = [(n.split(".", 1)[1], pos, kw) for n, pos, kw in cm.events(r, ("result.",)) if n.split(".", 1)[1] in cm.OUTCOME_METHODS]
    if len(calls) != 1:
        return None, None
    name, pos, kw = calls[0]
    d = kw.get("details")
    if not (isinstance(d, tuple) and d[:1] == ("kwdict",)):
        return name, None
    return name, list(d[1])


def _tracebacks(details):
    """The exceptions that have a traceback detail: [(name, exception)]."""
    out = []
    for name, c in details:
        if isinstance(c, tuple) and c[:2] == ("new", "TracebackContent") and c[2] and isinstance(c[2][0], tuple) and c[2][0][:1] == ("tuple",) and len(c[2][0]) == 4:
            out.append((name, c[2][0][2]))
    return out


def _script(raising=None, extra=None):
    script = {"setUp": [("call", "addCleanup", [cm.user("cleanup")], [])], "test": [], "tearDown": [], "cleanup": []}
    for stage, actions in (extra or {}).items():
        script[stage] = script.get(stage, []) + list(actions)
    for stage, kind in (raising or {}).items():
        script[stage] = script[stage] + [("raise", cm.raised(kind, stage) if isinstance(kind, str) else kind)]
    return script


def check_details_passed(ctx, case):
    Q = f"{TESTCASE}:TestCase.run"
    attach = {s: [("call", "addDetail", [("const", "note from " + s), C(s)], [])] for s in KIND_STAGES}
    want = [("note from " + s, C(s)) for s in KIND_STAGES]
    for kind in (None, "fail", "error", "skip", "xfail", "uxsuccess"):
        for stage in (("test",) if ctx.tier != "thorough" and kind not in (None, "fail") else ("test", "cleanup", "tearDown")) if kind else ("-",):
            d, runs = cm.run_case(ctx, _script({stage: kind} if kind else {}, extra=attach))
            problems = set()
            for r in runs:
                oc, det = _details(r)
                if det is None:
                    problems.add(f"the outcome ({oc}) carries no details dict" if oc else "there is not exactly one outcome")
                    continue
                missing = [n for n, c in want if (n, c) not in det and not (kind and stage == "setUp")]
                if stage == "setUp" and kind:
                    missing = [n for n, c in want if n in ("note from setUp", "note from cleanup") and (n, c) not in det]
                if missing:
                    problems.add(f"{oc} does not carry the details {missing} (the details passed are named {[n for n, _ in det]})")
            label = f"{cm.KINDS[kind][0]} raised by {stage}" if kind else "nothing raised"
            ctx.check("R-DETAILS-PASSED", f"[{label}] the outcome carries every detail the stages attached, as attached", case.node, bool(runs) and not problems,
                      "; ".join(sorted(problems)) or "no path of run() was followed to its end", examined=len(runs), construct=f"{Q}::details {label}")
    # reasons
    why = ("const", "not today")
    for label, script, outcome, reason in (
            ("skipTest(reason)", _script(extra={"test": [("call", "skipTest", [why], [])]}), "addSkip", ("new", "text_content", (why,), ())),
            ("SkipTest(reason) raised", _script({"test": cm.raised("skip", "test", args=(why,))}), "addSkip", ("new", "text_content", (why,), ())),
            ("SkipTest() raised without a reason", _script({"test": cm.raised("skip", "test", args=())}), "addSkip", None),
            ("expectFailure(reason, predicate) whose predicate fails", _script(extra={"test": [("call", "expectFailure", [why, cm.user("predicate")], [])], "predicate": [("raise", cm.raised("fail", "predicate"))]}),
             "addExpectedFailure", ("new", "text_content", (why,), ()))):
        d, runs = cm.run_case(ctx, script)
        problems = set()
        for r in runs:
            oc, det = _details(r)
            got = dict(det or []).get("reason")
            if oc != outcome:
                problems.add(f"the outcome is {oc}; expected {outcome}")
            elif got is None or (reason is not None and got != reason) or (reason is None and not (isinstance(got, tuple) and got[:2] == ("new", "text_content"))):
                problems.add(f"the 'reason' detail of the {outcome} call is {got!r}; expected " + (repr(reason) if reason is not None else "a text content with the default reason"))
        ctx.check("R-DETAILS-PASSED", f"[{label}] the outcome carries the reason as the detail 'reason'", case.node, bool(runs) and not problems, "; ".join(sorted(problems)) or "no path",
                  examined=len(runs), construct=f"{Q}::reason {label}")
    ctx.floor("R-DETAILS-PASSED", 8, "outcome scenarios")


def check_tracebacks(ctx, case):
    Q = f"{TESTCASE}:TestCase.run"
    t1, t2, t3 = cm.raised("fail", "first"), cm.raised("error", "second"), cm.raised("fail", "third")
    scenarios = [
        ("the test fails", _script({"test": t1}), [t1]),
        ("the test raises an error", _script({"test": t2}), [t2]),
        ("setUp raises an error", _script({"setUp": t2}), [t2]),
        ("test, tearDown and a cleanup raise", _script({"test": t1, "tearDown": t2, "cleanup": t3}), [t1, t2, t3]),
        ("the test raises a MultipleExceptions of two", _script({"test": cm.multi("test", t1, t2)}), [t1, t2]),
        ("a cleanup raises a MultipleExceptions of two after the test failed", _script({"test": t3, "cleanup": cm.multi("cleanup", t1, t2)}), [t3, t1, t2]),
        ("the test raises a MultipleExceptions one of whose members is a MultipleExceptions of two", _script({"test": cm.multi("test", t3, cm.multi("inner", t1, t2))}), [t3, t1, t2]),
        ("the test skips", _script({"test": "skip"}), []),
        ("the test raises _ExpectedFailure / _UnexpectedSuccess in tearDown", _script({"test": "xfail", "tearDown": "uxsuccess"}), []),
        ("the test fails, tearDown skips", _script({"test": t1, "tearDown": "skip"}), [t1]),
        ("a KeyboardInterrupt in the test", _script({"test": "interrupt"}), [cm.raised("interrupt", "test")]),
    ]
    pred = cm.raised("fail", "predicate")
    scenarios.append(("expectFailure whose predicate fails", _script(extra={"test": [("call", "expectFailure", [("const", "known"), cm.user("predicate")], [])], "predicate": [("raise", pred)]}), [pred]))
    if ctx.tier != "thorough":
        scenarios = [s for i, s in enumerate(scenarios) if i not in (1, 5, 9)]
    for label, script, raised in scenarios:
        d, runs = cm.run_case(ctx, script)
        problems = set()
        for r in runs:
            oc, det = _details(r)
            if det is None:
                problems.add("there is not exactly one outcome with a details dict")
                continue
            got = _tracebacks(det)
            excs = [e for _, e in got]
            if sorted(map(repr, excs)) != sorted(map(repr, raised)):
                problems.add(f"{oc} carries traceback details for {excs} (named {[n for n, _ in got]}); expected exactly one for each of {raised}")
            if len({n for n, _ in det}) != len(det):
                problems.add("two details share one name")
        ctx.check("R-TRACEBACK-PER-EXC", f"[{label}] one traceback detail per failure / error raised, none for outcome signals", case.node, bool(runs) and not problems,
                  "; ".join(sorted(problems)) or "no path", examined=len(runs), construct=f"{Q}::tracebacks {label}")
    ctx.floor("R-TRACEBACK-PER-EXC", 6, "raising scenarios")


def check_collisions(ctx, case):
    Q = f"{TESTCASE}:TestCase.run"
    t1, t2 = cm.raised("fail", "first"), cm.raised("error", "second")
    M, MM, F, FC = ("wobj", "matcher"), ("wobj", "mismatch"), ("wobj", "fixture"), ("wobj", "fcontent")
    taken = ["traceback", "traceback-1", "traceback-2", "Failed expectation", "log", "diff", "reason-like"]
    attach = [("call", "addDetail", [("const", n), C(n)], []) for n in taken]
    answers = {"matcher.match": [("val", MM)], "mismatch.get_details": [("val", ("kwdict", (("diff", C("the mismatch's diff")), ("traceback", C("the mismatch's traceback")))))],
               "mismatch.describe": [("val", ("const", "it differs"))], "fixture.getDetails": [("val", ("kwdict", (("log", FC), ("diff", FC))))],
               "fcontent.iter_bytes": [("val", ("tuple", ("const", b"fixture bytes")))]}
    kw = dict(answers=answers, lacks={("fixture", "_details")}, accepting_extra=("fcontent",), extra_attrs={"fcontent.content_type": ("sym", "fixture-type")})
    scenarios = [
        ("user details named like tracebacks; two exceptions", _script({"test": t1, "tearDown": t2}, extra={"setUp": attach}), 2, 0, 0),
        ("user details; a failing expectThat with mismatch details", _script(extra={"setUp": attach, "test": [("call", "expectThat", [("sym", "matchee"), M], [])]}), 1, 2, 0),
        ("user details; a failing assertThat with mismatch details", _script(extra={"setUp": attach, "test": [("call", "assertThat", [("sym", "matchee"), M], [])]}), 1, 2, 0),
        ("user details; a fixture with details of the same names; the test fails", _script({"test": t1}, extra={"setUp": attach, "test": [("call", "useFixture", [F], [])]}), 1, 0, 2),
        ("a user detail named like the next traceback, attached between two exceptions", _script({"test": t1, "tearDown": t2}, extra={"setUp": attach[3:], "tearDown": attach[1:3]}), 2, 0, 0),
        ("two failing expectThat in one test", _script(extra={"setUp": attach, "test": [("call", "expectThat", [("sym", "matchee"), M], []), ("call", "expectThat", [("sym", "matchee"), M], [])]}), 1, 4, 0),
    ]
    for label, script, n_tb, n_mismatch, n_fixture in scenarios:
        d, runs = cm.run_case(ctx, script, **kw)
        problems, mism = set(), set()
        for r in runs:
            oc, det = _details(r)
            if det is None:
                problems.add("there is not exactly one outcome with a details dict")
                continue
            for n in (taken if "between two exceptions" not in label else taken[1:]):
                if (n, C(n)) not in det:
                    problems.add(f"the user's detail {n!r} is {'replaced by ' + repr(dict(det)[n])[:80] if n in dict(det) else 'gone'} in the details of {oc}")
            if len({n for n, _ in det}) != len(det):
                problems.add("two details share one name")
            if len(_tracebacks(det)) != n_tb:
                problems.add(f"{len(_tracebacks(det))} traceback details next to the user's (expected {n_tb}): names {[n for n, _ in det]}")
            got_m = [n for n, c in det if c in (C("the mismatch's diff"), C("the mismatch's traceback"))]
            if len(got_m) != n_mismatch:
                mism.add(f"{len(got_m)} of the {n_mismatch} details of the mismatch(es) are in the details of {oc} (names {[n for n, _ in det]})")
            got_f = [n for n, c in det if is_inst(c)]
            if len(got_f) != n_fixture:
                problems.add(f"{len(got_f)} of the fixture's {n_fixture} details are in the details of {oc} (names {[n for n, _ in det]})")
        ctx.check("R-UNIQUE-WRITE", f"[{label}] generated names never clobber (or get clobbered by) existing details", case.node, bool(runs) and not problems,
                  "; ".join(sorted(problems))[:900] or "no path", examined=len(runs), construct=f"{Q}::collisions {label}")
        if n_mismatch:
            ctx.check("R-MISMATCH-DETAILS", f"[{label}] every detail of the mismatch is in the outcome's details", case.node, bool(runs) and not mism, "; ".join(sorted(mism))[:900] or "no path",
                      examined=len(runs), construct=f"{Q}::mismatch-details {label}")
    # sparse sets of taken names: whatever subset of the names a generator could come up with the user has already used,
    # three tracebacks are added next to them and every one of the user's details is still there
    import itertools
    t3 = cm.raised("error", "third")
    pool = ["traceback", "traceback-1", "traceback-2", "traceback-3"]
    subsets = [c for k in range(1, len(pool) + 1) for c in itertools.combinations(pool, k)]
    if ctx.tier != "thorough":
        subsets = [("traceback-2",), ("traceback-1",), ("traceback", "traceback-2"), ("traceback-1", "traceback-3"), ("traceback", "traceback-1", "traceback-3")]
    for sub in subsets:
        att = [("call", "addDetail", [("const", n), C(n)], []) for n in sub]
        d, runs = cm.run_case(ctx, _script({"test": t1, "tearDown": t2, "cleanup": t3}, extra={"setUp": att}), **kw)
        problems = set()
        for r in runs:
            oc, det = _details(r)
            if det is None:
                problems.add("there is not exactly one outcome with a details dict")
                continue
            for n in sub:
                if (n, C(n)) not in det:
                    problems.add(f"the user's detail {n!r} is {'replaced by ' + repr(dict(det)[n])[:80] if n in dict(det) else 'gone'} in the details of {oc}")
            if len(_tracebacks(det)) != 3 or len(det) != len(sub) + 3:
                problems.add(f"{len(_tracebacks(det))} traceback details next to the user's {len(sub)} (expected 3): names {[n for n, _ in det]}")
        ctx.check("R-UNIQUE-WRITE", f"[the user has details named {', '.join(sub)}; three stages raise] three tracebacks are added, nothing is replaced", case.node, bool(runs) and not problems,
                  "; ".join(sorted(problems))[:900] or "no path", examined=len(runs), construct=f"{Q}::collisions sparse {'+'.join(sub)}")
    ctx.floor("R-UNIQUE-WRITE", 9, "collision scenarios")
    # the Twisted runner: the debug information of every unhandled Deferred is attached under a name of its own
    from . import c14
    core, res = c14.run_core_results(ctx, every_unhandled_has_debug_info=True)
    problems = set()
    n = 0
    for r in res:
        if r.state.get("src.unhandled") != "yes":
            continue
        n += 1
        log = r.state.get("ev.calls", ())
        unique = [e for e in log if e[0] == "case.addDetailUniqueName"]
        plain = [e for e in log if e[0] == "case.addDetail" and e[1] and isinstance(e[1][0], tuple) and e[1][0][:1] == ("const",) and "unhandled" in str(e[1][0][1])]
        if plain or len(unique) != 2:
            problems.add(f"with two unhandled Deferreds that have debug information, addDetailUniqueName is called {len(unique)} time(s) and addDetail {len(plain)} time(s) for them: "
                         "with a fixed name the second one overwrites the first")
    ctx.check("R-UNIQUE-WRITE", "AsynchronousDeferredRunTest._run_core attaches the debug information of every unhandled Deferred through addDetailUniqueName", core, n >= 1 and not problems,
              "; ".join(sorted(problems)) or "no path with unhandled Deferreds", examined=n, construct=f"{TWRUNTEST}:AsynchronousDeferredRunTest._run_core::unhandled-debug-detail")


def check_handlers(ctx, case):
    Q = f"{TESTCASE}:TestCase.addOnException"
    t1, t2, t3 = cm.raised("fail", "first"), cm.raised("error", "second"), cm.raised("skip", "third")
    reg = [("call", "addOnException", [cm.user("handler_a")], []), ("call", "addOnException", [cm.user("handler_b")], [])]
    for label, raising, want in (("one failure", {"test": t1}, [t1]), ("test, tearDown and cleanup raise (one a skip)", {"test": t1, "tearDown": t3, "cleanup": t2}, [t1, t3, t2]),
                                 ("a MultipleExceptions of two", {"test": cm.multi("test", t1, t2)}, [t1, t2]),
                                 ("a MultipleExceptions inside a MultipleExceptions", {"test": cm.multi("test", t3, cm.multi("inner", t1, t2))}, [t3, t1, t2]), ("nothing raises", {}, [])):
        d, runs = cm.run_case(ctx, _script(raising, extra={"setUp": reg}))
        problems = set()
        for r in runs:
            ev = cm.events(r, ("result.", "user."))
            first_outcome = next((i for i, e in enumerate(ev) if e[0].startswith("result.add")), len(ev))
            for h in ("handler_a", "handler_b"):
                calls = [(i, e) for i, e in enumerate(ev) if e[0] == "user." + h]
                got = [e[1][0][2] if e[1] and isinstance(e[1][0], tuple) and len(e[1][0]) == 4 else None for _, e in calls]
                if got != want:
                    problems.add(f"{h} is called for {got}; expected once, in order, for each of {want} (with the exception's exc_info)")
                if any(i > first_outcome for i, _ in calls):
                    problems.add(f"{h} is called after the outcome was reported")
        ctx.check("R-HANDLERS-BEFORE-OUTCOME", f"[{label}] every addOnException handler is called once per exception, before the outcome", case.node, bool(runs) and not problems,
                  "; ".join(sorted(problems)) or "no path", examined=len(runs), construct=f"{Q}::handlers {label}")


def check_fixture_details(ctx, case):
    Q = f"{TESTCASE}:TestCase.useFixture"
    F, FC = ("wobj", "fixture"), ("wobj", "fcontent")
    base = {"fixture.getDetails": [("val", ("kwdict", (("fixture log", FC),)))], "fcontent.iter_bytes": [("val", ("tuple", ("const", b"fixture bytes")))]}
    kw = dict(accepting_extra=("fcontent",), extra_attrs={"fcontent.content_type": ("sym", "fixture-type"), "fixture._details": ("kwdict", (("fixture log", FC),))})
    for label, answers, raising in (("the fixture is set up, the test passes", base, {}), ("the fixture is set up, the test fails", base, {"test": "fail"}),
                                    ("the fixture's setUp fails", dict(base, **{"fixture.setUp": [("exc", ("exc", "RuntimeError", "fixture"))]}), {})):
        d, runs = cm.run_case(ctx, _script(raising, extra={"test": [("call", "useFixture", [F], [])]}), answers=answers, **kw)
        problems = set()
        for r in runs:
            oc, det = _details(r)
            if det is None:
                problems.add("there is not exactly one outcome with a details dict")
                continue
            got = [(n, c) for n, c in det if n.startswith("fixture log")]
            if len(got) != 1:
                problems.add(f"{oc} carries {len(got)} detail(s) of the fixture (names {[n for n, _ in det]}); expected its one detail")
                continue
            c = got[0][1]
            ev = cm.events(r, ("result.", "fcontent."))
            reads = [i for i, e in enumerate(ev) if e[0] == "fcontent.iter_bytes"]
            outcome_at = next((i for i, e in enumerate(ev) if e[0].startswith("result.add")), len(ev))
            if not is_inst(c) or c[2].name != "Content":
                problems.add(f"the fixture's detail is passed on as {c!r}: not a copy made when the details were gathered")
            elif len(reads) != 1 or reads[0] > outcome_at:
                problems.add(f"the bytes of the fixture's detail are read {len(reads)} time(s), {'after' if reads and reads[0] > outcome_at else 'before'} the outcome: expected once, when gathered")
            elif r.state.get(f"inst.{c[1]}.content_type") != ("sym", "fixture-type"):
                problems.add("the copy of the fixture's detail does not keep its content type")
        ctx.check("R-EAGER-SNAPSHOT", f"[{label}] the fixture's details reach the outcome as copies read at gathering time", case.node, bool(runs) and not problems,
                  "; ".join(sorted(problems)) or "no path", examined=len(runs), construct=f"{Q}::fixture-details {label}")
    check_copy_content_snapshot(ctx, "R-EAGER-SNAPSHOT")


def run(ctx):
    ctx.rule("R-DETAILS-PASSED", "the one outcome of a run carries every detail attached by any stage, and the skip / expected-failure reason")
    ctx.rule("R-UNIQUE-WRITE", "generated detail names (tracebacks, failed expectations, gathered and mismatch details) never clobber existing details")
    ctx.rule("R-TRACEBACK-PER-EXC", "one traceback detail per failure / error raised by user code; none for outcome signals")
    ctx.rule("R-HANDLERS-BEFORE-OUTCOME", "addOnException handlers are called once per exception, before the outcome is reported")
    ctx.rule("R-EAGER-SNAPSHOT", "gathered details are snapshots evaluated at gathering time")
    ctx.rule("R-MISMATCH-DETAILS", "every detail of a mismatch is attached under a non-clobbering name")
    case = cm.case_class(ctx)
    check_details_passed(ctx, case)
    check_tracebacks(ctx, case)
    check_collisions(ctx, case)
    check_handlers(ctx, case)
    check_fixture_details(ctx, case)
