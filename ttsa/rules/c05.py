"""C05 -- all details and every traceback reach the result; none is dropped or overwritten."""

import ast

from ..absint import NONE, NOTNONE, TOP, DefaultDomain, Interp, State, val
from ..astutil import FUNC_TYPES, attr_chain, dotted, norm, walk_shallow
from ..cfg import live_nodes, node_calls
from ..loader import AnalysisError
from .common import literal_elements, RUNTEST, TESTCASE, TWRUNTEST, cfg_of, has_kw, kw_value, module_function, nodes_calling, own_method, str_const

EXPLANATION = (
    "R-DETAILS-PASSED: every outcome call made on behalf of a run by testcase.py, runtest.py and "
    "twistedsupport/_runtest.py passes details=<case>.getDetails() (the decorator-skip path, which runs "
    "nothing, passes reason=). R-UNIQUE-WRITE: every write of a detail made by testtools' own code into the "
    "details dict of a running TestCase (addDetail call sites) or into gather_details' target is either the "
    "reserved name 'reason', or is dominated by a loop that exits only when the name is not in that same "
    "dict; everything else must go through addDetailUniqueName. R-TRACEBACK-PER-EXC: recording an "
    "exception is dominated by onException; MultipleExceptions recurses once per constituent; "
    "onException reports a traceback unless the type is one of the three signal classes and runs the user "
    "handler loop on all paths; expectFailure reports the traceback before raising. "
    "R-HANDLERS-BEFORE-OUTCOME: onException is called only by the recorder, and the dispatch runs after "
    "_run_core returned. R-EAGER-SNAPSHOT: _copy_content evaluates iter_bytes() when details are gathered "
    "and keeps the content type. R-MISMATCH-DETAILS: every detail of a mismatch is added under a unique name."
)

OUTCOMES = {"addSuccess", "addError", "addFailure", "addSkip", "addExpectedFailure", "addUnexpectedSuccess"}


class _UniqueDomain(DefaultDomain):
    """Value flow of "this name is known not to be a key of that details dict".  A membership test
    that comes out `not in` turns the tested local into ("fresh", <dict>); any other assignment makes
    it an ordinary value again.  Details dicts are values too (("ddict", owner)), so the fact survives
    helper functions that take the dict as a parameter and return the unused name."""

    def __init__(self, classes):
        self.classes = classes
        self.writes = {}

    def call(self, interp, call, st, fr):
        d = dotted(call.func) or ""
        f = call.func
        if isinstance(f, ast.Attribute) and f.attr == "getDetails":
            return [val(("ddict", dotted(f.value) or "?"), st)]
        if d in ("itertools.count", "count"):
            return [val(("infinite",), st)]
        if isinstance(f, ast.Attribute) and f.attr == "setdefault" and len(call.args) == 2:
            return interp.eval(call.args[1], st, fr)
        if isinstance(f, ast.Attribute) and f.attr in ("addDetail", "addDetailUniqueName") and call.args:
            out = []
            for r in interp.eval(call.args[0], st, fr):
                if r.kind == "exc":
                    out.append(r)
                    continue
                if f.attr == "addDetail":
                    owner = ("ddict", dotted(f.value) or "?")
                    fresh = r.value == ("fresh", owner) or r.value == ("const", "reason")
                    self.writes.setdefault(id(call), []).append((fresh, r.value))
                out.append(val(NONE, r.state))
            return out
        hit = interp.auto_inline(call, st, fr, self.classes)
        if hit is not None:
            return hit
        out = []
        for r in interp.eval_list([a for a in call.args if not isinstance(a, ast.Starred)] + [k.value for k in call.keywords], st, fr):
            out.append(r if r.kind == "exc" else val(TOP, r.state))
        return out

    def iter_kind(self, value):
        return "nonempty" if value == ("infinite",) else super().iter_kind(value)

    def for_step(self, interp, stmt, itervalue, st, fr, first):
        if itervalue == ("infinite",):
            return True, False
        return None

    def refine(self, interp, test, st, fr, truth):
        if isinstance(test, ast.Compare) and len(test.ops) == 1 and isinstance(test.ops[0], (ast.In, ast.NotIn)) and isinstance(test.left, ast.Name):
            absent = truth == isinstance(test.ops[0], ast.NotIn)
            for r in interp.eval(test.comparators[0], st, fr):
                if r.kind == "val" and isinstance(r.value, tuple) and r.value[:1] == ("ddict",):
                    key = fr.local(test.left.id)
                    return st.set(key, ("fresh", r.value)) if absent else st
        return st

    def store_subscript(self, target, value, st, fr, interp):
        for r in interp.eval_list([target.value, target.slice], st, fr):
            if r.kind == "val" and isinstance(r.value[0], tuple) and r.value[0][:1] == ("ddict",):
                self.writes.setdefault(id(target), []).append((r.value[1] == ("fresh", r.value[0]), r.value[1]))
        return st

    def constant(self, node):
        return ("const", node.value)

    def truth(self, value):
        if isinstance(value, tuple) and len(value) == 2 and value[0] == "const" and not isinstance(value[1], str):
            return "T" if value[1] else "F"
        if isinstance(value, tuple) and len(value) == 2 and value[0] == "const":
            return "T" if value[1] else "F"
        return super().truth(value)

    def is_none(self, value):
        if isinstance(value, tuple) and len(value) == 2 and value[0] == "const":
            return "T" if value[1] is None else "F"
        return super().is_none(value)


class _MismatchDetailsDomain(DefaultDomain):
    """_matchHelper with a symbolic verdict whose get_details() holds exactly one (name, content) pair."""

    def __init__(self, classes):
        self.classes = classes

    def truth(self, value):
        if value == ("mismatch",):
            return "T"
        return super().truth(value)

    def is_none(self, value):
        return "F" if value == ("mismatch",) else super().is_none(value)

    def iter_kind(self, value):
        return "nonempty" if value == ("detail-items",) else super().iter_kind(value)

    def for_step(self, interp, stmt, itervalue, st, fr, first):
        if itervalue == ("detail-items",):
            return (True, False) if first else (False, True)
        return None

    def element(self, itervalue, st, node):
        if itervalue == ("detail-items",):
            return ("tuple", ("detail-name",), ("detail-content",))
        return TOP

    def call(self, interp, call, st, fr):
        f = call.func
        d = dotted(f) or ""
        if isinstance(f, ast.Attribute) and f.attr == "match":
            return [val(NONE, st.set("ev.verdict", "none")), val(("mismatch",), st.set("ev.verdict", "mismatch"))]
        if isinstance(f, ast.Attribute) and f.attr == "items" and isinstance(f.value, ast.Call) and isinstance(f.value.func, ast.Attribute) and f.value.func.attr == "get_details":
            return [val(("detail-items",), st)]
        if isinstance(f, ast.Attribute) and f.attr == "get_details":
            return [val(("detail-dict",), st)]
        if isinstance(f, ast.Attribute) and f.attr == "items":
            out = []
            for r in interp.eval(f.value, st, fr):
                out.append(r if r.kind == "exc" else val(("detail-items",) if r.value == ("detail-dict",) else TOP, r.state))
            return out
        if d.endswith("addDetailUniqueName") and len(call.args) == 2:
            out = []
            for r in interp.eval_list(list(call.args), st, fr):
                out.append(r if r.kind == "exc" else val(NONE, r.state.set("ev.added", r.state.get("ev.added", ()) + ((r.value[0], r.value[1]),))))
            return out
        hit = interp.auto_inline(call, st, fr, self.classes)
        if hit is not None:
            return hit
        out = []
        for r in interp.eval_list([a for a in call.args if not isinstance(a, ast.Starred)] + [k.value for k in call.keywords], st, fr):
            out.append(r if r.kind == "exc" else val(NOTNONE, r.state))
        return out


def unique_write_verdicts(ctx, func, receiver, argvals):
    """{id(write node): [(fresh?, name value)]} over an abstract run of func."""
    dom = _UniqueDomain(ctx.classes)
    it = Interp(dom, max_depth=4)
    it.analyze(func, argvals, State(), receiver=receiver, name=getattr(func, "name", "?"))
    ctx.stats["states"] += it.steps
    for fn in it.functions:
        ctx.analysed(fn)
    return dom.writes


def guard_for_write(func, write_stmt, name_expr, dict_exprs):
    """Is the write dominated by a loop that exits only when name not in dict?"""
    # aliases: X = N statements between the loop and the write
    block = getattr(write_stmt, "_parent", None)
    body = None
    for fld in ("body", "orelse", "finalbody"):
        b = getattr(block, fld, None)
        if isinstance(b, list) and write_stmt in b:
            body = b
    if body is None:
        return False, "write is not a statement of a block"
    idx = body.index(write_stmt)
    names = {dotted(name_expr)}
    i = idx - 1
    while i >= 0:
        s = body[i]
        if isinstance(s, ast.Assign) and isinstance(s.targets[0], ast.Name) and s.targets[0].id in names and isinstance(s.value, ast.Name):
            names.add(s.value.id)
            i -= 1
            continue
        if isinstance(s, ast.While):
            t = s.test
            # while N in D:
            if isinstance(t, ast.Compare) and len(t.ops) == 1 and isinstance(t.ops[0], ast.In) and dotted(t.left) in names and norm(t.comparators[0]) in dict_exprs:
                if not any(isinstance(x, ast.Break) for x in walk_shallow(s)):
                    return True, ""
            # while True: ... if N not in D: break
            if isinstance(t, ast.Constant) and t.value is True:
                brk = [x for x in walk_shallow(s) if isinstance(x, ast.Break)]
                ok = bool(brk)
                for b in brk:
                    p = getattr(b, "_parent", None)
                    if not (isinstance(p, ast.If) and isinstance(p.test, ast.Compare) and len(p.test.ops) == 1 and isinstance(p.test.ops[0], ast.NotIn)
                            and dotted(p.test.left) in names and norm(p.test.comparators[0]) in dict_exprs):
                        ok = False
                if ok:
                    return True, ""
            return False, "the preceding loop does not establish `name not in details`"
        if isinstance(s, (ast.Expr, ast.Assign)) and not any(isinstance(c, ast.Call) and (dotted(c.func) or "").endswith("addDetail") for c in walk_shallow(s)):
            # harmless statement in between? only if it does not rebind the name or write the dict
            if isinstance(s, ast.Assign) and any(dotted(t) in names for t in s.targets):
                return False, "the name is rebound after the uniqueness loop"
            i -= 1
            continue
        break
    return False, "no uniqueness loop dominates the write"


def run(ctx):
    ctx.rule("R-DETAILS-PASSED", "every outcome reported for a run carries details=<case>.getDetails()")
    ctx.rule("R-UNIQUE-WRITE", "internal detail writes are collision-guarded (reserved name, or dominated by a not-in loop)")
    ctx.rule("R-TRACEBACK-PER-EXC", "one traceback detail per recorded exception; handlers run for every exception")
    ctx.rule("R-HANDLERS-BEFORE-OUTCOME", "addOnException handlers run while stages run, before the outcome is dispatched")
    ctx.rule("R-EAGER-SNAPSHOT", "gathered details are snapshots evaluated at gathering time")
    ctx.rule("R-MISMATCH-DETAILS", "every detail of a mismatch is attached under a non-clobbering name")
    classes = ctx.classes

    # ------------------------------------------------------------------ details passed
    n = 0
    for modname in (TESTCASE, RUNTEST, TWRUNTEST):
        m = ctx.repo.module(modname)
        for f in ast.walk(m.tree):
            if not isinstance(f, FUNC_TYPES):
                continue
            cls = getattr(f, "_class", None)
            if cls is not None and cls.name in ("PlaceHolder", "DecorateTestCaseResult", "ExpectedException"):
                continue  # PlaceHolder replays stored details (C09)
            for c in walk_shallow(f, include_self=False):
                if not (isinstance(c, ast.Call) and isinstance(c.func, ast.Attribute) and c.func.attr in OUTCOMES):
                    continue
                recv = dotted(c.func.value)
                if recv not in ("result", "self.result"):
                    continue
                n += 1
                d = kw_value(c, "details")
                ok = d is not None and isinstance(d, ast.Call) and dotted(d.func) in ("self.getDetails", "self.case.getDetails")
                if not ok and c.func.attr == "addSkip" and has_kw(c, "reason") and f.name == "_run_core" and d is None:
                    ctx.note("R-DETAILS-PASSED frozen exception: decorator-skip path in RunTest._run_core passes reason= (nothing ran, no details exist)")
                    ok = True
                ctx.check("R-DETAILS-PASSED", f"{modname.split('.')[-1]}:{f.name}: {norm(c.func)}", c, ok,
                          f"`{norm(c)[:80]}` does not pass details=<case>.getDetails(): everything attached during the run is dropped",
                          construct=f"{modname}:{f.name}::{c.func.attr}")
    ctx.floor("R-DETAILS-PASSED", 8, "outcome call sites")
    rs = own_method(ctx, TESTCASE, "TestCase", "_report_skip")
    g = cfg_of(ctx, rs)
    lv = live_nodes(g)
    reason = nodes_calling(g, lambda c: dotted(c.func) == "self._add_reason", lv)
    skip = nodes_calling(g, lambda c: isinstance(c.func, ast.Attribute) and c.func.attr == "addSkip", lv)
    ok = bool(reason) and bool(skip) and all(g.dominated_by(s, set(reason)) for s in skip)
    ctx.check("R-DETAILS-PASSED", "skip reason is attached before addSkip", rs, ok, "addSkip can be reported without the reason detail", construct=f"{TESTCASE}:TestCase._report_skip::reason-first")

    # ------------------------------------------------------------------ unique write
    fixture_like = set()
    for c in classes.all:
        if not c.external and classes.has_base_named(c, "Fixture"):
            fixture_like.add(c.node)
    sites = []
    for modname, m in ctx.repo.modules.items():
        for f in ast.walk(m.tree):
            if not isinstance(f, FUNC_TYPES):
                continue
            if getattr(f, "_class", None) in fixture_like:
                continue
            for c in walk_shallow(f, include_self=False):
                if isinstance(c, ast.Call) and isinstance(c.func, ast.Attribute) and c.func.attr == "addDetail" and len(c.args) >= 1:
                    recv = dotted(c.func.value)
                    if recv in ("self", "self.case", "case", "test"):
                        sites.append((m, f, c))
    for m, f, c in sites:
        ctx.repo.module(m.name)
        stmt = c
        while not isinstance(stmt, ast.stmt):
            stmt = stmt._parent
        name = c.args[0]
        recv = dotted(c.func.value)
        if f.name == "addDetailUniqueName" or str_const(name) == "reason":
            dict_exprs = {"existing_details", "self.getDetails()"}
            if str_const(name) == "reason":
                ctx.check("R-UNIQUE-WRITE", f"{f.name}: reserved name 'reason'", c, True)
                continue
        dict_exprs = {f"{recv}.getDetails()", "existing_details", "self.getDetails()"}
        # locals bound to <recv>.getDetails()
        for s in walk_shallow(f, include_self=False):
            if isinstance(s, ast.Assign) and isinstance(s.value, ast.Call) and dotted(s.value.func) in (f"{recv}.getDetails", "self.getDetails") and isinstance(s.targets[0], ast.Name):
                dict_exprs.add(s.targets[0].id)
        exempt = (m.name == TWRUNTEST and f.name == "_run_core" and isinstance(getattr(stmt, "_parent", None), ast.For)
                  and "capture_logs.getDetails().items()" in norm(stmt._parent.iter))
        if exempt:
            ctx.note("R-UNIQUE-WRITE frozen exception: log-fixture details copied at the top of AsynchronousDeferredRunTest._run_core "
                     "(distinct keys of one dict, written into the dict TestCase.run has just reset)")
            continue
        if isinstance(name, ast.Constant):
            ok, why = False, f"constant detail name {name.value!r} is written without a uniqueness guard"
            in_loop = any(isinstance(p, (ast.For, ast.While)) for p in _ancestors(c, f))
            if in_loop:
                why += " inside a loop: a second iteration overwrites the first detail"
        else:
            cls_node = getattr(f, "_class", None)
            recv_cls = classes.get(m.name, cls_node.name) if cls_node is not None else None
            verdicts = unique_write_verdicts(ctx, f, recv_cls, {}).get(id(c), [])
            bad = [v for fresh, v in verdicts if not fresh]
            ok = bool(verdicts) and not bad
            why = ("the write is never reached on the abstract run" if not verdicts else "" if not bad else
                   f"on some path the name written is `{bad[0]!r}`, not a name just found absent from {recv}.getDetails() (no `not in` test on the same dict decides the write)")
        ctx.check("R-UNIQUE-WRITE", f"{m.name.split('.')[-1]}:{f.name}: addDetail({norm(name)[:40]}, ...)", c, ok,
                  f"{why}; use addDetailUniqueName", construct=f"{m.name}:{f.name}::addDetail({norm(name)[:50]})")
    gd = module_function(ctx, TESTCASE, "gather_details")
    writes = [s for s in ast.walk(gd) if isinstance(s, ast.Assign) and isinstance(s.targets[0], ast.Subscript) and dotted(s.targets[0].value) == gd.args.args[1].arg]
    gd_verdicts = unique_write_verdicts(ctx, gd, None, {gd.args.args[0].arg: ("source-dict",), gd.args.args[1].arg: ("ddict", "target")})
    for w in writes:
        verdicts = gd_verdicts.get(id(w.targets[0]), [])
        bad = [v for fresh, v in verdicts if not fresh]
        ok = bool(verdicts) and not bad
        why = "the write is never reached on the abstract run" if not verdicts else "" if not bad else f"on some path the key written is `{bad[0]!r}`, not a name just found absent from the target dict"
        ctx.check("R-UNIQUE-WRITE", f"gather_details: {norm(w.targets[0])} = ...", w, ok, f"{why}: a fixture detail can overwrite an existing detail of the same name",
                  construct=f"{TESTCASE}:gather_details::write")
    ctx.check("R-UNIQUE-WRITE", "gather_details writes the target dict", gd, len(writes) == 1, f"{len(writes)} writes found", construct=f"{TESTCASE}:gather_details::writes")
    ok = any(isinstance(l, ast.For) and norm(l.iter) == f"{gd.args.args[0].arg}.items()" and not any(isinstance(x, (ast.Break, ast.Continue, ast.Return)) for x in walk_shallow(l) if not isinstance(getattr(x, "_parent", None), ast.While))
             for l in gd.body)
    ctx.check("R-UNIQUE-WRITE", "gather_details copies every source detail", gd, ok, "gather_details does not iterate all of source_dict.items()", construct=f"{TESTCASE}:gather_details::all")
    ctx.floor("R-UNIQUE-WRITE", 6)

    # ------------------------------------------------------------------ traceback per exception
    gue = own_method(ctx, RUNTEST, "RunTest", "_got_user_exception")
    g = cfg_of(ctx, gue)
    lv = live_nodes(g)
    onex = nodes_calling(g, lambda c: dotted(c.func) == "self.case.onException", lv)
    app = nodes_calling(g, lambda c: dotted(c.func) == "self._exceptions.append", lv)
    ok = bool(onex) and bool(app) and all(g.dominated_by(a, set(onex)) for a in app)
    ctx.check("R-TRACEBACK-PER-EXC", "recording an exception is dominated by onException", gue, ok,
              "an exception can be recorded without onException (no traceback detail, handlers not called)", construct=f"{RUNTEST}:RunTest._got_user_exception::onException-first")
    if onex:
        c = [c for c in node_calls(g.nodes[onex[0]]) if dotted(c.func) == "self.case.onException"][0]
        ok = c.args and dotted(c.args[0]) == gue.args.args[1].arg and dotted(kw_value(c, "tb_label")) == "tb_label"
        ctx.check("R-TRACEBACK-PER-EXC", "onException receives the exc_info and the label", c, ok, "onException is not called with (exc_info, tb_label=tb_label)", construct=f"{RUNTEST}:RunTest._got_user_exception::args")
    loops = [l for l in walk_shallow(gue, include_self=False) if isinstance(l, ast.For)]
    ok = False
    if len(loops) == 1 and isinstance(loops[0].target, ast.Name) and norm(loops[0].iter).endswith(".args"):
        v = loops[0].target.id
        rec = [c for c in walk_shallow(loops[0]) if isinstance(c, ast.Call) and dotted(c.func) == "self._got_user_exception" and c.args and dotted(c.args[0]) == v]
        ok = len(rec) == 1 and not any(isinstance(x, (ast.Break, ast.Continue, ast.Return, ast.If)) for x in walk_shallow(loops[0]))
    ctx.check("R-TRACEBACK-PER-EXC", "MultipleExceptions: one recursive report per constituent", gue, ok,
              "the constituents of a MultipleExceptions are not each reported once", construct=f"{RUNTEST}:RunTest._got_user_exception::multi")
    oe = own_method(ctx, TESTCASE, "TestCase", "onException")
    g = cfg_of(ctx, oe)
    lv = live_nodes(g)
    tb = nodes_calling(g, lambda c: dotted(c.func) == "self._report_traceback", lv)
    hl = [n.id for n in g.nodes if n.id in lv and n.kind == "iter" and "exception_handlers" in norm(n.ast.iter)]
    esc = g.escape_path([g.entry], set(hl), targets=[g.exit_return]) if hl else [0]
    ctx.check("R-TRACEBACK-PER-EXC", "user handler loop runs on every path through onException", oe, bool(hl) and esc is None,
              "the addOnException handler loop is skipped on some path (e.g. nested under the traceback condition)", construct=f"{TESTCASE}:TestCase.onException::handlers-always")
    hcall = [c for l in walk_shallow(oe, include_self=False) if isinstance(l, ast.For) and "exception_handlers" in norm(l.iter)
             for c in walk_shallow(l) if isinstance(c, ast.Call) and dotted(c.func) == dotted(l.target)]
    ok = len(hcall) == 1 and hcall[0].args and dotted(hcall[0].args[0]) == oe.args.args[1].arg
    loop_ok = all(not any(isinstance(x, (ast.Break, ast.Return, ast.If, ast.Try)) for x in walk_shallow(l)) for l in walk_shallow(oe, include_self=False) if isinstance(l, ast.For))
    ctx.check("R-TRACEBACK-PER-EXC", "each handler is called once with the exc_info", oe, ok and loop_ok, "handlers are not each called exactly once with exc_info", construct=f"{TESTCASE}:TestCase.onException::handler-call")
    # the membership test on the exception type (either polarity) splits the paths: the traceback is
    # reported on every path of the "not a signal class" side and on none of the other
    ok = False
    tests = [n for n in g.nodes if n.id in lv and n.kind == "test" and isinstance(n.ast.test, ast.Compare) and isinstance(n.ast.test.ops[0], (ast.In, ast.NotIn))
             and literal_elements(n.ast.test.comparators[0], n.ast) is not None and norm(n.ast.test.left).startswith(oe.args.args[1].arg + "[0]")]
    if len(tests) == 1 and tb:
        t = tests[0]
        loud = "true" if isinstance(t.ast.test.ops[0], ast.NotIn) else "false"
        loud_succ = [b for b, k in g.succ[t.id] if k == loud]
        quiet_succ = [b for b, k in g.succ[t.id] if k != loud and k in ("true", "false")]
        always = g.escape_path(loud_succ, set(tb), targets=[g.exit_return]) is None
        never = not (set(g.reach(quiet_succ)) & set(tb)) and not any(q in tb for q in quiet_succ)
        shapes = all(dotted(c.args[0]) == oe.args.args[1].arg and dotted(kw_value(c, "tb_label")) == "tb_label"
                     for i in tb for c in node_calls(g.nodes[i]) if dotted(c.func) == "self._report_traceback")
        ok = always and never and shapes and g.dominated_by(tb[0], {t.id})
    ctx.check("R-TRACEBACK-PER-EXC", "traceback reported unless the type is a signal class", oe, ok,
              "onException does not call _report_traceback(exc_info, tb_label=tb_label) exactly when the type is not in the quiet list", construct=f"{TESTCASE}:TestCase.onException::traceback")
    ef = own_method(ctx, TESTCASE, "TestCase", "expectFailure")
    g = cfg_of(ctx, ef)
    lv = live_nodes(g)
    rep = nodes_calling(g, lambda c: dotted(c.func) == "self._report_traceback", lv)
    rz = [n.id for n in g.nodes if n.id in lv and n.kind == "raise" and isinstance(n.ast, ast.Raise) and n.ast.exc is not None and "_ExpectedFailure" in norm(n.ast.exc)]
    ok = bool(rep) and bool(rz) and all(g.dominated_by(r, set(rep)) for r in rz)
    ctx.check("R-TRACEBACK-PER-EXC", "expectFailure reports the assertion's traceback before raising _ExpectedFailure", ef, ok,
              "the assertion behind an expected failure is raised without its traceback detail", construct=f"{TESTCASE}:TestCase.expectFailure::traceback-first")
    rt_ = own_method(ctx, TESTCASE, "TestCase", "_report_traceback")
    ok = any(isinstance(c, ast.Call) and (dotted(c.func) or "").endswith("TracebackContent") and c.args and dotted(c.args[0]) == rt_.args.args[1].arg for c in ast.walk(rt_))
    ctx.check("R-TRACEBACK-PER-EXC", "_report_traceback attaches a TracebackContent of the exc_info", rt_, ok, "no TracebackContent(exc_info, ...) is attached", construct=f"{TESTCASE}:TestCase._report_traceback::content")

    # ------------------------------------------------------------------ handlers before outcome
    callers = []
    for modname, m in ctx.repo.modules.items():
        for c in ast.walk(m.tree):
            if isinstance(c, ast.Call) and isinstance(c.func, ast.Attribute) and c.func.attr == "onException":
                callers.append(f"{modname}:{getattr(getattr(c, '_func', None), 'name', '?')}")
    ctx.check("R-HANDLERS-BEFORE-OUTCOME", "onException is called only by the exception recorder", gue, callers == [f"{RUNTEST}:_got_user_exception"],
              f"onException is called from {callers}", construct=f"{RUNTEST}::onException-callers")
    rpr = own_method(ctx, RUNTEST, "RunTest", "_run_prepared_result")
    # decided on the abstract run: no user stage and no onException call happens once an outcome was dispatched
    from . import runmodel
    rt_cls = classes.get(RUNTEST, "RunTest")
    run_res, _ = runmodel.analyse_run(ctx, rt_cls)
    late = [r for r in run_res if r.state.get("ev.onexc_after_outcome", 0) or r.state.get("ev.user_after_outcome", 0)]
    n_out = sum(1 for r in run_res if r.state.get("ev.outcomes", 0) >= 1)
    ctx.check("R-HANDLERS-BEFORE-OUTCOME", "the outcome is dispatched only after every stage (and its onException handlers) has run", rpr, not late and n_out >= 1,
              "a stage or an addOnException handler can run after the outcome handler was called: what it attaches is missing from the reported details",
              path=runmodel.fmt_log(late[0].state) if late else None, examined=len(run_res), construct=f"{RUNTEST}:RunTest._run_prepared_result::dispatch-after-core")

    # ------------------------------------------------------------------ eager snapshot
    from .common import check_copy_content_snapshot
    check_copy_content_snapshot(ctx, "R-EAGER-SNAPSHOT")
    gcalls = [c for c in ast.walk(gd) if isinstance(c, ast.Call) and dotted(c.func) == "_copy_content"]
    ctx.check("R-EAGER-SNAPSHOT", "gather_details stores copies", gd, len(gcalls) == 1 and all(isinstance(w.value, ast.Call) and dotted(w.value.func) == "_copy_content" for w in writes),
              "gather_details stores the live content object instead of a snapshot", construct=f"{TESTCASE}:gather_details::copies")

    # ------------------------------------------------------------------ mismatch details
    mh = own_method(ctx, TESTCASE, "TestCase", "_matchHelper")
    tc_cls = classes.get(TESTCASE, "TestCase")
    dom = _MismatchDetailsDomain(classes)
    it = Interp(dom, max_depth=4)
    res = it.analyze(mh, {}, State([("ev.added", ())]), receiver=tc_cls, name="_matchHelper")
    ctx.stats["states"] += it.steps
    for fn in it.functions:
        ctx.analysed(fn)
    outs = {(r.kind, r.state.get("ev.verdict", "?"), r.state.get("ev.added", ())) for r in res}
    want_pair = ((("detail-name",), ("detail-content",)),)
    problems = []
    for kind, verdict, added in outs:
        if verdict == "mismatch" and added != want_pair:
            problems.append(f"with a mismatch carrying one detail, addDetailUniqueName is called {len(added)} time(s) with {added!r}")
        if verdict == "none" and added:
            problems.append("details are attached although the matcher matched")
    ctx.check("R-MISMATCH-DETAILS", "_matchHelper adds every mismatch detail through addDetailUniqueName", mh, bool(outs) and not problems and any(v == "mismatch" for _, v, _ in outs),
              "mismatch details are not each attached under a unique name: " + "; ".join(sorted(set(problems))), construct=f"{TESTCASE}:TestCase._matchHelper::details")
    et = own_method(ctx, TESTCASE, "TestCase", "expectThat")
    calls = [c for c in walk_shallow(et, include_self=False) if isinstance(c, ast.Call) and dotted(c.func) == "self.addDetailUniqueName"]
    ctx.check("R-MISMATCH-DETAILS", "expectThat records the failed expectation under a unique name", et, len(calls) == 1 and str_const(calls[0].args[0]) is not None,
              "expectThat no longer uses addDetailUniqueName for its 'Failed expectation' detail", construct=f"{TESTCASE}:TestCase.expectThat::unique")
    ctx.assume("fixtures.Fixture.addDetail / getDetails are the fixture's own dict (outside R-UNIQUE-WRITE's scope)")


def _ancestors(node, stop):
    out = []
    n = getattr(node, "_parent", None)
    while n is not None and n is not stop:
        out.append(n)
        n = getattr(n, "_parent", None)
    return out
