"""Abstract model of one RunTest run (shared by C01, C02, C03, C05).

The runner's own code is interpreted abstractly (ttsa.absint) with event
monitors; user code (setUp / test / tearDown / cleanups / handlers) is left
symbolic: it either returns a value that is not the runner's private sentinel
or raises a *user* exception.  Result methods and addOnException handlers may
raise a *framework* exception (documented to abort the run).
"""

import ast

from ..absint import (EMPTY, NONE, NONEMPTY, NOTNONE, TOP, DefaultDomain, Frame, Interp, Result, State, exc, val)
from ..astutil import FUNC_TYPES, attr_chain, dotted, norm
from ..loader import AnalysisError, Undecided
from .common import RUNTEST

SENT = ("sentinel", "exception_caught")
USERVALUE = ("uservalue",)
USER_EXC = ("user",)
RERAISE = ("reraise",)

OUTCOME_METHODS = {"addSuccess", "addError", "addFailure", "addSkip", "addExpectedFailure", "addUnexpectedSuccess"}
USER_STAGES = {"_run_setup": "setUp", "_run_test_method": "test", "_run_teardown": "tearDown"}


def bump(st, key, cap=2):
    return st.set(key, min(st.get(key, 0) + 1, cap))


class RunDomain(DefaultDomain):
    """Semantics of the calls made by RunTest (receiver-class sensitive)."""

    def __init__(self, classes, receiver, record_stages=True):
        self.classes = classes
        self.receiver = receiver
        self.record_stages = record_stages
        self.unmodelled = set()

    # -- values ---------------------------------------------------------------------
    def truth(self, value):
        if value == SENT:
            return "T"
        if value == USERVALUE:
            return "TF"
        return super().truth(value)

    def is_none(self, value):
        if value in (USERVALUE, TOP):
            return "TF"
        if value == NONE:
            return "T"
        return "F"

    def load_attr(self, chain, st, fr):
        if chain[0] == "<value>":
            return None
        d = ".".join(chain)
        if d == "self.exception_caught":
            return SENT
        if d in ("self.handlers",):
            return ("handlers",)
        if d == "self.last_resort":
            return ("handler", "last_resort")
        if d == "self.case._cleanups":
            return ("cleanups",)
        if d.startswith("self.case.") and chain[-1] in USER_STAGES and len(chain) == 3:
            return ("user", USER_STAGES[chain[-1]])
        if chain[0] == "self" and len(chain) == 2 and fr.receiver is not None:
            owner, f = self.classes.resolve_method(fr.receiver, chain[1])
            if isinstance(f, FUNC_TYPES) and not st.has("self." + chain[1]):
                return ("method", chain[1])
        if len(chain) == 1:
            m = fr.func._module if hasattr(fr.func, "_module") else None
            if m is not None:
                for node in m.tree.body:
                    if isinstance(node, FUNC_TYPES) and node.name == chain[0]:
                        return ("func", node)
                    if isinstance(node, ast.ClassDef) and node.name == chain[0]:
                        return ("class", chain[0])
        return None

    def iter_kind(self, value):
        if value == ("cleanups",):
            return "unknown"
        return super().iter_kind(value)

    def element(self, itervalue, st, node):
        if itervalue == ("handlers",):
            return ("tuple", ("excclass",), ("handler", "table"))
        return TOP

    def match(self, handler_type, excvalue, st):
        if handler_type is None:
            return "yes"
        names = [norm(t) for t in (handler_type.elts if isinstance(handler_type, ast.Tuple) else [handler_type])]
        if any(n.split(".")[-1] == "BaseException" for n in names):
            return "yes"
        if isinstance(excvalue, tuple) and len(excvalue) == 2 and isinstance(excvalue[1], str):
            for n in names:
                if excvalue[1].startswith(n.split(".")[-1] + ":"):
                    return "yes"
        # user code may raise anything: an `except Exception` misses KeyboardInterrupt
        return "maybe"

    def unknown_call(self, call, st):
        return [val(TOP, st), exc(("framework", "call " + norm(call.func)[:40]), st)]

    def raised_value(self, stmt, value, st, fr):
        if isinstance(stmt.exc, ast.Name) and st.get(fr.local(stmt.exc.id)) == ("recorded",):
            return RERAISE
        if value == ("recorded",):
            return RERAISE
        if isinstance(stmt.exc, ast.Call) and isinstance(stmt.exc.func, ast.Name) and fr.name == "_raise_force_fail_error":
            return USER_EXC
        return ("framework", "raise " + norm(stmt.exc)[:40])

    # -- calls ------------------------------------------------------------------------
    def call(self, interp, call, st, fr):
        func = call.func
        d = dotted(func)
        ch = attr_chain(func)
        # result events
        if isinstance(func, ast.Attribute) and dotted(func.value) in ("result", "self.result", "actual_result"):
            m = func.attr
            return self._with_args(interp, call, st, fr, lambda s: self._result_event(m, call, s))
        if d in ("getattr", "isinstance", "sys.exc_info", "hasattr", "len", "id", "repr", "str"):
            return self._with_args(interp, call, st, fr, lambda s: [val(("bool",) if d in ("isinstance", "hasattr") else TOP, s)])
        if isinstance(func, ast.Name) and (func.id.endswith(("Error", "Exception")) or func.id in ("object", "set", "list", "dict", "tuple", "frozenset")):
            return self._with_args(interp, call, st, fr, lambda s: [val(NOTNONE, s)])
        if d == "self.case.onException":
            return self._with_args(interp, call, st, fr, lambda s: [val(NONE, s.note(("onException", call.lineno))), exc(("framework", "addOnException handler raised"), s)])
        if d in ("self.case.getDetails", "self.case.defaultTestResult"):
            return [val(NOTNONE, st)]
        if d == "self._exceptions.append":
            return self._with_args(interp, call, st, fr, lambda s: [val(NONE, (s.set("ev.appended", 1) if s.has("ev.appended") else s).set("self._exceptions", NONEMPTY).note(("record", call.lineno)))])
        if d == "self._exceptions.pop":
            cur = st.get("self._exceptions", TOP)
            out = []
            if cur in (NONEMPTY, TOP):
                out.append(val(("recorded",), st.set("self._exceptions", EMPTY)))
                out.append(val(("recorded",), st.set("self._exceptions", NONEMPTY)))
            if cur in (EMPTY, TOP):
                out.append(exc(("framework", "pop from empty list"), st))
            return out
        if d == "self.case._cleanups.pop":
            return [val(("tuple", ("user", "cleanup"), TOP, TOP), st), exc(("framework", "IndexError: pop from empty list"), st)]
        if d == "ExtendedToOriginalDecorator":
            return self._with_args(interp, call, st, fr, lambda s: [val(NOTNONE, s)])
        # calls on self: inline through the receiver's MRO
        if ch and ch[0] == "self" and len(ch) == 2 and fr.receiver is not None:
            owner, f = self.classes.resolve_method(fr.receiver, ch[1])
            if isinstance(f, FUNC_TYPES) and not owner.external:
                return self._inline_call(interp, f, call, st, fr, skip_self=True)
        # call of a local holding an abstract callable
        if isinstance(func, ast.Name) or (ch and ch[0] == "self" and len(ch) == 2):
            outs = []
            for r in interp.eval(func, st, fr):
                if r.kind == "exc":
                    outs.append(r)
                    continue
                v = r.value
                if isinstance(v, tuple) and v and v[0] == "user":
                    outs.extend(self._with_args(interp, call, r.state, fr, lambda s, v=v: self._user_call(v, call, s)))
                elif isinstance(v, tuple) and v and v[0] == "handler":
                    outs.extend(self._with_args(interp, call, r.state, fr, lambda s, v=v: self._handler_call(v, call, s)))
                elif isinstance(v, tuple) and v and v[0] == "method" and fr.receiver is not None:
                    owner, f = self.classes.resolve_method(fr.receiver, v[1])
                    outs.extend(self._inline_call(interp, f, call, r.state, fr, skip_self=True))
                elif isinstance(v, tuple) and v and v[0] == "func":
                    outs.extend(self._inline_call(interp, v[1], call, r.state, fr, skip_self=False))
                elif v == TOP and isinstance(func, ast.Name) and r.state.has(fr.local(func.id)):
                    # an unknown callable handed in by the caller (a parameter): user code
                    outs.extend(self._with_args(interp, call, r.state, fr, lambda s: self._user_call(("user", func.id), call, s)))
                else:
                    return None
            return outs
        return None

    def _with_args(self, interp, call, st, fr, k):
        out = []
        exprs = [a.value if isinstance(a, ast.Starred) else a for a in call.args] + [kw.value for kw in call.keywords]
        for r in interp.eval_list(exprs, st, fr):
            if r.kind == "exc":
                out.append(r)
            else:
                out.extend(k(r.state))
        return out

    def _result_event(self, m, call, st):
        s = st
        if m == "startTest":
            s = bump(s, "ev.started").note(("startTest", call.lineno))
        elif m == "stopTest":
            s = bump(s, "ev.stopped").note(("stopTest", call.lineno))
            if st.get("ev.started", 0) == 0:
                s = s.set("ev.stop_before_start", 1)
        elif m in OUTCOME_METHODS:
            s = bump(s, "ev.outcomes").note((m, call.lineno))
            if st.get("ev.started", 0) == 0 or st.get("ev.stopped", 0) > 0:
                s = s.set("ev.outcome_outside_bracket", 1)
        elif m == "startTestRun":
            s = bump(s, "ev.startRun").note(("startTestRun", call.lineno))
        elif m == "stopTestRun":
            s = bump(s, "ev.stopRun").note(("stopTestRun", call.lineno))
        else:
            return [val(TOP, st)]
        # the event was delivered (s); or the result method raised before/after (framework)
        # the event was delivered (s) -- or the result method raised; a startTest that
        # raised did not complete, so the bracket has not been opened
        return [val(NONE, s), exc(("framework", f"result.{m} raised"), st if m in ("startTest", "startTestRun") else s)]

    def _user_call(self, v, call, st):
        stage = v[1]
        ok = st.note(("user:" + stage, call.lineno))
        bad = st.note(("user-raise:" + stage, call.lineno))
        if self.record_stages:
            seq = st.get("ev.stages", ())
            ok = ok.set("ev.stages", seq if stage in seq else seq + (stage,))
            seq2 = seq if stage in seq else seq + (stage,)
            bad = bad.set("ev.stages", seq2 if stage + "!" in seq2 else seq2 + (stage + "!",))
        return [val(USERVALUE, ok), exc(USER_EXC, bad)]

    def _handler_call(self, v, call, st):
        s = bump(st, "ev.outcomes").note(("handler:" + v[1], call.lineno))
        if st.get("ev.started", 0) == 0 or st.get("ev.stopped", 0) > 0:
            s = s.set("ev.outcome_outside_bracket", 1)
        return [val(NONE, s), exc(("framework", "handler raised"), s)]

    def _inline_call(self, interp, f, call, st, fr, skip_self):
        """Bind call arguments to f's parameters and inline it."""
        out = []
        pos = []
        star = None
        for a in call.args:
            if isinstance(a, ast.Starred):
                star = a
            else:
                pos.append(a)
        kws = [(k.arg, k.value) for k in call.keywords if k.arg is not None]
        exprs = pos + [v for _, v in kws]
        params = [p.arg for p in f.args.args]
        if skip_self and params:
            params = params[1:]
        for r in interp.eval_list(exprs, st, fr):
            if r.kind == "exc":
                out.append(r)
                continue
            vals = r.value
            argvals = {}
            for i, v in enumerate(vals[: len(pos)]):
                if i < len(params):
                    argvals[params[i]] = v
            for (k, _), v in zip(kws, vals[len(pos):]):
                argvals[k] = v
            s_in = r.state
            outermost = f.name == "_got_user_exception" and fr.name != "_got_user_exception"
            if outermost:
                s_in = s_in.set("ev.appended", 0)
            for rr in interp.inline(f, argvals, s_in, fr, receiver=fr.receiver, is_method=skip_self):
                if outermost:
                    s2 = rr.state
                    if rr.kind == "val" and rr.value == SENT and s2.get("ev.appended", 0) == 0:
                        s2 = s2.set("ev.phantom", 1)
                    s2 = State(frozenset((k, v) for k, v in s2.items if k != "ev.appended"), s2.log)
                    rr = Result(rr.kind, rr.value, s2)
                out.append(rr)
        return out


def initial_state():
    return State([("self._exceptions", EMPTY), ("ev.started", 0), ("ev.stopped", 0), ("ev.outcomes", 0)])


def analyse_run(ctx, receiver_cls, method="_run_prepared_result", argvals=None, state=None, depth=None, track_return_sites=False):
    """Abstractly run receiver_cls().<method>(...) ; returns (results, interp)."""
    classes = ctx.classes
    owner, f = classes.resolve_method(receiver_cls, method)
    if not isinstance(f, FUNC_TYPES):
        raise AnalysisError(f"anchor vanished: {receiver_cls.name}.{method}")
    dom = RunDomain(classes, receiver_cls)
    interp = Interp(dom, max_depth=depth or (10 if ctx.tier == "quick" else 14))
    st = state if state is not None else initial_state()
    interp.track_return_sites = track_return_sites
    res = interp.analyze(f, argvals or {"result": NOTNONE}, st, receiver=receiver_cls, name=method)
    for fn in interp.functions:
        ctx.analysed(fn)
    ctx.stats["states"] += interp.steps
    return res, interp


def fmt_log(state, limit=30):
    out = []
    for entry in state.log[:limit]:
        out.append(f"{entry[0]} (line {entry[1]})" if isinstance(entry, tuple) and len(entry) == 2 else str(entry))
    return out
