"""Abstract model of one RunTest run (shared by C01, C02, C03, C05).

The runner's own code is interpreted abstractly (ttsa.absint) with event
monitors; user code (setUp / test / tearDown / cleanups / handlers) is left
symbolic: it either returns a value that is not the runner's private sentinel
or raises a *user* exception.  Result methods and addOnException handlers may
raise a *framework* exception (documented to abort the run).
"""

import ast

from ..absint import (EMPTY, FALSE, TRUE, NONE, NONEMPTY, NOTNONE, TOP, DefaultDomain, Frame, Interp, Result, State, exc, val)
from ..astutil import FUNC_TYPES, attr_chain, dotted, norm
from ..loader import AnalysisError, Undecided
from .common import RUNTEST

SENT = ("sentinel", "exception_caught")
USERVALUE = ("uservalue",)
USER_EXC = ("user",)
RERAISE = ("reraise",)

OUTCOME_METHODS = {"addSuccess", "addError", "addFailure", "addSkip", "addExpectedFailure", "addUnexpectedSuccess"}
USER_STAGES = {"_run_setup": "setUp", "_run_test_method": "test", "_run_teardown": "tearDown"}


def bump(st, key, cap=2):
    return st.set(key, min(st.get(key, 0) + 1, cap))


class RunDomain(DefaultDomain):
    """Semantics of the calls made by RunTest (receiver-class sensitive)."""

    def __init__(self, classes, receiver, record_stages=True):
        self.classes = classes
        self.receiver = receiver
        self.record_stages = record_stages
        self.unmodelled = set()

    # -- values ---------------------------------------------------------------------
    def truth(self, value):
        if value == SENT:
            return "T"
        if value == USERVALUE:
            return "TF"
        return super().truth(value)

    def is_none(self, value):
        if value in (USERVALUE, TOP):
            return "TF"
        if value == NONE:
            return "T"
        return "F"

    def load_attr(self, chain, st, fr):
        if chain[0] == "<value>" or not all(isinstance(c, str) for c in chain):
            return None
        d = ".".join(chain)
        if d == "self.exception_caught":
            return SENT
        if d in ("self.handlers",):
            return ("handlers",)
        if d == "self.last_resort":
            return ("handler", "last_resort")
        if d == "self.case._cleanups":
            return ("cleanups",)
        if d.startswith("self.case.") and chain[-1] in USER_STAGES and len(chain) == 3:
            return ("user", USER_STAGES[chain[-1]])
        if chain[0] == "self" and len(chain) == 2 and fr.receiver is not None:
            owner, f = self.classes.resolve_method(fr.receiver, chain[1])
            if isinstance(f, FUNC_TYPES) and not st.has("self." + chain[1]):
                return ("method", chain[1])
        if len(chain) == 1:
            m = fr.func._module if hasattr(fr.func, "_module") else None
            if m is not None:
                for node in m.tree.body:
                    if isinstance(node, FUNC_TYPES) and node.name == chain[0]:
                        return ("func", node)
                    if isinstance(node, ast.ClassDef) and node.name == chain[0]:
                        return ("class", chain[0])
        return None

    def iter_kind(self, value):
        if value == ("cleanups",):
            return "unknown"
        return super().iter_kind(value)

    def element(self, itervalue, st, node):
        if itervalue == ("handlers",):
            return ("tuple", ("excclass",), ("handler", "table"))
        return TOP

    def match(self, handler_type, excvalue, st):
        if handler_type is None:
            return "yes"
        names = [norm(t) for t in (handler_type.elts if isinstance(handler_type, ast.Tuple) else [handler_type])]
        if any(n.split(".")[-1] == "BaseException" for n in names):
            return "yes"
        if isinstance(excvalue, tuple) and len(excvalue) == 2 and isinstance(excvalue[1], str):
            for n in names:
                if excvalue[1].startswith(n.split(".")[-1] + ":"):
                    return "yes"
        # user code may raise anything: an `except Exception` misses KeyboardInterrupt
        return "maybe"

    def unknown_call(self, call, st):
        return [val(TOP, st), exc(("framework", "call " + norm(call.func)[:40]), st)]

    @staticmethod
    def _is_cleanups_expr(e, st, fr):
        """self.case._cleanups, or a local that holds that very list"""
        if dotted(e) == "self.case._cleanups":
            return True
        return isinstance(e, ast.Name) and st.get(fr.local(e.id), None) == ("cleanups",)

    def _is_cleanups_pop(self, call, st, fr):
        f = call.func
        return isinstance(f, ast.Attribute) and f.attr == "pop" and self._is_cleanups_expr(f.value, st, fr)

    def refine(self, interp, test, st, fr, truth):
        if self._is_cleanups_expr(test, st, fr):
            return st.set("cleanups.known", "nonempty" if truth else "empty")
        if isinstance(test, ast.Call) and dotted(test.func) == "len" and len(test.args) == 1 and self._is_cleanups_expr(test.args[0], st, fr):
            return st.set("cleanups.known", "nonempty" if truth else "empty")
        return st

    def subscript(self, base, idx, st, fr):
        if base == ("excinfo-user",):
            return ("user-exc-value",) if idx == ("const", 1) else TOP
        return None

    def raised_value(self, stmt, value, st, fr):
        if isinstance(stmt.exc, ast.Name) and st.get(fr.local(stmt.exc.id)) == ("recorded",):
            return RERAISE
        if value == ("recorded",):
            return RERAISE
        if value == ("user-exc-value",):
            # the exception user code raised is raised again by the runner itself: it leaves as what it is
            return USER_EXC
        if isinstance(stmt.exc, ast.Call) and isinstance(stmt.exc.func, ast.Name) and fr.name == "_raise_force_fail_error":
            return USER_EXC
        return ("framework", "raise " + norm(stmt.exc)[:40])

    # -- calls ------------------------------------------------------------------------
    def call(self, interp, call, st, fr):
        func = call.func
        d = dotted(func)
        ch = attr_chain(func)
        # result events
        if isinstance(func, ast.Attribute) and dotted(func.value) in ("result", "self.result", "actual_result"):
            m = func.attr
            return self._with_args(interp, call, st, fr, lambda s: self._result_event(m, call, s))
        if d == "sys.exc_info" and st.get("<handling>", None) == USER_EXC:
            return [val(("excinfo-user",), st)]
        if d in ("getattr", "isinstance", "sys.exc_info", "hasattr", "len", "id", "repr", "str"):
            return self._with_args(interp, call, st, fr, lambda s: [val(("bool",) if d in ("isinstance", "hasattr") else TOP, s)])
        if isinstance(func, ast.Name) and (func.id.endswith(("Error", "Exception")) or func.id in ("object", "set", "list", "dict", "tuple", "frozenset")):
            return self._with_args(interp, call, st, fr, lambda s: [val(NOTNONE, s)])
        if d == "self.case.onException":
            def on_exc(s):
                if s.get("ev.outcomes", 0) > 0:
                    s = s.set("ev.onexc_after_outcome", 1)
                s = s.set("ev.onexc", 1)
                return [val(NONE, s.note(("onException", call.lineno))), exc(("framework", "addOnException handler raised"), s)]
            return self._with_args(interp, call, st, fr, on_exc)
        if d in ("self.case.getDetails", "self.case.defaultTestResult"):
            return [val(NOTNONE, st)]
        if d == "self._exceptions.append":
            return self._with_args(interp, call, st, fr, lambda s: [val(NONE, (s.set("ev.appended", 1) if s.has("ev.appended") else s).set("self._exceptions", NONEMPTY).note(("record", call.lineno)))])
        if d == "self._exceptions.pop":
            cur = st.get("self._exceptions", TOP)
            out = []
            if cur in (NONEMPTY, TOP):
                out.append(val(("recorded",), st.set("self._exceptions", EMPTY)))
                out.append(val(("recorded",), st.set("self._exceptions", NONEMPTY)))
            if cur in (EMPTY, TOP):
                out.append(exc(("framework", "pop from empty list"), st))
            return out
        if self._is_cleanups_pop(call, st, fr):
            popped = val(("tuple", ("user", "cleanup"), TOP, TOP), st.set("cleanups.known", "?"))
            if st.get("cleanups.known", "?") == "nonempty":
                # the enclosing `while self.case._cleanups:` test has just established non-emptiness
                return [popped]
            return [popped, exc(("framework", "IndexError: pop from empty list"), st.set("cleanups.known", "empty"))]
        if d == "ExtendedToOriginalDecorator":
            return self._with_args(interp, call, st, fr, lambda s: [val(NOTNONE, s)])
        # calls on self: inline through the receiver's MRO
        if ch and ch[0] == "self" and len(ch) == 2 and fr.receiver is not None:
            owner, f = self.classes.resolve_method(fr.receiver, ch[1])
            if isinstance(f, FUNC_TYPES) and not owner.external:
                return self._inline_call(interp, f, call, st, fr, skip_self=True)
        # call of a local holding an abstract callable
        if isinstance(func, ast.Name) or (ch and ch[0] == "self" and len(ch) == 2):
            outs = []
            for r in interp.eval(func, st, fr):
                if r.kind == "exc":
                    outs.append(r)
                    continue
                v = r.value
                if isinstance(v, tuple) and v and v[0] == "user":
                    outs.extend(self._with_args(interp, call, r.state, fr, lambda s, v=v: self._user_call(v, call, s)))
                elif isinstance(v, tuple) and v and v[0] == "handler":
                    outs.extend(self._with_args(interp, call, r.state, fr, lambda s, v=v: self._handler_call(v, call, s)))
                elif isinstance(v, tuple) and v and v[0] == "method" and fr.receiver is not None:
                    owner, f = self.classes.resolve_method(fr.receiver, v[1])
                    outs.extend(self._inline_call(interp, f, call, r.state, fr, skip_self=True))
                elif isinstance(v, tuple) and v and v[0] == "func":
                    outs.extend(self._inline_call(interp, v[1], call, r.state, fr, skip_self=False))
                elif v == TOP and isinstance(func, ast.Name) and r.state.has(fr.local(func.id)):
                    # an unknown callable handed in by the caller (a parameter): user code
                    # (named after the runner method it is reached through, not after the parameter)
                    stage, f_ = func.id, fr
                    while f_ is not None:
                        if f_.name == "_run_cleanups":
                            stage = "cleanup"
                        f_ = getattr(f_, "caller", None)
                    outs.extend(self._with_args(interp, call, r.state, fr, lambda s, stage=stage: self._user_call(("user", stage), call, s)))
                else:
                    return None
            return outs
        return None

    def _with_args(self, interp, call, st, fr, k):
        out = []
        exprs = [a.value if isinstance(a, ast.Starred) else a for a in call.args] + [kw.value for kw in call.keywords]
        for r in interp.eval_list(exprs, st, fr):
            if r.kind == "exc":
                out.append(r)
            else:
                out.extend(k(r.state))
        return out

    def _result_event(self, m, call, st):
        s = st
        if m == "startTest":
            s = bump(s, "ev.started").note(("startTest", call.lineno))
        elif m == "stopTest":
            s = bump(s, "ev.stopped").note(("stopTest", call.lineno))
            if st.get("ev.started", 0) == 0:
                s = s.set("ev.stop_before_start", 1)
        elif m in OUTCOME_METHODS:
            s = bump(s, "ev.outcomes").note((m, call.lineno))
            if st.get("ev.started", 0) == 0 or st.get("ev.stopped", 0) > 0:
                s = s.set("ev.outcome_outside_bracket", 1)
        elif m == "startTestRun":
            s = bump(s, "ev.startRun").note(("startTestRun", call.lineno))
        elif m == "stopTestRun":
            s = bump(s, "ev.stopRun").note(("stopTestRun", call.lineno))
        else:
            return [val(TOP, st)]
        # the event was delivered (s); or the result method raised before/after (framework)
        # the event was delivered (s) -- or the result method raised; a startTest that
        # raised did not complete, so the bracket has not been opened
        return [val(NONE, s), exc(("framework", f"result.{m} raised"), st if m in ("startTest", "startTestRun") else s)]

    def _user_call(self, v, call, st):
        stage = v[1]
        st = st.set("ev.last_stage", stage)
        if st.get("ev.outcomes", 0) > 0:
            st = st.set("ev.user_after_outcome", 1)
        ok = st.note(("user:" + stage, call.lineno))
        bad = st.note(("user-raise:" + stage, call.lineno))
        if self.record_stages:
            seq = st.get("ev.stages", ())
            ok = ok.set("ev.stages", seq if stage in seq else seq + (stage,))
            seq2 = seq if stage in seq else seq + (stage,)
            bad = bad.set("ev.stages", seq2 if stage + "!" in seq2 else seq2 + (stage + "!",))
        return [val(USERVALUE, ok), exc(USER_EXC, bad)]

    def _handler_call(self, v, call, st):
        s = bump(st, "ev.outcomes").note((f"handler:{v[1]}", call.lineno))
        if st.get("ev.started", 0) == 0 or st.get("ev.stopped", 0) > 0:
            s = s.set("ev.outcome_outside_bracket", 1)
        return [val(NONE, s), exc(("framework", "handler raised"), s)]

    def _inline_call(self, interp, f, call, st, fr, skip_self):
        """Bind call arguments to f's parameters and inline it."""
        if getattr(f, "name", "") == "_run_cleanups":
            st = st.set("ev.drained", 1)
        out = []
        pos = []
        star = None
        for a in call.args:
            if isinstance(a, ast.Starred):
                star = a
            else:
                pos.append(a)
        kws = [(k.arg, k.value) for k in call.keywords if k.arg is not None]
        exprs = pos + [v for _, v in kws]
        params = [p.arg for p in f.args.args]
        if skip_self and params:
            params = params[1:]
        for r in interp.eval_list(exprs, st, fr):
            if r.kind == "exc":
                out.append(r)
                continue
            vals = r.value
            argvals = {}
            for i, v in enumerate(vals[: len(pos)]):
                if i < len(params):
                    argvals[params[i]] = v
            for (k, _), v in zip(kws, vals[len(pos):]):
                argvals[k] = v
            s_in = r.state
            outermost = f.name == "_got_user_exception" and fr.name != "_got_user_exception"
            if outermost:
                s_in = s_in.set("ev.appended", 0)
            for rr in interp.inline(f, argvals, s_in, fr, receiver=fr.receiver, is_method=skip_self):
                if outermost:
                    s2 = rr.state
                    if rr.kind == "val" and rr.value == SENT and s2.get("ev.appended", 0) == 0:
                        s2 = s2.set("ev.phantom", 1)
                    s2 = State(frozenset((k, v) for k, v in s2.items if k != "ev.appended"), s2.log)
                    rr = Result(rr.kind, rr.value, s2)
                out.append(rr)
        return out


def initial_state():
    return State([("self._exceptions", EMPTY), ("ev.started", 0), ("ev.stopped", 0), ("ev.outcomes", 0)])


def analyse_run(ctx, receiver_cls, method="_run_prepared_result", argvals=None, state=None, depth=None, track_return_sites=False):
    """Abstractly run receiver_cls().<method>(...) ; returns (results, interp)."""
    classes = ctx.classes
    owner, f = classes.resolve_method(receiver_cls, method)
    if not isinstance(f, FUNC_TYPES):
        raise AnalysisError(f"anchor vanished: {receiver_cls.name}.{method}")
    dom = RunDomain(classes, receiver_cls)
    interp = Interp(dom, max_depth=depth or (10 if ctx.tier == "quick" else 14))
    st = state if state is not None else initial_state()
    interp.track_return_sites = track_return_sites
    res = interp.analyze(f, argvals or {"result": NOTNONE}, st, receiver=receiver_cls, name=method)
    for fn in interp.functions:
        ctx.analysed(fn)
    ctx.stats["states"] += interp.steps
    return res, interp


def fmt_log(state, limit=30):
    out = []
    for entry in state.log[:limit]:
        out.append(f"{entry[0]} (line {entry[1]})" if isinstance(entry, tuple) and len(entry) == 2 else str(entry))
    return out


# --------------------------------------------------------------------------------------
# Exception kinds: which recorded exception selects the outcome (C01 propagation, C03 masking)
# --------------------------------------------------------------------------------------

KINDS = ("base", "bad", "soft")  # non-Exception BaseException / failure-or-error / skip-or-expected-failure


class KindRunDomain(RunDomain):
    """RunDomain in which user code raises one of three exception kinds and the
    recorded-exception list remembers the first non-Exception, the first
    failure/error and the last recorded one (with the stage that raised it)."""

    def __init__(self, classes, receiver, kinds=KINDS):
        super().__init__(classes, receiver, record_stages=False)
        # "bad" also stands for "any ordinary Exception" when "soft" is not tracked
        self.kinds = tuple(kinds)

    def _user_call(self, v, call, st):
        stage = v[1]
        s = st.set("ev.cur_stage", stage).set("ev.user_ran", 1)
        if s.get("env.force", None) == "F":
            # user code may call expectThat: a flag seen unset earlier says nothing any more
            s = s.drop_prefix("env.force")
        out = [val(USERVALUE, s.note(("user:" + stage, call.lineno)))]
        for k in self.kinds + ("multi",):
            out.append(exc(("user", k, stage), s.note((f"user-raise[{k}]:" + stage, call.lineno))))
        return out

    def load_attr(self, chain, st, fr):
        if chain == ["MultipleExceptions"]:
            return ("global", "MultipleExceptions")
        return super().load_attr(chain, st, fr)

    def compare(self, op, left, right):
        if isinstance(op, (ast.Is, ast.IsNot)) and right == ("global", "MultipleExceptions") and isinstance(left, tuple) and left and left[0] == "exctype":
            x = left[1]
            if isinstance(x, tuple) and x and x[0] == "user":
                is_multi = x[1] == "multi"
                return "T" if is_multi == isinstance(op, ast.Is) else "F"
            return "TF"
        if isinstance(op, (ast.Is, ast.IsNot, ast.Eq, ast.NotEq)) and {left, right} == {("rectype", "base"), ("excclass",)}:
            # no entry of the handler table is a non-Exception class (C03 R-HANDLER-TABLE)
            return "F" if isinstance(op, (ast.Is, ast.Eq)) else "T"
        if isinstance(op, (ast.Is, ast.IsNot)) and right == ("global", "MultipleExceptions") and left == TOP:
            # a constituent of a MultipleExceptions: a nested MultipleExceptions records the same
            # sequences as its flattening (the constituent loop already runs 0..n times over any kinds)
            return "F" if isinstance(op, ast.Is) else "T"
        return super().compare(op, left, right)

    def _record(self, s, kind, stage, call):
        if kind == "base":
            s = s.set("exc.nbase", min(2, s.get("exc.nbase", 0) + 1))
        if kind == "base" and not s.has("exc.base"):
            s = s.set("exc.base", stage)
        if kind == "bad" and not s.has("exc.bad"):
            s = s.set("exc.bad", stage)
        s = s.set("exc.last", (kind, stage))
        if s.has("ev.appended"):
            s = s.set("ev.appended", 1)
        return val(NONE, s.set("self._exceptions", NONEMPTY).note(("record[" + kind + "]:" + stage, call.lineno)))

    def raised_value(self, stmt, value, st, fr):
        if isinstance(value, tuple) and value and value[0] == "recorded":
            return ("reraise", value[1], value[2])
        if isinstance(stmt.exc, ast.Name):
            v = st.get(fr.local(stmt.exc.id))
            if isinstance(v, tuple) and v and v[0] == "recorded":
                return ("reraise", v[1], v[2])
        if fr.name == "_raise_force_fail_error":
            return ("user", "bad", "forced")
        return ("framework", "raise " + norm(stmt.exc)[:40])

    def subscript(self, base, idx, st, fr):
        if isinstance(base, tuple) and base and base[0] == "excinfo":
            if idx == ("const", 1):
                return base[1]
            if idx == ("const", 0):
                return ("exctype", base[1])
            return TOP
        return None

    # -- the force_failure flag (set by expectThat from any user stage) -----------------
    def _read_force(self, st, lineno):
        """The flag is read: its value is chosen once per abstract run and stays fixed
        until user code runs again (which may set it)."""
        if st.has("env.force"):
            return [val(TRUE if st.get("env.force") == "T" else NONE, st)]
        if not st.get("ev.user_ran", 0):
            return [val(NONE, st.set("env.force", "F"))]
        return [val(TRUE, st.set("env.force", "T").note(("force_failure read: set", lineno))),
                val(NONE, st.set("env.force", "F").note(("force_failure read: unset", lineno)))]

    def load_attr_multi(self, chain, st, fr):
        if chain == ["self", "case", "force_failure"]:
            return self._read_force(st, 0)
        return None

    def _with_args(self, interp, call, st, fr, k):
        out = []
        exprs = [a.value if isinstance(a, ast.Starred) else a for a in call.args] + [kw.value for kw in call.keywords]
        for r in interp.eval_list(exprs, st, fr):
            if r.kind == "exc":
                out.append(r)
            else:
                self._argvals = r.value
                out.extend(k(r.state))
        return out

    def _handler_call(self, v, call, st):
        rec = [a for a in getattr(self, "_argvals", ()) if isinstance(a, tuple) and a and a[0] == "recorded"]
        if rec:
            st = st.set("ev.dispatched", (rec[0][1], rec[0][2]))
        return super()._handler_call(v, call, st)

    def _result_event(self, m, call, st):
        out = super()._result_event(m, call, st)
        if m == "addSuccess":
            out = [Result(r.kind, r.value, r.state.set("ev.success", 1)) for r in out]
        return out

    def call(self, interp, call, st, fr):
        d = dotted(call.func)
        if d == "getattr" and len(call.args) >= 2 and dotted(call.args[0]) == "self.case" and isinstance(call.args[1], ast.Constant) and call.args[1].value == "force_failure":
            return self._read_force(st, call.lineno)
        if d == "sys.exc_info":
            handling = st.get("<handling>", TOP)
            if not (isinstance(handling, tuple) and handling and handling[0] == "user"):
                st = st.note((f"caught non-user exception {handling!r}"[:90], call.lineno))
            return [val(("excinfo", handling), st)]
        if d == "self._exceptions.append":
            out = []
            for r in interp.eval_list(list(call.args), st, fr):
                if r.kind == "exc":
                    out.append(r)
                    continue
                x = r.value[0] if r.value else TOP
                s = r.state
                if isinstance(x, tuple) and x and x[0] == "user":
                    todo = [(x[1], x[2])]
                elif x == TOP:
                    # a constituent of a MultipleExceptions raised by the current stage: any kind
                    todo = [(k, s.get("ev.cur_stage", "?")) for k in self.kinds]
                else:
                    todo = [("any", s.get("ev.cur_stage", "?"))]
                s_in = s
                for kind, stage in todo:
                    s = s_in
                    out.append(self._record(s, kind, stage, call))
            return out
        if d == "self._exceptions.pop":
            cur = st.get("self._exceptions", TOP)
            last = st.get("exc.last", ("any", "?"))
            v = ("recorded", last[0], last[1])
            out = []
            # does a non-Exception remain in the list once the last element is gone?
            left = st.get("exc.nbase", 0) - (1 if last[0] == "base" else 0)
            if cur in (NONEMPTY, TOP):
                if left <= 0:
                    out.append(val(v, st.set("self._exceptions", EMPTY)))
                    out.append(val(v, st.set("self._exceptions", NONEMPTY)))
                else:
                    out.append(val(v, st.set("self._exceptions", NONEMPTY).set("exc.rest_base", st.get("exc.base", "?"))))
            if cur in (EMPTY, TOP):
                out.append(exc(("framework", "IndexError: pop from empty list"), st))
            return out
        if d == "type" and len(call.args) == 1:
            out = []
            for r in interp.eval_list(list(call.args), st, fr):
                x = r.value[0] if r.kind == "val" else None
                if isinstance(x, tuple) and x and x[0] == "recorded":
                    out.append(val(("rectype", x[1]), r.state))
                else:
                    out.append(r if r.kind == "exc" else val(TOP, r.state))
            return out
        if d == "issubclass" and len(call.args) == 2:
            out = []
            for r in interp.eval_list(list(call.args), st, fr):
                if r.kind == "val" and r.value[0] == ("rectype", "base") and r.value[1] == ("excclass",):
                    out.append(val(FALSE, r.state))
                else:
                    out.append(r if r.kind == "exc" else val(("bool",), r.state))
            return out
        if d == "isinstance" and call.args:
            out = []
            for r in interp.eval_list(list(call.args), st, fr):
                if r.kind == "exc":
                    out.append(r)
                    continue
                x = r.value[0]
                cls = norm(call.args[1]).split(".")[-1] if len(call.args) > 1 else ""
                if isinstance(x, tuple) and x and x[0] == "recorded" and x[1] == "base":
                    # R-HANDLER-TABLE (C03): no entry of the handler table matches a non-Exception
                    out.append(val(TRUE if cls == "BaseException" else FALSE, r.state))
                elif isinstance(x, tuple) and x and x[0] == "recorded" and x[1] in ("bad", "soft", "nonbase") and cls in ("Exception", "BaseException"):
                    out.append(val(TRUE, r.state))
                else:
                    out.append(val(("bool",), r.state))
            return out
        return super().call(interp, call, st, fr)

    def for_step(self, interp, stmt, itervalue, st, fr, first):
        if itervalue == ("handlers",):
            tested = [c.args[0].id for c in ast.walk(stmt) if isinstance(c, ast.Call) and dotted(c.func) == "isinstance" and c.args and isinstance(c.args[0], ast.Name)]
            dispatched = [st.get(fr.local(n), None) for n in tested]
            dispatched = [v for v in dispatched if isinstance(v, tuple) and v and v[0] == "recorded"]
            if dispatched and dispatched[0][1] in ("bad", "soft"):
                # the table ends with Exception (checked by C03 R-HANDLER-TABLE): some entry matches
                return True, False
        if dotted(stmt.iter) == "self._exceptions" and st.has("exc.rest_base"):
            # a non-Exception is still in the list: the walk cannot end before reaching it
            if itervalue == EMPTY:
                return False, False
            return True, False
        return None

    def element(self, itervalue, st, node):
        if isinstance(node, ast.For) and dotted(node.iter) == "self._exceptions":
            if st.has("exc.rest_base"):
                return [("recorded", "nonbase", "?"), ("recorded", "base", st.get("exc.rest_base"))]
            return [("recorded", "nonbase", "?")]
        return super().element(itervalue, st, node)

    def iter_step_effect(self, interp, stmt, itervalue, st, fr):
        if dotted(stmt.iter) == "self._exceptions" and isinstance(stmt.target, ast.Name):
            v = st.get(fr.local(stmt.target.id), None)
            if isinstance(v, tuple) and v[:2] == ("recorded", "base") and st.has("exc.rest_base"):
                return st.drop_prefix("exc.rest_base")
        return st


def analyse_kinds(ctx, receiver_cls, kinds=KINDS):
    classes = ctx.classes
    owner, f = classes.resolve_method(receiver_cls, "_run_prepared_result")
    dom = KindRunDomain(classes, receiver_cls, kinds)
    interp = Interp(dom, max_depth=10 if ctx.tier == "quick" else 14, max_states=60000)
    res = interp.analyze(f, {"result": NOTNONE}, initial_state(), receiver=receiver_cls, name="_run_prepared_result")
    for fn in interp.functions:
        ctx.analysed(fn)
    ctx.stats["states"] += interp.steps
    return res, interp


def force_verdicts(results):
    """Classify the exits of an analyse_kinds() run by what became of a force_failure flag
    that user code (expectThat) may have set: -> [(label, construct_suffix, ok, result)].

    A run in which the flag is set -- or was never examined after the last user stage, so
    that it may be set -- must end unsuccessfully: the dispatched exception is a failure /
    error / non-Exception, or a non-Exception propagates."""
    seen = {}
    for r in results:
        s = r.state
        framework = r.kind == "exc" and isinstance(r.value, tuple) and r.value and r.value[0] == "framework"
        if framework or s.get("ev.phantom", 0):
            continue
        force = s.get("env.force", None) or ("unread" if s.get("ev.user_ran", 0) else "F")
        if force == "F":
            continue
        disp = s.get("ev.dispatched", None)
        if s.get("ev.success", 0):
            outcome, stage = "success", "-"
        elif disp is None:
            outcome, stage = ("propagates", "-") if r.kind == "exc" else ("none", "-")
        else:
            outcome, stage = disp
        seen.setdefault((force, outcome, stage), r)
    out = []
    for (force, outcome, stage), r in sorted(seen.items(), key=repr):
        ok = outcome in ("bad", "base", "any", "propagates")
        how = "set" if force == "T" else "never examined after the last user stage"
        label = f"force_failure {how}: outcome {'from a ' + outcome + ' exception of ' + stage if stage != '-' else outcome}"
        out.append((label, f"force_failure {force} -> {outcome} from {stage}", ok, r))
    return out


# ---------------------------------------------------------------------------------------------
# dispatch semantics: which handler reports a recorded exception
# ---------------------------------------------------------------------------------------------
TABLE_LEN = 3


class DispatchDomain(KindRunDomain):
    """The handler table is a symbolic list [(C0, h0), (C1, h1), (C2, h2)]; the test method raises
    one symbolic exception ``e`` whose relation to the table is fixed by the initial state:
    env.m[i] = isinstance(e, Ci), env.x = the i with type(e) is Ci (or None).  Whatever shape the
    dispatch code has (loop, helper method, two passes ...), the handlers it invokes are logged."""

    def __init__(self, classes, receiver):
        super().__init__(classes, receiver, kinds=("sym",))

    def _user_call(self, v, call, st):
        stage = v[1]
        s = st.set("ev.cur_stage", stage).set("ev.user_ran", 1)
        if stage != "test":
            return [val(USERVALUE, s)]
        return [exc(("user", "sym", stage), s.note(("test raises e", call.lineno)))]

    def _read_force(self, st, lineno):
        return [val(NONE, st)]

    def load_attr(self, chain, st, fr):
        if chain[0] == "<value>" and chain[-1] == "__class__":
            return None
        return super().load_attr(chain, st, fr)

    # the table walk: entries are produced in list order
    def _ikey(self, stmt, fr):
        return f"{fr.prefix}<iter@{stmt.lineno}>"

    def for_start(self, interp, stmt, itervalue, st, fr):
        if itervalue == ("handlers",):
            return st.set(self._ikey(stmt, fr), 0)
        return st

    def for_step(self, interp, stmt, itervalue, st, fr, first):
        if itervalue == ("handlers",):
            i = st.get(self._ikey(stmt, fr), 0)
            return (True, False) if i < TABLE_LEN else (False, True)
        return super().for_step(interp, stmt, itervalue, st, fr, first)

    def element(self, itervalue, st, node):
        if itervalue == ("handlers",):
            i = [v for k, v in st.items if k.endswith(f"<iter@{node.lineno}>")]
            i = i[0] if i else 0
            return ("tuple", ("hclass", i), ("handler", i))
        return super().element(itervalue, st, node)

    def iter_step_effect(self, interp, stmt, itervalue, st, fr):
        if itervalue == ("handlers",):
            k = self._ikey(stmt, fr)
            return st.set(k, st.get(k, 0) + 1)
        return super().iter_step_effect(interp, stmt, itervalue, st, fr)

    def for_done(self, interp, stmt, itervalue, st, fr):
        if itervalue == ("handlers",):
            return st.drop_prefix(self._ikey(stmt, fr))
        return st

    def _handler_call(self, v, call, st):
        st = st.set("ev.invoked", st.get("ev.invoked", ()) + (v[1],))
        rec = [a for a in getattr(self, "_argvals", ()) if isinstance(a, tuple) and a and a[0] == "recorded"]
        if v[1] == "last_resort" or rec:
            st = st.set("ev.invoked_with_e", st.get("ev.invoked_with_e", ()) + (bool(rec),))
        return RunDomain._handler_call(self, v, call, st)

    def compare(self, op, left, right):
        if isinstance(op, (ast.Is, ast.IsNot, ast.Eq, ast.NotEq)):
            pair = {left[0] if isinstance(left, tuple) and left else None, right[0] if isinstance(right, tuple) and right else None}
            if pair == {"hclass", "symtype"}:
                i = (left if left[0] == "hclass" else right)[1]
                same = self._x == i
                pos = isinstance(op, (ast.Is, ast.Eq))
                return "T" if same == pos else "F"
        return super().compare(op, left, right)

    def call(self, interp, call, st, fr):
        d = dotted(call.func)
        if d in ("type", "isinstance", "issubclass") and call.args:
            out = []
            for r in interp.eval_list(list(call.args), st, fr):
                if r.kind == "exc":
                    out.append(r)
                    continue
                x = r.value[0]
                is_e = isinstance(x, tuple) and x and x[0] == "recorded" and x[1] == "sym"
                if d == "isinstance" and not is_e:
                    return super().call(interp, call, st, fr)
                if d == "type" and is_e and len(r.value) == 1:
                    out.append(val(("symtype",), r.state))
                elif d == "isinstance" and is_e and len(r.value) == 2:
                    c = r.value[1]
                    if isinstance(c, tuple) and c and c[0] == "hclass":
                        out.append(val(TRUE if self._m[c[1]] else FALSE, r.state))
                    elif norm(call.args[1]).split(".")[-1] in ("Exception", "BaseException"):
                        out.append(val(TRUE, r.state))
                    else:
                        out.append(val(("bool",), r.state))
                elif d == "issubclass" and x == ("symtype",) and len(r.value) == 2 and isinstance(r.value[1], tuple) and r.value[1][:1] == ("hclass",):
                    out.append(val(TRUE if self._m[r.value[1][1]] else FALSE, r.state))
                else:
                    out.append(val(("bool",) if d != "type" else TOP, r.state))
            return out
        return super().call(interp, call, st, fr)


def dispatch_semantics(ctx, receiver_cls):
    """-> [(m, x, expected, [(invoked tuple, exit kind, Result)])] for every relation between the
    symbolic exception and a three-entry handler table."""
    import itertools
    classes = ctx.classes
    owner, f = classes.resolve_method(receiver_cls, "_run_prepared_result")
    out = []
    for m in itertools.product((False, True), repeat=TABLE_LEN):
        for x in [None] + [i for i in range(TABLE_LEN) if m[i]]:
            dom = DispatchDomain(classes, receiver_cls)
            dom._m, dom._x = m, x
            interp = Interp(dom, max_depth=10, max_states=20000)
            res = interp.analyze(f, {"result": NOTNONE}, initial_state(), receiver=receiver_cls, name="_run_prepared_result")
            ctx.stats["states"] += interp.steps
            for fn in interp.functions:
                ctx.analysed(fn)
            first = next((i for i in range(TABLE_LEN) if m[i]), None)
            exits = {}
            for r in res:
                framework = r.kind == "exc" and isinstance(r.value, tuple) and r.value and r.value[0] == "framework"
                if framework:
                    continue
                kind = "return" if r.kind == "val" else ("reraise" if isinstance(r.value, tuple) and r.value[:1] == ("reraise",) else "raise")
                if not r.state.get("ev.user_ran", 0):
                    continue  # the skip-decorator path: nothing ran, nothing to dispatch
                exits.setdefault((r.state.get("ev.invoked", ()), r.state.get("ev.invoked_with_e", ()), kind), r)
            out.append((m, x, first, [(k[0], k[1], k[2], r) for k, r in sorted(exits.items(), key=repr)]))
    return out


def dispatch_verdicts(ctx, receiver_cls):
    """-> [(label, construct suffix, ok, message, Result|None)]: for every relation between a recorded
    exception and the handler table, exactly the first matching handler is invoked, once, with the
    exception; with no match, last_resort is invoked and the exception re-raised."""
    out = []
    for m, x, first, exits in dispatch_semantics(ctx, receiver_cls):
        rel = "".join("1" if b else "0" for b in m)
        label = f"isinstance(e, C0..C2)={rel}" + (f", type(e) is C{x}" if x is not None else "")
        want = ((first,), (True,), "return") if first is not None else (("last_resort",), (True,), "reraise")
        got = [(a, b, c) for a, b, c, _ in exits]
        ok = got == [want]
        if first is not None:
            msg = f"expected handler {first} (the first entry whose class matches) to report e and the run to return; the dispatch does: " + "; ".join(
                f"invokes {list(a)} then {c}" + ("" if all(b) else " (not with e)") for a, b, c in got)
        else:
            msg = "no entry matches: expected last_resort(case, result, e) and e re-raised; the dispatch does: " + "; ".join(
                f"invokes {list(a)} then {c}" for a, b, c in got)
        bad = next((r for a, b, c, r in exits if (a, b, c) != want), None)
        out.append((label + (f": handler {first} reports" if first is not None else ": last_resort, re-raise"), f"dispatch m={rel} exact={x}", ok, msg, bad))
    return out


# ---------------------------------------------------------------------------------------------
# the cleanup drain: every popped cleanup is invoked exactly once, and nothing it raises ends the drain
# ---------------------------------------------------------------------------------------------
class DrainDomain(RunDomain):
    def __init__(self, classes, receiver):
        super().__init__(classes, receiver, record_stages=False)

    def call(self, interp, call, st, fr):
        if self._is_cleanups_pop(call, st, fr):
            out = []
            for r in super().call(interp, call, st, fr):
                if r.kind == "val":
                    s = r.state
                    if s.get("ev.pending", 0):
                        s = s.set("ev.dropped", 1)
                    r = Result(r.kind, r.value, bump(s.set("ev.pending", 1), "ev.pops"))
                out.append(r)
            return out
        return super().call(interp, call, st, fr)

    def _user_call(self, v, call, st):
        if v[1] == "cleanup":
            if not st.get("ev.pending", 0):
                st = st.set("ev.twice", 1)
            # a cleanup may register further cleanups: what was known about the list is stale
            st = st.set("ev.pending", 0).set("cleanups.known", "?")
            out = []
            for r in super()._user_call(v, call, st):
                out.append(Result(r.kind, r.value, r.state.set("ev.cleanup_failed", 1)) if r.kind == "exc" else r)
            return out
        return super()._user_call(v, call, st)


def drain_verdicts(ctx, receiver_cls):
    """-> [(label, construct suffix, ok, message, Result)] over the exits of RunTest._run_cleanups."""
    classes = ctx.classes
    owner, f = classes.resolve_method(receiver_cls, "_run_cleanups")
    if not isinstance(f, FUNC_TYPES):
        raise AnalysisError("anchor vanished: RunTest._run_cleanups")
    dom = DrainDomain(classes, receiver_cls)
    interp = Interp(dom, max_depth=8)
    res = interp.analyze(f, {"result": NOTNONE}, initial_state(), receiver=receiver_cls, name="_run_cleanups")
    ctx.stats["states"] += interp.steps
    for fn in interp.functions:
        ctx.analysed(fn)
    sigs = {}
    for r in res:
        s = r.state
        framework = r.kind == "exc" and isinstance(r.value, tuple) and r.value and r.value[0] == "framework"
        if framework:
            continue
        kind = "returns" if r.kind == "val" else ("a cleanup's exception escapes" if r.value == USER_EXC else f"raises {r.value!r}")
        known = s.get("cleanups.known", "?")
        failed = s.get("ev.cleanup_failed", 0)
        verdict = "-" if r.kind != "val" else ("sentinel" if r.value == SENT else "no sentinel")
        sigs.setdefault((kind, s.get("ev.pending", 0), s.get("ev.dropped", 0), s.get("ev.twice", 0), min(s.get("ev.pops", 0), 1), known, failed, verdict), r)
    out = []
    for (kind, pending, dropped, twice, pops, known, failed, verdict), r in sorted(sigs.items(), key=repr):
        problems = []
        if kind == "returns" and known != "empty":
            problems.append("the drain can end without having just seen the live cleanup list empty: cleanups still registered (or registered by a cleanup) never run")
        if kind == "returns" and (verdict == "sentinel") != bool(failed):
            problems.append("the sentinel is returned although no cleanup raised" if not failed else "a cleanup raised but the drain does not return the sentinel: the run would be reported as a success")
        if kind != "returns":
            problems.append("an exception raised by a cleanup (KeyboardInterrupt included) leaves the drain loop: the cleanups still registered never run")
        if pending:
            problems.append("a cleanup was popped but never invoked")
        if dropped:
            problems.append("a second cleanup is popped before the previous one was invoked")
        if twice:
            problems.append("a cleanup is invoked without having been popped (invoked twice)")
        label = f"drain exit: {kind}" + (", cleanups popped" if pops else ", nothing popped") + ("" if not problems else " [" + "; ".join(p.split(':')[0] for p in problems) + "]")
        label += f" (list seen {known}; cleanup raised: {'yes' if failed else 'no'}; returns {verdict})"
        out.append((label, f"drain {kind} pending={pending} dropped={dropped} twice={twice} pops={pops} known={known} failed={failed} verdict={verdict}", not problems, "; ".join(problems), r))
    return out
