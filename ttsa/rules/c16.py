"""C16 -- Content is lossless and independent of chunking."""

import ast

from ..absint import NONE, NOTNONE, TOP, DefaultDomain, Interp, Result, State, exc, val
from ..astutil import FUNC_TYPES, attr_chain, dotted, norm, walk_shallow
from ..cfg import live_nodes, node_calls
from ..loader import AnalysisError
from .common import TESTCASE, cfg_of, has_kw, kw_value, module_function, nodes_calling, own_method, str_const

EXPLANATION = (
    "R-CHUNK-OBLIGATIONS: abstract interpretation of content._iter_chunks with every value returned by "
    "stream.read() an obligation -- it is yielded exactly once before being overwritten (order preserved), or "
    "is falsy and ends the loop; only truthy chunks are yielded; every read uses the chunk_size parameter; the "
    "seek happens iff seek_offset is not None, before the first read, with both arguments passed through. "
    "R-INCREMENTAL-DECODE: Content._iter_text decodes every chunk with one incremental decoder created before "
    "the loop (never per-chunk bytes.decode), yields one decoded piece per chunk, performs a final=True flush "
    "after the loop and yields its non-empty result; the charset default is ISO-8859-1; as_text joins "
    "iter_text(). R-EAGER-LAZY: content_from_reader evaluates reader() in its own body iff buffer_now; "
    "content_from_file's open() and content_from_stream's _iter_chunks call live in the nested reader (lazy) "
    "and receive chunk_size / seek arguments unchanged; text_content's encoding literal agrees with the charset "
    "of the content type it declares. R-EQ-READS-BOTH: Content.__eq__ compares the content type and the "
    "joined bytes of both operands; ContentType.__eq__ compares every field; __repr__ renders every "
    "parameter. Round trips over Unicode, cut positions and MIME re-parsing are runtime value properties and "
    "are not decided."
)

CONTENT = "testtools.content"
CTYPE = "testtools.content_type"


class ReadDomain(DefaultDomain):
    """Values returned by stream.read() must be yielded once, in order, unless falsy."""

    def truth(self, v):
        if isinstance(v, tuple) and v and v[0] == "chunk":
            return {"nonempty": "T", "empty": "F"}.get(v[3], "TF")
        return super().truth(v)

    def is_none(self, v):
        if isinstance(v, tuple) and v and v[0] == "chunk":
            return "F"
        return super().is_none(v)

    def refine_truth(self, v, truth):
        if isinstance(v, tuple) and v and v[0] == "chunk":
            return (v[0], v[1], v[2], "nonempty" if truth else "empty")
        return v

    @staticmethod
    def _problem(st, msg):
        return st if st.has("ev.problem") else st.set("ev.problem", msg)

    def rebound(self, old, st, fr):
        if isinstance(old, tuple) and old and old[0] == "chunk" and old[2] == "unsent" and old[3] != "empty":
            if not any(isinstance(v, tuple) and v[:2] == old[:2] for _, v in st.items):
                return self._problem(st, "a chunk returned by stream.read() is overwritten before it was yielded (lost data)")
        return st

    def call(self, interp, call, st, fr):
        d = dotted(call.func)
        out = []
        for r in interp.eval_list([a.value if isinstance(a, ast.Starred) else a for a in call.args] + [k.value for k in call.keywords], st, fr):
            if r.kind == "exc":
                out.append(r)
                continue
            s = r.state
            if d and d.endswith(".read"):
                n = s.get("ev.n", 0)
                s = s.set("ev.n", (n + 1) % 3).set("ev.reads", min(s.get("ev.reads", 0) + 1, 2))
                out.append(val(("chunk", n, "unsent", "?"), s))
                out.append(exc(("read raised",), r.state))
            elif d and d.endswith(".seek"):
                if s.get("ev.reads", 0) > 0:
                    s = self._problem(s, "seek() happens after data has already been read")
                out.append(val(TOP, s.set("ev.seeks", min(s.get("ev.seeks", 0) + 1, 2))))
            else:
                out.append(val(TOP, s))
        return out

    def load_attr(self, chain, st, fr):
        if chain[0] == "<yield>":
            v = chain[2]
            s = st
            if isinstance(v, tuple) and v and v[0] == "chunk":
                if v[3] == "empty":
                    s = self._problem(s, "an empty chunk is yielded")
                elif v[3] == "?":
                    s = self._problem(s, "a chunk is yielded without having been tested for emptiness")
                if v[2] == "sent":
                    s = self._problem(s, "a chunk is yielded twice")
                sent = (v[0], v[1], "sent", v[3])
                s = State(frozenset((k, (sent if (isinstance(x, tuple) and x[:2] == v[:2]) else x)) for k, x in s.items), s.log)
                s = s.set("ev.yields", min(s.get("ev.yields", 0) + 1, 2))
            else:
                s = self._problem(s, f"something other than a chunk read from the stream is yielded ({v})")
            return [val(NONE, s)]
        return None


def run(ctx):
    ctx.rule("R-CHUNK-OBLIGATIONS", "_iter_chunks yields every truthy chunk it read exactly once, in order; seek first, iff requested")
    ctx.rule("R-INCREMENTAL-DECODE", "text is decoded incrementally with one decoder and a final flush")
    ctx.rule("R-EAGER-LAZY", "sources are read lazily unless buffer_now; helpers pass their arguments through")
    ctx.rule("R-EQ-READS-BOTH", "equality compares type and bytes of both operands; ContentType compares/renders every field")
    ctx.rule("R-SNAPSHOT-COPY", "the copies made when details are gathered hold bytes materialised at copy time, never the source's own buffer")
    from .common import check_copy_content_snapshot
    check_copy_content_snapshot(ctx, "R-SNAPSHOT-COPY")
    classes = ctx.classes
    mod = ctx.repo.module(CONTENT)

    # ------------------------------------------------------------------ _iter_chunks
    ic = module_function(ctx, CONTENT, "_iter_chunks")
    dom = ReadDomain()
    it = Interp(dom, max_depth=2)
    res = it.analyze(ic, {"seek_offset": TOP}, State([("ev.n", 0), ("ev.reads", 0), ("ev.seeks", 0), ("ev.yields", 0)]), receiver=None, name="_iter_chunks")
    ctx.stats["states"] += it.steps
    ctx.analysed(ic)
    normal = [r for r in res if r.kind == "val"]
    problems = {}
    for r in normal:
        p = r.state.get("ev.problem", None)
        if p:
            problems.setdefault(p, r)
        for k, v in r.state.items:
            pass
    ctx.check("R-CHUNK-OBLIGATIONS", f"_iter_chunks: {len(normal)} abstract exit states, every read chunk yielded once or falsy", ic, bool(normal) and not problems,
              "; ".join(problems) if problems else "the generator never terminates in the abstract run (loop condition cannot become false)",
              examined=len(res), construct=f"{CONTENT}:_iter_chunks::obligations")
    seeks = {r.state.get("ev.seeks", 0) for r in normal}
    ctx.check("R-CHUNK-OBLIGATIONS", "at most one seek per iteration of the source", ic, seeks <= {0, 1}, f"seek counts {sorted(seeks)}", construct=f"{CONTENT}:_iter_chunks::seek-once")
    params = [a.arg for a in ic.args.args]
    reads = [c for c in walk_shallow(ic, include_self=False) if isinstance(c, ast.Call) and dotted(c.func) == f"{params[0]}.read"]
    ok = bool(reads) and all(len(c.args) == 1 and dotted(c.args[0]) == params[1] for c in reads)
    ctx.check("R-CHUNK-OBLIGATIONS", "every read asks for chunk_size bytes", ic, ok, f"read calls: {[norm(c) for c in reads]}", construct=f"{CONTENT}:_iter_chunks::read-size")
    sk = [c for c in walk_shallow(ic, include_self=False) if isinstance(c, ast.Call) and dotted(c.func) == f"{params[0]}.seek"]
    ok = len(sk) == 1 and [dotted(a) for a in sk[0].args] == [params[2], params[3]]
    if ok:
        p = sk[0]._parent._parent
        ok = isinstance(p, ast.If) and norm(p.test) == f"{params[2]} is not None" and not p.orelse
    ctx.check("R-CHUNK-OBLIGATIONS", "seek(seek_offset, seek_whence) iff seek_offset is not None", ic, ok, "the seek is not performed exactly when an offset was given, with both arguments",
              construct=f"{CONTENT}:_iter_chunks::seek-guard")

    # ------------------------------------------------------------------ incremental decode
    it_f = own_method(ctx, CONTENT, "Content", "_iter_text")
    ctx.analysed(it_f)
    loops = [l for l in it_f.body if isinstance(l, ast.For)]
    dec = [n for n in it_f.body if isinstance(n, ast.Assign) and isinstance(n.value, ast.Call) and isinstance(n.value.func, ast.Call) and dotted(n.value.func.func) == "codecs.getincrementaldecoder"]
    ok = len(loops) == 1 and len(dec) == 1 and it_f.body.index(dec[0]) < it_f.body.index(loops[0])
    if ok:
        rebinds = [n for n in ast.walk(it_f) if isinstance(n, ast.Assign) and any(dotted(t) == dotted(dec[0].targets[0]) for t in n.targets)]
        ok = len(rebinds) == 1
    ctx.check("R-INCREMENTAL-DECODE", "one incremental decoder is created before the chunk loop", it_f, ok,
              "the decoder is not a single codecs.getincrementaldecoder(encoding)() created before the loop", construct=f"{CONTENT}:Content._iter_text::one-decoder")
    if ok:
        dv = dotted(dec[0].targets[0])
        lp = loops[0]
        lv = dotted(lp.target)
        ys = [y for y in walk_shallow(lp) if isinstance(y, ast.Yield)]
        okl = (norm(lp.iter) == "self.iter_bytes()" and len(ys) == 1 and isinstance(ys[0].value, ast.Call) and dotted(ys[0].value.func) == f"{dv}.decode"
               and [dotted(a) for a in ys[0].value.args] == [lv] and not ys[0].value.keywords
               and not any(isinstance(x, (ast.If, ast.Break, ast.Continue, ast.Return, ast.Try)) for x in walk_shallow(lp)))
        ctx.check("R-INCREMENTAL-DECODE", "each chunk of iter_bytes() is decoded by that decoder and yielded, unconditionally", lp, okl,
                  "a chunk can be skipped, decoded independently, or decoded with final=True inside the loop", construct=f"{CONTENT}:Content._iter_text::per-chunk")
        bad = [c for c in ast.walk(it_f) if isinstance(c, ast.Call) and isinstance(c.func, ast.Attribute) and c.func.attr == "decode" and dotted(c.func.value) != dv]
        ctx.check("R-INCREMENTAL-DECODE", "no per-chunk bytes.decode()", it_f, not bad,
                  f"{[norm(b) for b in bad]}: decoding chunks independently breaks multi-byte sequences cut by a chunk boundary", construct=f"{CONTENT}:Content._iter_text::no-bytes-decode")
        after = it_f.body[it_f.body.index(lp) + 1:]
        flush = [n for n in after if isinstance(n, ast.Assign) and isinstance(n.value, ast.Call) and dotted(n.value.func) == f"{dv}.decode"
                 and ((len(n.value.args) == 2 and isinstance(n.value.args[1], ast.Constant) and n.value.args[1].value is True) or (isinstance(kw_value(n.value, "final"), ast.Constant) and kw_value(n.value, "final").value is True))]
        okf = len(flush) == 1
        if okf:
            fv = dotted(flush[0].targets[0])
            okf = any(isinstance(n, ast.If) and dotted(n.test) == fv and any(isinstance(y, ast.Yield) and dotted(y.value) == fv for s in n.body for y in walk_shallow(s)) for n in after)
        ctx.check("R-INCREMENTAL-DECODE", "final=True flush after the loop, its non-empty result is yielded", it_f, okf,
                  "the decoder is not flushed with final=True after the last chunk (a truncated trailing sequence would be dropped silently / never reported)",
                  construct=f"{CONTENT}:Content._iter_text::final-flush")
        enc = [n for n in it_f.body if isinstance(n, ast.Assign) and isinstance(n.value, ast.Call) and norm(n.value.func) == "self.content_type.parameters.get"]
        oke = len(enc) == 1 and [str_const(a) for a in enc[0].value.args] == ["charset", "ISO-8859-1"] and dotted(dec[0].value.func.args[0]) == dotted(enc[0].targets[0])
        ctx.check("R-INCREMENTAL-DECODE", "charset parameter selects the decoder, default ISO-8859-1", it_f, oke, "the decoder's encoding is not parameters.get('charset', 'ISO-8859-1')",
                  construct=f"{CONTENT}:Content._iter_text::charset")
    at = own_method(ctx, CONTENT, "Content", "as_text")
    ok = any(isinstance(r, ast.Return) and norm(r.value).replace('"', "'") == "''.join(self.iter_text())" for r in walk_shallow(at, include_self=False))
    ctx.check("R-INCREMENTAL-DECODE", "as_text joins iter_text()", at, ok, "as_text is not ''.join(self.iter_text())", construct=f"{CONTENT}:Content.as_text::join")
    itx = own_method(ctx, CONTENT, "Content", "iter_text")
    g = cfg_of(ctx, itx)
    lv_ = live_nodes(g)
    rets = [n for n in g.nodes if n.id in lv_ and n.kind == "return"]
    ok = len(rets) == 1 and norm(rets[0].ast.value) == "self._iter_text()" and any(
        n.kind == "test" and norm(n.ast.test).replace('"', "'") == "self.content_type.type != 'text'" for n in g.nodes if n.id in lv_)
    ctx.check("R-INCREMENTAL-DECODE", "iter_text refuses non-text types and otherwise returns the decoding generator", itx, ok, "iter_text changed", construct=f"{CONTENT}:Content.iter_text::guard")
    ib = own_method(ctx, CONTENT, "Content", "iter_bytes")
    ok = any(isinstance(r, ast.Return) and norm(r.value) == "self._get_bytes()" for r in walk_shallow(ib, include_self=False))
    ctx.check("R-INCREMENTAL-DECODE", "iter_bytes hands out exactly what the source yields", ib, ok, "iter_bytes is not self._get_bytes()", construct=f"{CONTENT}:Content.iter_bytes::source")

    # ------------------------------------------------------------------ eager vs lazy
    cfr = module_function(ctx, CONTENT, "content_from_reader")
    g = cfg_of(ctx, cfr)
    lv_ = live_nodes(g)
    ev = nodes_calling(g, lambda c: dotted(c.func) == "reader" and not c.args, lv_)
    tests = [n.id for n in g.nodes if n.id in lv_ and n.kind == "test" and norm(n.ast.test) == "buffer_now"]
    ok = len(ev) == 1 and len(tests) == 1 and any(b == ev[0] or ev[0] in g.reach([b]) for b, k in g.succ[tests[0]] if k == "true") and not any(
        ev[0] in g.reach([b]) for b, k in g.succ[tests[0]] if k == "false")
    ctx.check("R-EAGER-LAZY", "content_from_reader evaluates reader() now iff buffer_now", cfr, ok,
              "the reader is evaluated eagerly without buffer_now, or not at all with it", construct=f"{CONTENT}:content_from_reader::buffer-now")
    # what the buffered content hands out: the reader's own chunks, materialised -- a sequence built
    # element-for-element from reader() (list / tuple / comprehension yielding the element itself).
    # Joining or re-slicing them changes the chunking the callers promised (non-empty, <= chunk_size).
    evs = [c for c in walk_shallow(cfr, include_self=False) if isinstance(c, ast.Call) and dotted(c.func) == "reader"]
    how = "reader() is not evaluated exactly once"
    ok = False
    if len(evs) == 1:
        par = evs[0]._parent
        if isinstance(par, ast.Call) and dotted(par.func) in ("list", "tuple") and par.args == [evs[0]]:
            ok = True
        elif isinstance(par, ast.comprehension) and par.iter is evs[0] and isinstance(par._parent, ast.ListComp) and not par.ifs \
                and dotted(par._parent.elt) == dotted(par.target) and len(par._parent.generators) == 1:
            ok = True
        elif isinstance(par, ast.Call) and ((isinstance(par.func, ast.Attribute) and par.func.attr == "join") or "join" in (dotted(par.func) or "")):
            how = ("the chunks read are joined into one: a buffered content yields a single chunk larger than chunk_size, and an empty chunk for an empty source "
                   "(content_from_file / content_from_stream promise non-empty chunks no larger than chunk_size)")
        elif isinstance(par, (ast.Assign, ast.Return)) or (isinstance(par, ast.Call) and dotted(par.func) in ("iter", "map", "filter")):
            how = "buffer_now keeps a one-shot iterator: the content could be read only once"
        else:
            how = f"the chunks handed out are `{norm(par)[:60]}`, not the reader's chunks one for one"
    ctx.check("R-EAGER-LAZY", "buffered content hands out the reader's own chunks, materialised one for one", cfr, ok, how, construct=f"{CONTENT}:content_from_reader::materialise")
    rets = [r for r in walk_shallow(cfr, include_self=False) if isinstance(r, ast.Return)]
    ok = len(rets) == 1 and norm(rets[0].value) == "Content(content_type, reader)"
    ctx.check("R-EAGER-LAZY", "content_from_reader returns Content(content_type, reader)", cfr, ok, "content_from_reader result changed", construct=f"{CONTENT}:content_from_reader::returns")
    for name, lazy_call in (("content_from_file", "open"), ("content_from_stream", "_iter_chunks")):
        f = module_function(ctx, CONTENT, name)
        ctx.analysed(f)
        nested = [n for n in f.body if isinstance(n, FUNC_TYPES)]
        outer_calls = [c for s in f.body if not isinstance(s, FUNC_TYPES) for c in walk_shallow(s) if isinstance(c, ast.Call) and dotted(c.func) == lazy_call]
        inner_calls = [c for n in nested for c in ast.walk(n) if isinstance(c, ast.Call) and dotted(c.func) == lazy_call]
        ctx.check("R-EAGER-LAZY", f"{name}: {lazy_call}() happens inside the nested reader (lazy)", f, len(nested) == 1 and not outer_calls and len(inner_calls) == 1,
                  f"{name} touches its source when the Content is created, not when it is read", construct=f"{CONTENT}:{name}::lazy")
        chunks = [c for n in nested for c in ast.walk(n) if isinstance(c, ast.Call) and dotted(c.func) == "_iter_chunks"]
        ok = len(chunks) == 1 and [dotted(a) for a in chunks[0].args][1:] == ["chunk_size", "seek_offset", "seek_whence"] and (
            dotted(chunks[0].args[0]) == "stream")
        ctx.check("R-EAGER-LAZY", f"{name}: chunk_size and seek arguments reach _iter_chunks unchanged", f, ok, f"{[norm(c) for c in chunks]}", construct=f"{CONTENT}:{name}::args")
        rets = [r for r in f.body if isinstance(r, ast.Return)]
        ok = len(rets) == 1 and norm(rets[0].value) == "content_from_reader(reader, content_type, buffer_now)"
        ctx.check("R-EAGER-LAZY", f"{name}: reader, content type and buffer_now handed to content_from_reader", f, ok, "wrong hand-over to content_from_reader", construct=f"{CONTENT}:{name}::handover")
    cff = module_function(ctx, CONTENT, "content_from_file")
    opens = [c for c in ast.walk(cff) if isinstance(c, ast.Call) and dotted(c.func) == "open"]
    ok = len(opens) == 1 and dotted(opens[0].args[0]) == "path" and len(opens[0].args) > 1 and str_const(opens[0].args[1]) == "rb" and isinstance(opens[0]._parent, ast.withitem)
    ctx.check("R-EAGER-LAZY", "content_from_file opens the path in binary mode under `with`", cff, ok, "the file is not opened as open(path, 'rb') in a with block", construct=f"{CONTENT}:content_from_file::open")
    tcf = module_function(ctx, CONTENT, "text_content")
    ctm = ctx.repo.module(CTYPE)
    utf8 = None
    for s in ctm.tree.body:
        if isinstance(s, ast.Assign) and dotted(s.targets[0]) == "UTF8_TEXT" and isinstance(s.value, ast.Call) and len(s.value.args) == 3 and isinstance(s.value.args[2], ast.Dict):
            utf8 = {str_const(k): str_const(v) for k, v in zip(s.value.args[2].keys, s.value.args[2].values)}.get("charset")
    encs = [str_const(c.args[0]) for c in ast.walk(tcf) if isinstance(c, ast.Call) and isinstance(c.func, ast.Attribute) and c.func.attr == "encode" and c.args]
    mk = [c for c in ast.walk(tcf) if isinstance(c, ast.Call) and dotted(c.func) == "Content"]
    ok = len(mk) == 1 and dotted(mk[0].args[0]) == "UTF8_TEXT" and len(encs) == 1 and utf8 is not None and encs[0].lower().replace("-", "") == utf8.lower().replace("-", "")
    ctx.check("R-EAGER-LAZY", "text_content encodes with the charset its content type declares", tcf, ok,
              f"text_content encodes with {encs} but declares charset={utf8!r}", construct=f"{CONTENT}:text_content::charset-agrees")
    jc = module_function(ctx, CONTENT, "json_content")
    ok = any(isinstance(c, ast.Call) and dotted(c.func) == "json.dumps" and dotted(c.args[0]) == jc.args.args[0].arg for c in ast.walk(jc)) and any(
        isinstance(c, ast.Call) and dotted(c.func) == "Content" and dotted(c.args[0]) == "JSON" for c in ast.walk(jc))
    ctx.check("R-EAGER-LAZY", "json_content serialises its argument as JSON content", jc, ok, "json_content changed", construct=f"{CONTENT}:json_content::dumps")

    # ------------------------------------------------------------------ equality
    eq = own_method(ctx, CONTENT, "Content", "__eq__")
    txt = norm(eq)
    other = eq.args.args[1].arg
    ok = ("self.content_type == %s.content_type" % other in txt and "_join_b(self.iter_bytes())" in txt and "_join_b(%s.iter_bytes())" % other in txt
          and any(isinstance(r, ast.Return) and isinstance(r.value, ast.BoolOp) and isinstance(r.value.op, ast.And) for r in walk_shallow(eq, include_self=False)))
    ctx.check("R-EQ-READS-BOTH", "Content.__eq__ compares content type AND joined bytes of both operands", eq, ok, "Content equality ignores the type or one side's bytes", construct=f"{CONTENT}:Content.__eq__::both")
    ct = classes.get(CTYPE, "ContentType")
    ceq = ct.own_method("__eq__")
    init = ct.own_method("__init__")
    fields = sorted(a for a in __import__("ttsa.symbols", fromlist=["x"]).instance_attrs_assigned(init))
    ok = fields == ["parameters", "subtype", "type"] and "self.__dict__ == %s.__dict__" % ceq.args.args[1].arg in norm(ceq)
    if not ok:
        cmp_fields = {n.attr for n in ast.walk(ceq) if isinstance(n, ast.Attribute) and dotted(n.value) == "self"}
        ok = {"type", "subtype", "parameters"} <= cmp_fields
    ctx.check("R-EQ-READS-BOTH", "ContentType.__eq__ compares type, subtype and parameters", ceq, ok, "ContentType equality ignores a field", construct=f"{CTYPE}:ContentType.__eq__::fields")
    rp = ct.own_method("__repr__")
    txt = norm(rp)
    ok = "self.parameters.items()" in txt and "self.type" in txt and "self.subtype" in txt and "sorted(" in txt and not any(isinstance(n, ast.Subscript) and "parameters" in norm(n.value) for n in ast.walk(rp))
    ctx.check("R-EQ-READS-BOTH", "ContentType.__repr__ renders type/subtype and every parameter (sorted)", rp, ok, "a parameter can be left out of the rendered MIME string", construct=f"{CTYPE}:ContentType.__repr__::all-params")
    ci = own_method(ctx, CONTENT, "Content", "__init__")
    ok = any(isinstance(n, ast.Assign) and dotted(n.targets[0]) == "self.content_type" and dotted(n.value) == ci.args.args[1].arg for n in ast.walk(ci)) and any(
        isinstance(n, ast.Assign) and dotted(n.targets[0]) == "self._get_bytes" and dotted(n.value) == ci.args.args[2].arg for n in ast.walk(ci))
    ctx.check("R-EQ-READS-BOTH", "Content keeps the type and the byte source it was given", ci, ok, "Content.__init__ changed", construct=f"{CONTENT}:Content.__init__::fields")
    ctx.assume("stream.read(n) returns at most n bytes and a falsy value only at end of file")
    ctx.assume("codecs incremental decoders concatenate to the whole-string decode (stdlib contract)")
