"""C16 -- Content is lossless and independent of chunking."""

import ast

from ..absint import FALSE, NONE, NOTNONE, TOP, TRUE, DefaultDomain, Interp, Result, State, exc, val
from ..astutil import FUNC_TYPES, attr_chain, dotted, norm, walk_shallow
from ..cfg import live_nodes, node_calls
from ..loader import AnalysisError, Undecided
from ..objects import ObjectDomain
from .common import TESTCASE, cfg_of, has_kw, kw_value, module_function, nodes_calling, own_method, str_const

EXPLANATION = (
    "R-CHUNK-OBLIGATIONS: abstract interpretation of content._iter_chunks with every value returned by "
    "stream.read() an obligation -- it is yielded exactly once before being overwritten (order preserved), or "
    "is falsy and ends the loop; only truthy chunks are yielded; every read uses the chunk_size parameter; the "
    "seek happens iff seek_offset is not None, before the first read, with both arguments passed through. "
    "R-INCREMENTAL-DECODE: Content._iter_text decodes every chunk with one incremental decoder created before "
    "the loop (never per-chunk bytes.decode), yields one decoded piece per chunk, performs a final=True flush "
    "after the loop and yields its non-empty result; the charset default is ISO-8859-1; as_text joins "
    "iter_text(). R-EAGER-LAZY: content_from_reader evaluates reader() in its own body iff buffer_now; "
    "content_from_file's open() and content_from_stream's _iter_chunks call live in the nested reader (lazy) "
    "and receive chunk_size / seek arguments unchanged; text_content's encoding literal agrees with the charset "
    "of the content type it declares. R-EQ-READS-BOTH: Content.__eq__ compares the content type and the "
    "joined bytes of both operands; ContentType.__eq__ compares every field; __repr__ renders every "
    "parameter. Round trips over Unicode, cut positions and MIME re-parsing are runtime value properties and "
    "are not decided."
)

CONTENT = "testtools.content"
CTYPE = "testtools.content_type"


def run(ctx):
    ctx.rule("R-CHUNK-OBLIGATIONS", "_iter_chunks yields every truthy chunk it read exactly once, in order; seek first, iff requested")
    ctx.rule("R-INCREMENTAL-DECODE", "text is decoded incrementally with one decoder and a final flush")
    ctx.rule("R-EAGER-LAZY", "sources are read lazily unless buffer_now; helpers pass their arguments through")
    ctx.rule("R-EQ-READS-BOTH", "equality compares type and bytes of both operands; ContentType compares/renders every field")
    ctx.rule("R-SNAPSHOT-COPY", "the copies made when details are gathered hold bytes materialised at copy time, never the source's own buffer")
    from .common import check_copy_content_snapshot
    check_copy_content_snapshot(ctx, "R-SNAPSHOT-COPY")
    classes = ctx.classes
    mod = ctx.repo.module(CONTENT)

    check_iter_chunks_scenarios(ctx)
    check_text_decoding(ctx)
    check_sources(ctx)
    check_equality(ctx)
    ctx.assume("stream.read(n) returns at most n bytes and a falsy value only at end of file")
    ctx.assume("codecs incremental decoders concatenate to the whole-string decode (stdlib contract)")


# ---------------------------------------------------------------------------------------------- scenario runs
B1, B2, EMPTY_B = ("const", b"first-chunk"), ("const", b"second"), ("const", b"")
SIZE, OFFSET, WHENCE = ("sym", "chunk-size"), ("sym", "seek-offset"), ("sym", "seek-whence")
UTF8 = ("sym", "UTF8_TEXT")


def _stream_oracle(chunks, name="stream", position=None):
    """stream.read() hands out the given chunks in turn, then b'' for ever; tell() reports ``position``."""
    def oracle(n, pos, kw, st):
        if n == f"{name}.tell" and position is not None:
            return [("val", position)]
        if n == f"{name}.read":
            k = sum(1 for e in st.get("ev.calls", ()) if e[0] == f"{name}.read")
            return [("val", chunks[k] if k < len(chunks) else EMPTY_B)]
        if n.startswith(name + "."):
            return [("val", NONE)]
        return None
    return oracle


def _gen_values(r, depth=0):
    return list(r.state.get(f"gen.{depth}", ()))


def check_iter_chunks_scenarios(ctx):
    from .. import effects
    ic = module_function(ctx, CONTENT, "_iter_chunks")
    params = [a.arg for a in ic.args.args]
    STREAM = ("wobj", "stream")
    n = 0
    problems = set()
    B3 = ("const", b"third")
    for chunks in ((), (B1,), (B1, B2), (B1, B2, B3), (B2, B2, B1, B2)):
        for offset, label in ((NONE, "no offset"), (("const", 0), "offset 0"), (OFFSET, "an offset")):
            dom = ObjectDomain(ctx.classes, oracle=_stream_oracle(chunks), log_cap=16)
            dom.oracle_state = True
            try:
                res = effects.run(ctx, dom, ic, None, {params[0]: STREAM, params[1]: SIZE, params[2]: offset, params[3]: WHENCE}, state=State(), depth=3)
            except Undecided as e:
                if "loop state" not in str(e) and "does not end within" not in str(e):
                    raise
                # the modelled stream is deterministic: a loop that outgrows the budget keeps reading after read() returned b''
                problems.add(f"[{len(chunks)} chunks, {label}] reading does not stop at the end of the stream (read() returning b'' for ever does not end the loop)")
                continue
            n += len(res)
            if not res:
                problems.add(f"[{len(chunks)} chunks, {label}] the generator never finishes")
            for r in res:
                log = r.state.get("ev.calls", ())
                if r.kind != "val":
                    problems.add(f"[{len(chunks)} chunks, {label}] the generator raises {r.value!r}")
                    continue
                got = _gen_values(r)
                if not got and isinstance(r.value, tuple) and r.value[:1] in (("tuple",), ("lazyseq",), ("iter",)):
                    got = list(r.value[1:]) if r.value[0] != "iter" else list(r.value[1][1:])   # not a generator function any more: what iterating its result gives
                if got != list(chunks):
                    problems.add(f"[{len(chunks)} chunks, {label}] the chunks yielded are {got}; the stream hands out {list(chunks)} and then b''")
                reads = [e for e in log if e[0] == "stream.read"]
                if any(e[1] != (SIZE,) or e[2] for e in reads):
                    problems.add("a read does not ask for exactly chunk_size bytes")
                if len(reads) != len(chunks) + 1:
                    problems.add(f"[{len(chunks)} chunks] {len(reads)} reads are made; expected one per chunk and the one that finds the end of the stream")
                seeks = [e for e in log if e[0] == "stream.seek"]
                want = [] if offset == NONE else [(offset, WHENCE)]
                if [e[1] for e in seeks] != want:
                    problems.add(f"[{label}] the seeks performed are {[e[1] for e in seeks]}; expected {want} (seek iff an offset is given -- 0 is an offset -- with the whence passed through)")
                if seeks and [e[0] for e in log].index("stream.seek") > [e[0] for e in log].index("stream.read"):
                    problems.add("the seek happens after data was read")
    ctx.check("R-CHUNK-OBLIGATIONS", "_iter_chunks on a modelled stream: reads of chunk_size, every chunk yielded in order, seek first iff an offset is given", ic, not problems,
              "; ".join(sorted(problems)[:4]), examined=n, construct=f"{CONTENT}:_iter_chunks::scenarios")
    # the stream already stands at the number given as offset: relative to the start (whence 0) a seek would change nothing,
    # relative to the end or the current position (whence 2 / 1) it still must happen
    problems = set()
    n = 0
    for whence in (0, 1, 2):
        dom = ObjectDomain(ctx.classes, oracle=_stream_oracle((B1,), position=("const", 3)), log_cap=12)
        dom.oracle_state = True
        res = effects.run(ctx, dom, ic, None, {params[0]: STREAM, params[1]: SIZE, params[2]: ("const", 3), params[3]: ("const", whence)}, state=State(), depth=2)
        n += len(res)
        for r in res:
            seeks = [e[1] for e in r.state.get("ev.calls", ()) if e[0] == "stream.seek"]
            if seeks != [(("const", 3), ("const", whence))] and not (whence == 0 and not seeks):
                problems.add(f"with the stream at position 3, seek_offset=3 and seek_whence={whence} the seeks performed are {seeks}: the bytes read do not start at the requested offset")
    ctx.check("R-CHUNK-OBLIGATIONS", "_iter_chunks seeks for every seek origin, wherever the stream currently stands", ic, n > 0 and not problems, "; ".join(sorted(problems)), examined=n,
              construct=f"{CONTENT}:_iter_chunks::seek-origin")


CHUNKS = (B1, ("const", b"x"), EMPTY_B, B2)


def check_text_decoding(ctx):
    from .. import effects
    cls = ctx.classes.get(CONTENT, "Content")
    it_f = own_method(ctx, CONTENT, "Content", "iter_text")
    n = 0
    problems = set()
    for charset in (("const", "utf-8"), None):
        for tail in (("const", ""), ("const", "<tail>")):
            def oracle(name, pos, kw, tail=tail):
                if name == "codecs.make_decoder":
                    return [("val", ("wobj", "decoder"))]
                if name == "decoder.decode":
                    final = (len(pos) > 1 and pos[1] == TRUE) or dict(kw).get("final") == TRUE
                    piece = pos[0][1].decode("latin-1") if pos and isinstance(pos[0], tuple) and pos[0][:1] == ("const",) and isinstance(pos[0][1], bytes) else "?"
                    return [("val", tail if final else ("const", piece))]
                return None
            params = ("kwdict", (("charset", charset),) if charset else ())
            dom = ObjectDomain(ctx.classes, attrs={"self": ("self",), "self.content_type": ("wobj", "ctype"), "ctype.type": ("const", "text")}, oracle=oracle,
                               track=lambda d: d == "codecs.getincrementaldecoder",
                               results={"codecs.getincrementaldecoder": [("bound", "codecs", "make_decoder")], "self._get_bytes": [("tuple",) + CHUNKS]}, log_cap=20)
            res = effects.run(ctx, dom, it_f, cls, {}, state=State([("self.content_type.parameters", params)]), depth=5)
            n += len(res)
            for r in res:
                log = r.state.get("ev.calls", ())
                label = f"[charset {'declared' if charset else 'not declared'}, flush gives {tail[1]!r}]"
                if r.kind != "val":
                    problems.add(f"{label} iter_text raises {r.value!r}")
                    continue
                made = [e for e in log if e[0] == "codecs.getincrementaldecoder"]
                if len(made) != 1 or made[0][1] != (charset if charset else ("const", "ISO-8859-1"),):
                    problems.add(f"{label} the decoder is made {len(made)} time(s) for {[e[1] for e in made]}; expected once, for the declared charset (ISO-8859-1 when none is declared)")
                if sum(1 for e in log if e[0] == "codecs.make_decoder") != 1:
                    problems.add(f"{label} not exactly one incremental decoder is instantiated: chunks cut inside a multi-byte sequence would be decoded independently")
                dec = [e for e in log if e[0] == "decoder.decode"]
                data = [e for e in dec if not ((len(e[1]) > 1 and e[1][1] == TRUE) or dict(e[2]).get("final") == TRUE)]
                flush = [e for e in dec if e not in data]
                if [e[1][:1] for e in data] != [(c_,) for c_ in CHUNKS]:
                    problems.add(f"{label} the chunks decoded are {[e[1] for e in data]}; expected every chunk of iter_bytes() once, in order")
                if len(flush) != 1 or dec.index(flush[0]) != len(dec) - 1 or flush[0][1][:1] != (EMPTY_B,):
                    problems.add(f"{label} the decoder is not flushed exactly once, after the last chunk, with decode(b'', final=True): a truncated trailing sequence would be dropped silently")
                pieces = list(r.value[1:]) if isinstance(r.value, tuple) and r.value[:1] in (("tuple",), ("lazyseq",)) else [r.value]   # what iterating the returned object gives
                want = "".join(c_[1].decode("latin-1") for c_ in CHUNKS) + tail[1]
                if not all(isinstance(x, tuple) and x[:1] == ("const",) and isinstance(x[1], str) for x in pieces) or "".join(x[1] for x in pieces) != want:
                    problems.add(f"{label} the text yielded is {pieces}: its concatenation is not the decoded chunks in order" + (" followed by the flushed tail" if tail[1] else ""))
    ctx.check("R-INCREMENTAL-DECODE", "iter_text of a text type: one incremental decoder for the declared charset, every chunk decoded in order, one final flush whose non-empty result is yielded", it_f,
              n > 0 and not problems, "; ".join(sorted(problems)[:4]) or "no path", examined=n, construct=f"{CONTENT}:Content._iter_text::scenarios")
    # as_text / iter_text / iter_bytes
    at = own_method(ctx, CONTENT, "Content", "as_text")
    dom = ObjectDomain(ctx.classes, attrs={"self": ("self",)}, results={"self.iter_text": [("tuple", ("const", "ab"), ("const", ""), ("const", "c"))]})
    res = effects.run(ctx, dom, at, cls, {}, state=State(), depth=2)
    ok = bool(res) and all(r.kind == "val" and r.value == ("const", "abc") for r in res)
    ctx.check("R-INCREMENTAL-DECODE", "as_text is the concatenation of iter_text()", at, ok, f"as_text of the pieces 'ab', '', 'c' gives {[r.value for r in res]!r}", examined=len(res), construct=f"{CONTENT}:Content.as_text::join")
    itx = own_method(ctx, CONTENT, "Content", "iter_text")
    problems = set()
    n = 0
    for typ in (("const", "application"), ("const", "image")):
        dom = ObjectDomain(ctx.classes, attrs={"self": ("self",), "self.content_type": ("wobj", "ctype"), "ctype.type": typ}, results={"self._get_bytes": [("tuple",) + CHUNKS]},
                           track=lambda d: d == "codecs.getincrementaldecoder")
        res = effects.run(ctx, dom, itx, cls, {}, state=State([("self.content_type.parameters", ("kwdict", ()))]), depth=5)
        n += len(res)
        for r in res:
            if not (r.kind == "exc" and r.value == ("exc", "ValueError")):
                problems.add(f"for a non-text type iter_text gives {r.kind} {r.value!r} instead of raising ValueError")
            if any(e[0] == "codecs.getincrementaldecoder" for e in r.state.get("ev.calls", ())):
                problems.add("for a non-text type a decoder is made before the type is refused")
    ctx.check("R-INCREMENTAL-DECODE", "iter_text refuses non-text types", itx, n > 0 and not problems, "; ".join(sorted(problems)) or "no path", examined=n, construct=f"{CONTENT}:Content.iter_text::guard")
    ib = own_method(ctx, CONTENT, "Content", "iter_bytes")
    dom = ObjectDomain(ctx.classes, attrs={"self": ("self",)}, results={"self._get_bytes": [("sym", "what-the-source-yields")]})
    res = effects.run(ctx, dom, ib, cls, {}, state=State(), depth=2)
    ok = bool(res) and all(r.kind == "val" and r.value == ("sym", "what-the-source-yields") for r in res)
    ctx.check("R-INCREMENTAL-DECODE", "iter_bytes hands out exactly what the source yields", ib, ok, f"iter_bytes gives {[r.value for r in res]!r} instead of self._get_bytes()", examined=len(res), construct=f"{CONTENT}:Content.iter_bytes::source")
    ci = own_method(ctx, CONTENT, "Content", "__init__")
    dom = ObjectDomain(ctx.classes, attrs={"self": ("self",)})
    res = effects.run(ctx, dom, ci, cls, {ci.args.args[1].arg: ("sym", "ctype"), ci.args.args[2].arg: ("sym", "source")}, state=State(), depth=2)
    ok = bool(res) and all(r.kind == "val" and r.state.get("self.content_type") == ("sym", "ctype") and r.state.get("self._get_bytes") == ("sym", "source") for r in res)
    ctx.check("R-EQ-READS-BOTH", "Content keeps the type and the byte source it was given", ci, ok, "Content.__init__ does not store the content type and the byte source", examined=len(res), construct=f"{CONTENT}:Content.__init__::fields")


def _apply_later(ctx, dom, func, fn, st):
    """Call the abstract callable ``fn`` (a byte source handed to Content) after the constructor returned."""
    from ..absint import Frame, Interp
    it = Interp(dom, max_depth=6)
    outside = ast.parse("def _reading_the_content_later():\n    pass").body[0]   # a frame that is not the defining one: closures must bring their environment
    fr = Frame(outside, 0, None, name="<reading the content>", is_method=False)
    from ..absint import Result, unbox_deep, without_heap
    return [Result(r.kind, unbox_deep(r.value, r.state, iters=True), without_heap(r.state)) for r in it._forced(dom.apply(it, fn, [], [], st, fr), fr)]


def check_sources(ctx):
    from .. import effects
    from .deferredmodel import DeferredDomain   # (for its first-class callables: closures, partial, wrapped objects)
    READER = ("wobj", "reader")
    cfr = module_function(ctx, CONTENT, "content_from_reader")
    p = [a.arg for a in cfr.args.args]
    problems = set()
    n = 0
    for buffer_now in (TRUE, FALSE):
        for ctype, want_type in ((("sym", "a-type"), ("sym", "a-type")), (NONE, UTF8)):
            def oracle(name, pos, kw):
                if name == "reader.__call__":
                    return [("val", ("iter", ("tuple", B1, B2)))]   # readers typically return one-shot iterators (generators)
                return None
            dom = DeferredDomain(ctx.classes, attrs={"UTF8_TEXT": UTF8}, oracle=oracle, ctors={"Content"}, log_cap=12)
            res = effects.run(ctx, dom, cfr, None, {p[0]: READER, p[1]: ctype, p[2]: buffer_now}, state=State(), depth=3)
            n += len(res)
            label = f"[buffer_now={'True' if buffer_now == TRUE else 'False'}]"
            for r in res:
                calls_ = [e for e in r.state.get("ev.calls", ()) if e[0] == "reader.__call__"]
                if r.kind != "val" or not (isinstance(r.value, tuple) and r.value[:2] == ("new", "Content") and len(r.value[2]) == 2):
                    problems.add(f"{label} content_from_reader gives {r.kind} {r.value!r} instead of a Content")
                    continue
                if r.value[2][0] != want_type:
                    problems.add(f"{label} the content type is {r.value[2][0]!r}; expected {'the given type' if ctype != NONE else 'UTF8_TEXT when none is given'}")
                src = r.value[2][1]
                if buffer_now == FALSE:
                    if calls_:
                        problems.add(f"{label} the reader is evaluated when the Content is created (lazy reading was promised)")
                    if src != READER:
                        later = _apply_later(ctx, dom, cfr, src, r.state)
                        if not later or any(x.kind != "val" or x.value not in (("tuple", B1, B2), ("iter", ("tuple", B1, B2))) or sum(1 for e in x.state.get("ev.calls", ()) if e[0] == "reader.__call__") != 1 for x in later):
                            problems.add(f"{label} the byte source handed to Content does not read from the reader when the content is read")
                else:
                    if len(calls_) != 1:
                        problems.add(f"{label} the reader is evaluated {len(calls_)} times when the Content is created; expected exactly once (buffering)")
                    for _ in range(2):   # a buffered content can be read again and again
                        later = _apply_later(ctx, dom, cfr, src, r.state)
                        if not later:
                            problems.add(f"{label} the buffered byte source cannot be called")
                        for x in later:
                            again = sum(1 for e in x.state.get("ev.calls", ()) if e[0] == "reader.__call__")
                            if x.kind == "val" and isinstance(x.value, tuple) and x.value[:1] == ("iter",):
                                problems.add(f"{label} buffer_now keeps the reader's one-shot iterator: the content could be read only once")
                            elif x.kind != "val" or x.value != ("tuple", B1, B2):
                                problems.add(f"{label} the buffered content hands out {x.value!r}; expected the reader's own chunks, one for one (joining or re-slicing them breaks the promised chunking)")
                            if again != 1:
                                problems.add(f"{label} reading the buffered content evaluates the reader again")
    ctx.check("R-EAGER-LAZY", "content_from_reader: reader evaluated now (once, materialised chunk for chunk) iff buffer_now; type defaults to UTF8_TEXT", cfr, not problems,
              "; ".join(sorted(problems)[:4]), examined=n, construct=f"{CONTENT}:content_from_reader::scenarios")
    # content_from_file / content_from_stream: nothing is touched until the content is read (unless buffer_now)
    for name in ("content_from_file", "content_from_stream"):
        f = module_function(ctx, CONTENT, name)
        first = f.args.args[0].arg
        problems = set()
        n = 0
        for buffer_now in (FALSE, TRUE):
            src_obj = ("sym", "the-path") if name == "content_from_file" else ("wobj", "stream")
            oracle = _stream_oracle((B1, B2), name="file" if name == "content_from_file" else "stream")
            dom = DeferredDomain(ctx.classes, attrs={"UTF8_TEXT": UTF8}, oracle=oracle, ctors={"Content"}, results={"open": [("wobj", "file")]}, track=lambda d: d == "open", log_cap=24)
            dom.oracle_state = True
            dom.enter_returns_self = True
            argv = {first: src_obj, "content_type": NONE, "chunk_size": SIZE, "buffer_now": buffer_now, "seek_offset": OFFSET, "seek_whence": WHENCE}
            res = effects.run(ctx, dom, f, None, argv, state=State(), depth=5)
            n += len(res)
            label = f"[buffer_now={'True' if buffer_now == TRUE else 'False'}]"
            obj = "file" if name == "content_from_file" else "stream"
            for r in res:
                log = r.state.get("ev.calls", ())
                if r.kind != "val" or not (isinstance(r.value, tuple) and r.value[:2] == ("new", "Content") and len(r.value[2]) == 2):
                    problems.add(f"{label} {name} gives {r.kind} {r.value!r} instead of a Content")
                    continue
                if r.value[2][0] != UTF8:
                    problems.add("the content type does not default to UTF8_TEXT")
                touched = [e[0] for e in log if e[0] == "open" or e[0].startswith(obj + ".")]
                if buffer_now == FALSE and touched:
                    problems.add(f"{label} {name} touches its source when the Content is created ({touched[:3]}): lazy reading was promised")
                if buffer_now == TRUE and not any(x.endswith(".read") for x in touched):
                    problems.add(f"{label} nothing is read although buffer_now was requested")
                base = len(log)
                for x in _apply_later(ctx, dom, f, r.value[2][1], r.state):
                    got = x.value if x.kind == "val" else None
                    if isinstance(got, tuple) and got[:1] == ("tuple",):
                        got = list(got[1:])
                    else:
                        got = list(x.state.get("gen.1", ())) or got
                    if got != [B1, B2]:
                        problems.add(f"{label} reading the content gives {got!r}; expected the stream's chunks {[B1, B2]}")
                    new = x.state.get("ev.calls", ())[base:]
                    if buffer_now == TRUE and any(e[0].endswith(".read") or e[0] == "open" for e in new):
                        problems.add(f"{label} a buffered content touches its source again when read")
                    full = x.state.get("ev.calls", ())
                    reads = [e for e in full if e[0] == obj + ".read"]
                    seeks = [e for e in full if e[0] == obj + ".seek"]
                    if any(e[1] != (SIZE,) for e in reads) or [e[1] for e in seeks] != [(OFFSET, WHENCE)]:
                        problems.add("chunk_size / seek_offset / seek_whence do not reach the stream unchanged")
                    if name == "content_from_file":
                        opens = [e for e in full if e[0] == "open"]
                        if len(opens) != 1 or opens[0][1][:1] != (src_obj,) or ("const", "rb") not in list(opens[0][1][1:]) + [v for _, v in opens[0][2]]:
                            problems.add(f"the file is opened as open{[e[1] for e in opens]!r}; expected once, open(path, 'rb')")
                        names = [e[0] for e in full]
                        closes = [i for i, n_ in enumerate(names) if n_ in ("file.__exit__", "file.close")]
                        last_use = max([i for i, n_ in enumerate(names) if n_ in ("file.read", "file.seek")], default=-1)
                        if not closes or closes[-1] < last_use:
                            problems.add("the file is not closed after reading (neither left through `with` nor close()d)")
        ctx.check("R-EAGER-LAZY", f"{name}: source untouched until the content is read unless buffer_now; chunking and seek arguments passed through", f, not problems,
                  "; ".join(sorted(problems)[:4]), examined=n, construct=f"{CONTENT}:{name}::scenarios")
    # text_content / json_content round trips: the bytes are the argument encoded in the declared charset
    tcf = module_function(ctx, CONTENT, "text_content")
    ctm = ctx.repo.module(CTYPE)
    utf8 = None
    for s_ in ctm.tree.body:
        if isinstance(s_, ast.Assign) and dotted(s_.targets[0]) == "UTF8_TEXT" and isinstance(s_.value, ast.Call) and len(s_.value.args) == 3 and isinstance(s_.value.args[2], ast.Dict):
            utf8 = {str_const(k): str_const(v) for k, v in zip(s_.value.args[2].keys, s_.value.args[2].values)}.get("charset")
    TEXT = "café \U0001f600 \x00"
    dom = DeferredDomain(ctx.classes, attrs={"UTF8_TEXT": UTF8}, ctors={"Content"})
    res = effects.run(ctx, dom, tcf, None, {tcf.args.args[0].arg: ("const", TEXT)}, state=State(), depth=3)
    problems = set()
    for r in res:
        if r.kind != "val" or not (isinstance(r.value, tuple) and r.value[:2] == ("new", "Content") and r.value[2][:1] == (UTF8,)):
            problems.add(f"text_content gives {r.kind} {r.value!r}; expected a UTF8_TEXT Content")
            continue
        for x in _apply_later(ctx, dom, tcf, r.value[2][1], r.state):
            chunks = x.value[1:] if x.kind == "val" and isinstance(x.value, tuple) and x.value[:1] == ("tuple",) else None
            joined = b"".join(c[1] for c in chunks) if chunks is not None and all(isinstance(c, tuple) and c[:1] == ("const",) and isinstance(c[1], bytes) for c in chunks) else None
            try:
                back = joined.decode(utf8) if joined is not None and utf8 else None
            except (UnicodeDecodeError, LookupError):
                back = None
            if back != TEXT:
                problems.add(f"the bytes of text_content(t) do not decode to t in the declared charset {utf8!r} (got {joined!r})")
    ctx.check("R-EAGER-LAZY", "text_content: the bytes are the text encoded in the charset the content type declares", tcf, bool(res) and not problems, "; ".join(sorted(problems)) or "no path", examined=len(res),
              construct=f"{CONTENT}:text_content::charset-agrees")
    jc = module_function(ctx, CONTENT, "json_content")
    dom = DeferredDomain(ctx.classes, attrs={"JSON": ("sym", "JSON")}, ctors={"Content"}, results={"json.dumps": [("const", '{"k": "é"}')]}, track=lambda d: d == "json.dumps")
    DATA = ("sym", "json-data")
    res = effects.run(ctx, dom, jc, None, {jc.args.args[0].arg: DATA}, state=State(), depth=3)
    problems = set()
    for r in res:
        dumps = [e for e in r.state.get("ev.calls", ()) if e[0] == "json.dumps"]
        if r.kind != "val" or not (isinstance(r.value, tuple) and r.value[:2] == ("new", "Content") and r.value[2][:1] == (("sym", "JSON"),)) or len(dumps) != 1 or dumps[0][1][:1] != (DATA,):
            problems.add("json_content does not build a JSON Content from json.dumps(data)")
            continue
        for x in _apply_later(ctx, dom, jc, r.value[2][1], r.state):
            chunks = x.value[1:] if x.kind == "val" and isinstance(x.value, tuple) and x.value[:1] == ("tuple",) else ()
            joined = b"".join(c[1] for c in chunks if isinstance(c, tuple) and c[:1] == ("const",) and isinstance(c[1], bytes))
            if joined != '{"k": "é"}'.encode("utf-8"):
                problems.add(f"the bytes of json_content are {joined!r}, not the UTF-8 encoding of the JSON text")
    ctx.check("R-EAGER-LAZY", "json_content: the bytes are the JSON text of the data, UTF-8 encoded", jc, bool(res) and not problems, "; ".join(sorted(problems)) or "no path", examined=len(res),
              construct=f"{CONTENT}:json_content::dumps")


def check_equality(ctx):
    from .. import effects
    cls = ctx.classes.get(CONTENT, "Content")
    eq = own_method(ctx, CONTENT, "Content", "__eq__")
    other = eq.args.args[1].arg
    problems = set()
    n = 0
    T1, T2 = ("const", "text/plain"), ("const", "text/x-other")
    cases = [
        ("same type, same bytes in the same chunks", T1, T1, (B1, B2), (B1, B2), TRUE),
        ("same type, same bytes cut differently", T1, T1, (("const", b"ab"), ("const", b"c")), (("const", b"a"), ("const", b""), ("const", b"bc")), TRUE),
        ("same type, different bytes", T1, T1, (B1,), (B2,), FALSE),
        ("different type, same bytes", T1, T2, (B1,), (B1,), FALSE),
        ("same type, other has more bytes", T1, T1, (B1,), (B1, B2), FALSE),
    ]
    for label, t_self, t_other, b_self, b_other, want in cases:
        def oracle(name, pos, kw):
            if name == "joiner.join" and pos and isinstance(pos[0], tuple) and pos[0][:1] == ("tuple",) and all(isinstance(c, tuple) and c[:1] == ("const",) for c in pos[0][1:]):
                return [("val", ("const", b"".join(c[1] for c in pos[0][1:])))]
            if name == "other.iter_bytes":
                return [("val", ("tuple",) + tuple(b_other))]
            return None
        dom = ObjectDomain(ctx.classes, attrs={"self": ("self",), "self.content_type": t_self, "other.content_type": t_other, "_join_b": ("bound", "joiner", "join")},
                                   results={"self._get_bytes": [("tuple",) + tuple(b_self)]}, oracle=oracle)
        res = effects.run(ctx, dom, eq, cls, {other: ("wobj", "other")}, state=State(), depth=3)
        n += len(res)
        got = sorted({repr(r.value) if r.kind == "val" else "raises " + repr(r.value) for r in res})
        if got != [repr(want)]:
            problems.add(f"[{label}] == gives {got}; expected {'True' if want == TRUE else 'False'}")
    ctx.check("R-EQ-READS-BOTH", "Content.__eq__: equal iff same type and same concatenated bytes, however they are chunked", eq, not problems, "; ".join(sorted(problems)), examined=n,
              construct=f"{CONTENT}:Content.__eq__::both")
    ct = ctx.classes.get(CTYPE, "ContentType")
    ceq = ct.own_method("__eq__")
    # ContentType equality, on two objects made by the constructor: equal iff type, subtype and parameters all agree
    from ..absint import Frame
    dom = ObjectDomain(ctx.classes)
    dom.root_class = None
    it = Interp(dom, max_depth=6)
    it.round_cache = {}
    holder = ast.parse("def _comparing_content_types():\n    pass").body[0]
    holder._module, holder._parent, holder._class = ct.node._module, ct.node._module.tree, None
    fr = Frame(holder, 0, None, name="<comparing>", is_method=False)
    P1, P2 = ("kwdict", (("charset", ("const", "utf8")),)), ("kwdict", (("charset", ("const", "latin-1")),))
    base = (("const", "text"), ("const", "plain"), P1)
    cases = [("all fields agree", base, TRUE), ("the type differs", (("const", "application"),) + base[1:], FALSE), ("the subtype differs", (base[0], ("const", "html"), base[2]), FALSE),
             ("a parameter differs", base[:2] + (P2,), FALSE), ("one has no parameters", base[:2] + (("kwdict", ()),), FALSE)]
    problems = set()
    n = 0
    for label, fields, want in cases:
        for left in dom.instantiate(it, ct, list(base), [], State(), fr):
            if left.kind != "val":
                problems.add(f"ContentType{base!r} cannot be constructed ({left.value!r})")
                continue
            for right in dom.instantiate(it, ct, list(fields), [], left.state, fr):
                if right.kind != "val":
                    problems.add(f"ContentType{fields!r} cannot be constructed ({right.value!r})")
                    continue
                for r in dom.call_method(it, left.value, "__eq__", [right.value], [], right.state, fr) or []:
                    n += 1
                    if r.kind != "val" or r.value != want:
                        problems.add(f"[{label}] == gives {r.kind} {r.value!r}; expected {'True' if want == TRUE else 'False'}")
        if not n:
            problems.add("ContentType.__eq__ could not be followed")
    for left in dom.instantiate(it, ct, list(base), [], State(), fr):
        for r in (dom.call_method(it, left.value, "__eq__", [("const", 42)], [], left.state, fr) or []) if left.kind == "val" else []:
            n += 1
            if r.kind != "val" or r.value not in (FALSE, ("const", NotImplemented), ("sym", "NotImplemented")):
                problems.add(f"compared with something that is not a ContentType == gives {r.kind} {r.value!r}")
    ctx.stats["states"] += it.steps
    ctx.check("R-EQ-READS-BOTH", "ContentType.__eq__ compares type, subtype and parameters", ceq, n > 0 and not problems, "; ".join(sorted(problems)) or "no path", examined=n, construct=f"{CTYPE}:ContentType.__eq__::fields")
    rp = ct.own_method("__repr__")
    problems = set()
    n = 0
    for params, want in ((("kwdict", (("charset", ("const", "utf8")), ("b", ("const", "2")))), 'text/plain; b="2"; charset="utf8"'), (("kwdict", ()), "text/plain")):
        dom = ObjectDomain(ctx.classes, attrs={"self": ("self",), "self.type": ("const", "text"), "self.subtype": ("const", "plain")})
        res = effects.run(ctx, dom, rp, ct, {}, state=State([("self.parameters", params)]), depth=2)
        n += len(res)
        got = sorted({repr(r.value) for r in res})
        if got != [repr(("const", want))]:
            problems.add(f"with parameters {dict(params[1])!r} the MIME string is {got}; expected {want!r}")
    ctx.check("R-EQ-READS-BOTH", "ContentType.__repr__ renders type/subtype and every parameter (sorted)", rp, not problems, "; ".join(sorted(problems)), examined=n,
              construct=f"{CTYPE}:ContentType.__repr__::all-params")
