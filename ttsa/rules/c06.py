"""C06 -- matcher verdicts obey their declared semantics compositionally."""

import ast

from ..absint import FALSE, NONE, NOTNONE, TOP, TRUE, DefaultDomain, Interp, Result, State, exc, val
from ..alias import Aliases
from ..astutil import FUNC_TYPES, attr_chain, dotted, norm, walk_shallow
from ..loader import AnalysisError, Undecided
from .c07 import check_format_safe
from .matchmodel import (MATCHER_MODULES, expr_kind, function_return_kinds, is_mismatch_ctor, matcher_classes, mismatch_classes,
                         resolve_class_name)

EXPLANATION = (
    "Rules over every class with a match() method in testtools/matchers/*.py and "
    "twistedsupport/_matchers.py: R-RETURN-KIND (return-kind inference: every return of every match is "
    "None, a Mismatch-kind constructor or a delegate -- never a bool, text or a bare collection), "
    "R-TRUTH-TABLE (abstract interpretation over the nullness domain: each component verdict is a fresh "
    "symbolic value in {None, Mismatch}, lists/dicts of verdicts are abstracted by (contains-None, "
    "contains-Mismatch), loops run to a fixed point; on every path the nullness of the result must equal "
    "the combinator's declared truth function of the verdicts drawn on that path -- Not: negation; "
    "Annotate/AfterPreprocessing: identity; MatchesAny/AnyMatch: exists; MatchesAll/AllMatch/"
    "MatchesListwise/_MatchCommonKeys/MatchesAllDict: for-all, with early exits only in the direction the "
    "truth function allows), R-DICT-FACTORIES (exact = super U sub as set algebra on the three factory "
    "tables), R-NO-FALSY-MISMATCH (no mismatch class defines __bool__/__len__, so truthiness tests and "
    "`is None` tests agree), R-MATCH-PURE (alias analysis: match and its helpers store nothing on self and "
    "mutate neither the matcher's state nor the matchee), R-ORDER-INDEPENDENT (no first-match selection "
    "over a set of identity-hashed objects), R-FORMAT-SAFE (shared with C07). Leaf predicates (comparisons, "
    "regex, doctest, filesystem) and the existence of a one-to-one assignment are runtime value questions "
    "and are not decided."
)

MIS = ("mismatch",)
SPEC = {
    # class name -> (module suffix, truth function)
    "Not": "not", "Annotate": "id", "AfterPreprocessing": "id",
    "MatchesAny": "exists", "AnyMatch": "exists",
    "MatchesAll": "forall", "AllMatch": "forall", "MatchesListwise": "forall",
    "_MatchCommonKeys": "forall", "MatchesAllDict": "forall",
}


class VerdictDomain(DefaultDomain):
    def __init__(self, ctx, cls):
        self.ctx = ctx
        self.classes = ctx.classes
        self.cls = cls
        self.module = cls.module

    # values ------------------------------------------------------------------------
    def truth(self, v):
        if v == MIS or v == ("matcher",):
            return "T"
        if isinstance(v, tuple) and v and v[0] == "coll":
            return "T" if (v[1] or v[2]) else "F"
        return super().truth(v)

    def is_none(self, v):
        if v == MIS or (isinstance(v, tuple) and v and v[0] in ("coll", "matcher", "func", "name")):
            return "F"
        return super().is_none(v)

    def iter_kind(self, v):
        if isinstance(v, tuple) and v and v[0] == "coll":
            return "nonempty" if (v[1] or v[2]) else "empty"
        return "unknown"

    def for_start(self, interp, stmt, itervalue, st, fr):
        return st.set("ev.inloop", 1)

    def for_done(self, interp, stmt, itervalue, st, fr):
        return st.set("ev.inloop", 0)

    def default_value(self, expr, func):
        if isinstance(expr, ast.Name):
            return ("name", expr.id, func._module.name)
        return TOP

    def load_attr(self, chain, st, fr):
        if chain[0] in ("<value>", "<comprehension>", "<yield>"):
            return None
        if len(chain) == 1:
            m = fr.func._module
            for node in m.tree.body:
                if isinstance(node, FUNC_TYPES) and node.name == chain[0]:
                    return ("func", node)
            ci = resolve_class_name(self.ctx, m, chain[0])
            if ci is not None:
                return ("name", chain[0], m.name)
            imp = self.ctx.classes.imports_of(m).get(chain[0])
            if imp and imp[0] == "from" and imp[1] in self.ctx.repo.modules:
                for node in self.ctx.repo.modules[imp[1]].tree.body:
                    if isinstance(node, FUNC_TYPES) and node.name == imp[2]:
                        return ("func", node)
        return None

    def comprehension(self, interp, e, st, fr):
        """[f(x) for x in xs] / {k: f(v) for ...}: a collection of whatever verdicts the element expression draws."""
        if len(e.generators) != 1:
            return None
        gen = e.generators[0]
        value_expr = e.value if isinstance(e, ast.DictComp) else e.elt
        out = []
        for r0 in interp.eval(gen.iter, st, fr):
            if r0.kind == "exc":
                out.append(r0)
                continue
            seen = set()
            work = [(r0.state, "Empty")]
            while work:
                s, coll = work.pop()
                if (s, coll) in seen:
                    continue
                seen.add((s, coll))
                out.append(val(coll, s))
                s1 = interp.assign(gen.target, TOP, s, fr)
                states = [s1]
                for cond in gen.ifs:
                    keep = []
                    for s2 in states:
                        for br, s3 in interp.branch(cond, s2, fr):
                            if br == "exc":
                                out.append(s3)
                            elif br:
                                keep.append(s3)
                            else:
                                work.append((s3, coll))
                    states = keep
                for s2 in states:
                    for r in interp.eval(value_expr, s2, fr):
                        if r.kind == "exc":
                            out.append(r)
                        else:
                            work.append((r.state, self._add(coll, r.value)))
        return out

    def store_subscript(self, target, value, st, fr, interp):
        key = interp._key_of(target.value, fr)
        if key is not None and st.has(key):
            cur = st.get(key)
            if self._is_coll(cur):
                return st.set(key, self._add(cur, value))
        return st

    @staticmethod
    def _is_coll(v):
        return v == "Empty" or (isinstance(v, tuple) and v and v[0] == "coll")

    @staticmethod
    def _add(coll, v):
        if coll == "Empty":
            coll = ("coll", False, False)
        if v == NONE:
            return ("coll", True, coll[2])
        if v == MIS:
            return ("coll", coll[1], True)
        return ("coll", True, True)  # unknown element: may be either

    def constant(self, node):
        return super().constant(node)

    # calls -------------------------------------------------------------------------
    def draw(self, st):
        n = min(st.get("ev.draws", 0) + 1, 2)
        return [val(NONE, st.set("ev.draws", n).set("ev.any_none", 1)), val(MIS, st.set("ev.draws", n).set("ev.any_mis", 1))]

    def call(self, interp, call, st, fr):
        func = call.func
        d = dotted(func)
        argexprs = [a.value if isinstance(a, ast.Starred) else a for a in call.args] + [k.value for k in call.keywords]

        def after_args(k):
            out = []
            for r in interp.eval_list(argexprs, st, fr):
                if r.kind == "exc":
                    out.append(r)
                else:
                    out.extend(k(r.state, r.value))
            return out

        # a component's verdict
        if isinstance(func, ast.Attribute) and func.attr == "match":
            out = []
            for r0 in interp.eval(func.value, st, fr):
                if r0.kind == "exc":
                    out.append(r0)
                    continue
                for r in interp.eval_list(argexprs, r0.state, fr):
                    if r.kind == "exc":
                        out.append(r)
                    else:
                        out.extend(self.draw(r.state))
                        out.append(exc(("component raised",), r.state))
            return out
        # list / dict building
        if isinstance(func, ast.Attribute) and func.attr == "append":
            key = interp._key_of(func.value, fr)
            if key is not None and st.has(key):
                def k(s, vals):
                    cur = s.get(key)
                    if self._is_coll(cur):
                        return [val(NONE, s.set(key, self._add(cur, vals[0])))]
                    return [val(NONE, s)]
                return after_args(k)
        if d == "filter_values" and len(call.args) == 2 and dotted(call.args[0]) == "bool":
            def k(s, vals):
                c = vals[1]
                if c == "Empty":
                    return [val("Empty", s)]
                if isinstance(c, tuple) and c and c[0] == "coll":
                    return [val(("coll", False, c[2]) if c[2] else "Empty", s)]
                return [val(TOP, s)]
            return after_args(k)
        if d in ("zip", "sorted", "enumerate", "reversed", "iter", "list", "tuple", "set", "len", "getattr", "isinstance", "repr", "str", "map", "dict"):
            def k(s, vals):
                if d in ("list", "tuple", "sorted") and vals and isinstance(vals[0], tuple) and vals[0] and vals[0][0] == "coll":
                    return [val(vals[0], s)]
                return [val(TOP, s)]
            return after_args(k)
        # constructors of mismatches and matchers
        if isinstance(func, ast.Name):
            key = fr.local(func.id)
            v = st.get(key) if st.has(key) else self.load_attr([func.id], st, fr)
            if isinstance(v, tuple) and v and v[0] == "name":
                ci = resolve_class_name(self.ctx, self.ctx.repo.modules[v[2]], v[1])
                if ci is not None:
                    names = {k_.name for k_ in self.classes.mro(ci)}
                    if names & {"Mismatch", "MismatchDecorator"}:
                        return after_args(lambda s, vals: [val(MIS, s)])
                    return after_args(lambda s, vals: [val(("matcher",), s)])
            if isinstance(v, tuple) and v and v[0] == "func":
                f = v[1]
                params = [p.arg for p in f.args.args]

                def k(s, vals, f=f, params=params):
                    argvals = {}
                    npos = len(call.args)
                    for i, x in enumerate(vals[:npos]):
                        if i < len(params):
                            argvals[params[i]] = x
                    for kw, x in zip(call.keywords, vals[npos:]):
                        if kw.arg:
                            argvals[kw.arg] = x
                    return interp.inline(f, argvals, s, fr, receiver=fr.receiver, is_method=False)
                return after_args(k)
        ch = attr_chain(func)
        if ch and ch[0] == "self" and len(ch) == 2 and fr.receiver is not None:
            owner, f = self.classes.resolve_method(fr.receiver, ch[1])
            if isinstance(f, FUNC_TYPES) and owner is not None and not owner.external:
                params = [p.arg for p in f.args.args][1:]

                def k(s, vals, f=f, params=params):
                    argvals = {params[i]: x for i, x in enumerate(vals[: len(call.args)]) if i < len(params)}
                    return interp.inline(f, argvals, s, fr, receiver=fr.receiver)
                return after_args(k)
            # an attribute holding a user callable (preprocessor, predicate)
            return after_args(lambda s, vals: [val(TOP, s), exc(("user callable raised",), s)])
        if ch and len(ch) == 2 and ch[1] in ("if_message",):
            return after_args(lambda s, vals: [val(("matcher",), s)])
        return after_args(lambda s, vals: [val(TOP, s)])

    def with_enter(self, interp, item, value, st, fr):
        return None


def run_truth_table(ctx, cls, kind):
    f = cls.own_method("match")
    dom = VerdictDomain(ctx, cls)
    it = Interp(dom, max_depth=5)
    st0 = State([("ev.draws", 0), ("ev.any_none", 0), ("ev.any_mis", 0), ("ev.inloop", 0)])
    res = it.analyze(f, {}, st0, receiver=cls, name=f"{cls.name}.match")
    ctx.stats["states"] += it.steps
    for fn in it.functions:
        ctx.analysed(fn)
    sigs = {}
    for r in res:
        if r.kind != "val":
            continue
        d = r.state
        sig = (r.value, d.get("ev.draws", 0), d.get("ev.any_none", 0), d.get("ev.any_mis", 0), d.get("ev.inloop", 0))
        sigs.setdefault(sig, r)
    out = []
    for (value, draws, any_none, any_mis, inloop), r in sorted(sigs.items(), key=repr):
        if value == NONE:
            res_none = True
        elif value == MIS:
            res_none = False
        else:
            out.append((False, f"result {value!r} is neither None nor a Mismatch", (value, draws, any_none, any_mis, inloop)))
            continue
        if kind == "forall":
            ok = (any_mis == 0 and inloop == 0) if res_none else any_mis == 1
            why = ("returns None although a component mismatched" if res_none and any_mis else
                   "returns None before all components were consulted" if res_none else "returns a Mismatch although no component mismatched")
        elif kind == "exists":
            ok = any_none == 1 if res_none else (any_none == 0 and inloop == 0)
            why = ("returns None although no component matched" if res_none else
                   "returns a Mismatch although a component matched" if any_none else "returns a Mismatch before all components were consulted")
        elif kind == "not":
            ok = draws == 1 and (res_none == (any_mis == 1))
            why = "the verdict is not the negation of the inner verdict"
        else:  # id
            ok = draws == 1 and (res_none == (any_mis == 0))
            why = "the inner verdict is not preserved"
        out.append((ok, why, (value, draws, any_none, any_mis, inloop)))
    return out, len(res)


def check_dict_to_mismatch(ctx):
    """_dict_to_mismatch(data, to_mismatch, result_mismatch): every entry whose (converted) value is a mismatch is reported --
    whatever the raw value was -- and entries that carry None are not; nothing to report gives None.  Decided on abstract
    runs with exact dicts and the conversion / result constructor as symbolic callables."""
    from .. import effects
    from ..absint import NONE as A_NONE, State
    from .deferredmodel import DeferredDomain
    from .common import module_function
    f = module_function(ctx, "testtools.matchers._dict", "_dict_to_mismatch")
    params = [a.arg for a in f.args.args]
    M1, M2 = ("new", "Mismatch", (("const", 1),), ()), ("new", "Mismatch", (("const", 2),), ())   # mismatch objects are truthy (R-NO-FALSY-MISMATCH)
    cases = [
        ("verdicts, no conversion", ("kwdict", (("a", M1), ("b", A_NONE), ("c", M2))), None, {"a": M1, "c": M2}),
        ("verdicts, all None", ("kwdict", (("a", A_NONE),)), None, None),
        ("raw values converted to mismatches, one raw value falsy", ("kwdict", (("x", ("const", 0)), ("y", ("sym", "value")), ("z", ("const", "")))), "convert", {"x": "conv", "y": "conv", "z": "conv"}),
        ("no entries", ("kwdict", ()), "convert", None),
    ]
    problems = set()
    n = 0
    for label, data, conv, want in cases:
        def oracle(name, pos, kw):
            if name == "convert.__call__":
                return [("val", ("new", "converted", (pos[0] if pos else None,), ()))]   # a Mismatch object: truthy
            if name == "result.__call__":
                return [("val", ("new", "result-mismatch", (pos[0] if pos else None,), ()))]
            return None
        dom = DeferredDomain(ctx.classes, attrs={}, oracle=oracle, log_cap=20)
        argv = {params[0]: data, params[2]: ("wobj", "result")}
        if conv:
            argv[params[1]] = ("wobj", "convert")
        res = effects.run(ctx, dom, f, None, argv, state=State(), depth=4)
        n += len(res)
        for r in res:
            if r.kind != "val":
                problems.add(f"[{label}] raises {r.value!r}")
                continue
            if want is None:
                if r.value != A_NONE:
                    problems.add(f"[{label}] returns {r.value!r} instead of None (a match)")
                continue
            got = None
            if isinstance(r.value, tuple) and r.value[:2] == ("new", "result-mismatch") and isinstance(r.value[2][0], tuple) and r.value[2][0][:1] == ("kwdict",):
                got = {k: ("conv" if isinstance(v, tuple) and v[:2] == ("new", "converted") else v) for k, v in r.value[2][0][1]}
            if got != want:
                problems.add(f"[{label}] the mismatch reported covers {sorted(got) if got is not None else r.value!r}; expected exactly the entries {sorted(want)} "
                             "(an entry is dropped by what its raw value is, not by whether it mismatches)")
    ctx.check("R-DICT-FACTORIES", "_dict_to_mismatch reports exactly the entries that carry a mismatch, whatever their raw values", f, n > 0 and not problems, "; ".join(sorted(problems)),
              examined=n, construct="testtools.matchers._dict:_dict_to_mismatch::entries")


RUN_AS_WRITTEN = ("Not", "Annotate", "AfterPreprocessing", "MatchesAny", "AnyMatch", "MatchesAll", "AllMatch", "MatchesListwise", "MatchesStructure", "MatchesAllDict",
                  "_MatchCommonKeys", "_SubDictOf", "_SuperDictOf", "_CombinedMatcher", "MatchesDict", "ContainsDict", "ContainedByDict", "Raises")


def check_truth_tables(ctx):
    """Combinators built over scripted component matchers and run as written (ttsa.rules.resultmodel): for every
    combination of component verdicts the combinator's verdict is None exactly when its declared truth function says so,
    and otherwise an object (never a bool, a string or a collection)."""
    import itertools
    from . import resultmodel as rm
    from ..objects import is_inst
    A, B = ("sym", "value a"), ("sym", "value b")
    M1, M2 = ("wobj", "m1"), ("wobj", "m2")
    keys = [("m1", A), ("m1", B), ("m2", A), ("m2", B)]

    def scenario(table, lacks=(), fn_answer=None, module="testtools.matchers"):
        def oracle(n, pos, kw):
            who, _, meth = n.partition(".")
            if meth == "match" and who in ("m1", "m2"):
                return [("val", NONE if table.get((who, pos[0] if pos else None), table.get("otherwise")) else ("wobj", f"mismatch_of_{who}"))]
            if meth == "describe":
                return [("val", ("const", "differs"))]
            if meth == "get_details":
                return [("val", ("kwdict", ()))]
            if n == "fn.__call__":
                return [fn_answer] if fn_answer is not None else [("val", B)]
            return None
        return rm.Scenario(ctx, module=module, accepting=("m1", "m2", "mismatch_of_m1", "mismatch_of_m2", "obj", "obj2", "fn"), oracle=oracle, lacks=set(lacks),
                           attrs={"self": ("self",), "obj.x": A, "obj.y": B, "obj2.x": NONE, "obj2.y": B})

    def t(who, v):
        return lambda tb: tb[(who, v)]
    specs = [
        ("Not", "Not(m1).match(a)", lambda tb: not tb[("m1", A)], [("m1", A)]),
        ("Annotate", "Annotate('a note', m1).match(a)", t("m1", A), [("m1", A)]),
        ("AfterPreprocessing", "AfterPreprocessing(fn, m1).match(a)", t("m1", B), [("m1", B)]),   # fn(a) is b
        ("MatchesAll", "MatchesAll(m1, m2).match(a)", lambda tb: tb[("m1", A)] and tb[("m2", A)], [("m1", A), ("m2", A)]),
        ("MatchesAll", "MatchesAll(m1, m2, first_only=True).match(a)", lambda tb: tb[("m1", A)] and tb[("m2", A)], [("m1", A), ("m2", A)]),
        ("MatchesAny", "MatchesAny(m1, m2).match(a)", lambda tb: tb[("m1", A)] or tb[("m2", A)], [("m1", A), ("m2", A)]),
        ("AllMatch", "AllMatch(m1).match([a, b])", lambda tb: tb[("m1", A)] and tb[("m1", B)], [("m1", A), ("m1", B)]),
        ("AllMatch", "AllMatch(m1).match([])", lambda tb: True, []),
        ("AnyMatch", "AnyMatch(m1).match([a, b])", lambda tb: tb[("m1", A)] or tb[("m1", B)], [("m1", A), ("m1", B)]),
        ("AnyMatch", "AnyMatch(m1).match([])", lambda tb: False, []),
        ("MatchesListwise", "MatchesListwise([m1, m2]).match([a, b])", lambda tb: tb[("m1", A)] and tb[("m2", B)], [("m1", A), ("m2", B)]),
        ("MatchesListwise", "MatchesListwise([m1, m2]).match([a])", lambda tb: False, [("m1", A)]),
        ("MatchesListwise", "MatchesListwise([m1]).match([a, b])", lambda tb: False, [("m1", A)]),
        # (options that only choose what is reported must not change the verdict)
        ("MatchesListwise", "MatchesListwise([m1, m2], first_only=True).match([a, b])", lambda tb: tb[("m1", A)] and tb[("m2", B)], [("m1", A), ("m2", B)]),
        ("MatchesListwise", "MatchesListwise([m1, m2], first_only=True).match([a])", lambda tb: False, [("m1", A)]),
        ("MatchesListwise", "MatchesListwise([m1], first_only=True).match([a, b])", lambda tb: False, [("m1", A)]),
        ("MatchesListwise", "MatchesListwise([], first_only=True).match([a])", lambda tb: False, []),
        ("MatchesListwise", "MatchesListwise([]).match([])", lambda tb: True, []),
        ("AfterPreprocessing", "AfterPreprocessing(fn, m1, annotate=False).match(a)", t("m1", B), [("m1", B)]),
        ("MatchesAll", "MatchesAll().match(a)", lambda tb: True, []),
        ("MatchesAny", "MatchesAny().match(a)", lambda tb: False, []),
        ("MatchesStructure", "MatchesStructure(x=m1, y=m2).match(obj)", lambda tb: tb[("m1", A)] and tb[("m2", B)], [("m1", A), ("m2", B)]),
        ("MatchesStructure", "MatchesStructure(x=m1, y=m2).match(obj2)", lambda tb: tb[("m1", NONE)] and tb[("m2", B)], [("m1", NONE), ("m2", B)]),   # obj2.x is None
        ("MatchesAllDict", "MatchesAllDict({'one': m1, 'two': m2}).match(a)", lambda tb: tb[("m1", A)] and tb[("m2", A)], [("m1", A), ("m2", A)]),
        ("MatchesDict", "MatchesDict({'k1': m1, 'k2': m2}).match({'k1': a, 'k2': b})", lambda tb: tb[("m1", A)] and tb[("m2", B)], [("m1", A), ("m2", B)]),
        ("MatchesDict", "MatchesDict({'k1': m1, 'k2': m2}).match({'k1': a})", lambda tb: False, [("m1", A)]),
        ("MatchesDict", "MatchesDict({'k1': m1}).match({'k1': a, 'k2': b})", lambda tb: False, [("m1", A)]),
        ("ContainsDict", "ContainsDict({'k1': m1}).match({'k1': a, 'k2': b})", t("m1", A), [("m1", A)]),
        ("ContainsDict", "ContainsDict({'k1': m1, 'k2': m2}).match({'k1': a})", lambda tb: False, [("m1", A)]),
        ("ContainedByDict", "ContainedByDict({'k1': m1, 'k2': m2}).match({'k1': a})", t("m1", A), [("m1", A)]),
        ("ContainedByDict", "ContainedByDict({'k1': m1}).match({'k1': a, 'k2': b})", lambda tb: False, [("m1", A)]),
    ]
    for cname, expr, want, used in specs:
        problems = set()
        n = 0
        for bits in itertools.product((True, False), repeat=len(used)):
            table = {k: True for k in keys}
            table.update(dict(zip(used, bits)))
            res = scenario(table, module="testtools.matchers._dict" if cname == "MatchesAllDict" else "testtools.matchers").run(
                "def scenario(m1, m2, a, b, obj, obj2, fn):\n    return " + expr + "\n", m1=M1, m2=M2, a=A, b=B, obj=("wobj", "obj"), obj2=("wobj", "obj2"), fn=("wobj", "fn"))
            n += len(res)
            said = ", ".join(f"{w}.match({'a' if v == A else 'b' if v == B else 'None'}) {'matches' if table[(w, v)] else 'mismatches'}" for w, v in used) or "no component is asked"
            if not res:
                problems.add(f"[{said}] the run was not followed to its end")
            for r in res:
                if r.kind != "val":
                    problems.add(f"[{said}] match() raises {r.value!r}")
                    continue
                is_none = r.value == NONE
                if is_none != bool(want(table)):
                    problems.add(f"[{said}] match() returns {'None' if is_none else 'a mismatch'}; the declared verdict is {'None' if want(table) else 'a mismatch'}")
                if not is_none and not (is_inst(r.value) or (isinstance(r.value, tuple) and r.value[:1] in (("wobj",), ("new",)))):
                    problems.add(f"[{said}] match() returns {r.value!r}: neither None nor a mismatch object")
        cls = [c for c in matcher_classes(ctx) if c.name == cname]
        anchor = cls[0].node if cls else None
        if anchor is None:
            raise AnalysisError(f"anchor vanished: matcher class {cname}")
        ctx.check("R-DICT-FACTORIES" if cname in ("MatchesDict", "ContainsDict", "ContainedByDict") else "R-TRUTH-TABLE",
                  f"{expr}: None exactly when the declared truth function of the component verdicts holds", anchor, not problems, "; ".join(sorted(problems))[:900],
                  examined=n, construct=f"{cls[0].module.name}:{cname}::{expr}")
    # Raises: the callable's exception is matched; returning is a mismatch; an exception that is not an Exception propagates
    for label, answer, matcher_says, want in (("the callable returns", ("val", A), True, "mismatch"), ("the callable raises an Exception the matcher accepts", ("exc", ("exc", "ValueError", "fn")), True, "none"),
                                              ("the callable raises an Exception the matcher rejects", ("exc", ("exc", "ValueError", "fn")), False, "mismatch"),
                                              ("the callable raises KeyboardInterrupt, which the matcher does not match", ("exc", ("exc", "KeyboardInterrupt", "fn")), False, "propagates"),
                                              ("the callable raises KeyboardInterrupt and the matcher matches it", ("exc", ("exc", "KeyboardInterrupt", "fn")), True, "none")):
        table = {"otherwise": matcher_says}   # (whatever exc_info the matcher is shown, it answers the same)
        sc = scenario(table, fn_answer=answer)
        res = sc.run("def scenario(m1, fn):\n    return Raises(m1).match(fn)\n", m1=M1, fn=("wobj", "fn"))
        problems = set()
        for r in res:
            got = "propagates" if r.kind == "exc" else "none" if r.value == NONE else "mismatch"
            if got != want:
                problems.add(f"match() {'raises ' + repr(r.value) if r.kind == 'exc' else 'returns None' if r.value == NONE else 'returns a mismatch'}; expected {want}")
        cls = [c for c in matcher_classes(ctx) if c.name == "Raises"][0]
        ctx.check("R-TRUTH-TABLE", f"Raises(matcher).match(callable): {label} -> {want}", cls.node, bool(res) and not problems, "; ".join(sorted(problems)) or "no path", examined=len(res),
                  construct=f"{cls.module.name}:Raises::{label}")
    ctx.floor("R-TRUTH-TABLE", 20, "combinator expressions")


def _kinds_by_running(ctx, c, f):
    """Kinds of the values match() returns when it is run as written on an unknown matchee, every attribute of the matcher
    unknown: None / Mismatch / Bool / Text / Number / Collection / Unknown -- or None when the run cannot be followed."""
    from .. import effects
    from ..loader import Undecided
    from ..objects import ObjectDomain, is_inst
    mm = {k.name for k in mismatch_classes(ctx)}
    params = [a.arg for a in f.args.args][1:]
    if not params:
        return None

    class Dom(ObjectDomain):
        lazy_generators = False
        strict_calls = False
    try:
        res = effects.run(ctx, Dom(ctx.classes, log_cap=20), f, c, {params[0]: ("sym", "the matchee")}, state=State(), depth=5)
    except (Undecided, AnalysisError, RecursionError):
        return None
    if not res:
        return None
    kinds = set()
    for r in res:
        if r.kind != "val":
            continue
        v = r.value
        if v == NONE:
            kinds.add("None")
        elif is_inst(v):
            kinds.add("Mismatch" if {k.name for k in ctx.classes.mro(v[2])} & (mm | {"Mismatch", "MismatchDecorator"}) else "Other")
        elif isinstance(v, tuple) and v[:1] == ("new",) and isinstance(v[1], str):
            kinds.add("Mismatch" if v[1].split(".")[-1] in mm else "Other")
        elif v in (TRUE, FALSE) or v == ("bool",):
            kinds.add("Bool")
        elif isinstance(v, tuple) and v[:1] == ("const",):
            kinds.add("Text" if isinstance(v[1], (str, bytes)) else "Number")
        elif isinstance(v, tuple) and v[:1] in (("tuple",), ("kwdict",), ("set",)):
            kinds.add("Collection")
        else:
            kinds.add("Unknown")
    return kinds


def run(ctx):
    ctx.rule("R-RETURN-KIND", "match() returns None, a Mismatch or a delegate's verdict -- never bool / text / collection")
    ctx.rule("R-TRUTH-TABLE", "combinator verdicts are the declared truth function of their components' verdicts")
    ctx.rule("R-DICT-FACTORIES", "MatchesDict / ContainsDict / ContainedByDict: exact / super / sub key sets with per-key matchers")
    ctx.rule("R-NO-FALSY-MISMATCH", "no mismatch object can be falsy")
    ctx.rule("R-MATCH-PURE", "matching stores nothing on the matcher and mutates neither matcher state nor matchee")
    ctx.rule("R-ORDER-INDEPENDENT", "no first-match selection over a hash-ordered set")
    ctx.rule("R-FORMAT-SAFE", "%-formatting of a possibly-tuple matchee is guarded")
    classes = ctx.classes
    mcls = matcher_classes(ctx)

    # ------------------------------------------------------------------ return kinds
    allowed = {"None", "Mismatch", "Delegate", "Callback"}
    for c in mcls:
        f = c.methods.get("match")
        if f is None or classes.is_abstract_stub(f):
            continue
        if c.name in RUN_AS_WRITTEN:
            continue   # (what match() returns is read off the runs of R-TRUTH-TABLE: None or a mismatch object, nothing else)
        ctx.analysed(f)
        kinds = function_return_kinds(ctx, c.module, f)
        bad = kinds - allowed
        if bad:
            # the inference names kinds from the shape of the return expressions; where it cannot name one ("Other"), or names the
            # kind of a *part* of an expression (`(not ok or None) and Mismatch(...)`), what match() returns is read off a run
            ran = _kinds_by_running(ctx, c, f)
            if ran is not None and ran <= {"None", "Mismatch"}:
                kinds, bad = ran, set()      # every value the run returns is None or a mismatch object: the inference was imprecise
            elif ran is not None:
                bad = (bad - {"Other"}) | (ran - allowed - {"Unknown"})
            else:
                bad = bad - {"Other"}
        ctx.check("R-RETURN-KIND", f"{c.name}.match returns {sorted(kinds)}", f, not bad,
                  f"{c.name}.match can return {sorted(bad)}: callers test the verdict with `is None` / truthiness and expect a Mismatch object",
                  construct=f"{c.module.name}:{c.name}.match::kinds")
    ctx.floor("R-RETURN-KIND", 24, "match() implementations")
    # callbacks handed to on_deferred_result obey the same rule
    tm = ctx.repo.module("testtools.twistedsupport._matchers")
    for c in [k for k in classes.all if k.module.name == tm.name and not k.external]:
        for mname, f in c.methods.items():
            if mname.startswith("_got"):
                kinds = function_return_kinds(ctx, c.module, f)
                ctx.check("R-RETURN-KIND", f"{c.name}.{mname} returns {sorted(kinds)}", f, kinds <= allowed,
                          f"callback {c.name}.{mname} returns {sorted(kinds - allowed)}", construct=f"{c.module.name}:{c.name}.{mname}::kinds")

    # ------------------------------------------------------------------ truth tables
    check_truth_tables(ctx)

    # ------------------------------------------------------------------ dict factories
    # (MatchesDict / ContainsDict / ContainedByDict are run on dicts with missing, extra and common keys in check_truth_tables)
    # ------------------------------------------------------------------ falsy mismatch
    for c in mismatch_classes(ctx):
        bad = [m for m in ("__bool__", "__len__") if any(m in k.methods or m in k.attrs for k in classes.mro(c) if not k.external)]
        ctx.check("R-NO-FALSY-MISMATCH", f"{c.name} defines neither __bool__ nor __len__", c.node, not bad,
                  f"{c.name} defines {bad}: an (empty) mismatch would be falsy and every `if mismatch:` test in the combinators would treat it as a match",
                  construct=f"{c.module.name}:{c.name}::falsy")
    ctx.floor("R-NO-FALSY-MISMATCH", 13)

    # ------------------------------------------------------------------ purity
    exempt = {("testtools.twistedsupport._matchers", "_got_failure"): "marks the inspected failure handled (documented, C20)"}
    n_fun = 0
    for c in mcls:
        for mname, f in c.methods.items():
            if mname not in ("match", "_compare_dicts", "_got_failure", "_got_result", "_got_success", "_got_no_result", "_with_nl", "_describe_difference"):
                continue
            if classes.is_abstract_stub(f):
                continue
            n_fun += 1
            is_method = not any(dotted(d_) == "staticmethod" for d_ in f.decorator_list)
            al = Aliases(f, is_method=is_method)
            problems = []
            for n in walk_shallow(f, include_self=False):
                if isinstance(n, ast.Attribute) and isinstance(n.ctx, (ast.Store, ast.Del)) and is_method:
                    ch = attr_chain(n)
                    if ch and ch[0] == f.args.args[0].arg:
                        problems.append((n, f"stores to {norm(n)} (matching changes the matcher)"))
            for site, tgt, how in al.mutations():
                o = al.of(tgt)
                owned = al.caller_owned(o, include_self=True)
                if owned:
                    problems.append((site, f"{norm(tgt)}{how} mutates {'the matchee' if any(x[0] in ('param', 'elem') for x in owned) else 'the matcher'} in place"))
            if not problems:
                ctx.check("R-MATCH-PURE", f"{c.name}.{mname}", f, True)
            for node, why in problems:
                ctx.check("R-MATCH-PURE", f"{c.name}.{mname}: {why[:60]}", node, False, f"{c.name}.{mname} {why}", construct=f"{c.module.name}:{c.name}.{mname}::{norm(node)[:60]}")
    for modname in ("testtools.matchers._dict",):
        m = ctx.repo.module(modname)
        for f in m.tree.body:
            if isinstance(f, FUNC_TYPES) and f.name in ("_dict_to_mismatch",):
                al = Aliases(f, is_method=False)
                bad = [(s_, t_, h_) for s_, t_, h_ in al.mutations() if al.caller_owned(al.of(t_))]
                ctx.check("R-MATCH-PURE", f"{f.name}", f, not bad, f"{f.name} mutates its argument", construct=f"{modname}:{f.name}::pure")
    ctx.floor("R-MATCH-PURE", 40)

    # ------------------------------------------------------------------ order independence
    n_set_loops = 0
    for c in mcls:
        for mname, f in c.methods.items():
            if mname not in ("match", "_compare_dicts"):
                continue
            for kind, node, var, bad in set_selection_sites(f):
                n_set_loops += 1
                ctx.check("R-ORDER-INDEPENDENT", f"{c.name}.{mname}: {kind} over set `{var}`", node, not bad,
                          f"{c.name}.{mname} selects by {kind} over the set `{var}`: which element is chosen depends on hash order, "
                          "so equal inputs can give different verdicts in different runs (and greedy choice is not 'an assignment exists')",
                          construct=f"{c.module.name}:{c.name}.{mname}::first-match over set {var}")
    # embedded positive example: the rule must recognise the construct it exists for
    from ..loader import _annotate
    tree = ast.parse(_ORDER_EXAMPLE)
    _annotate(tree, None)
    example = tree.body[0]
    hits = [x for x in set_selection_sites(example) if x[3]]
    ctx.check("R-ORDER-INDEPENDENT", "embedded positive example (greedy first match over set(self.matchers)) is recognised", None, len(hits) == 1,
              "the rule no longer recognises its own positive example", construct="R-ORDER-INDEPENDENT::self-check")
    ctx.note(f"R-ORDER-INDEPENDENT: {n_set_loops} set iteration(s) in match bodies examined")

    # ------------------------------------------------------------------ format safety (shared)
    check_format_safe(ctx, "C06")
    ctx.assume("component matchers obey the protocol themselves: match() returns None or a truthy Mismatch")
    ctx.assume("a component that raises aborts the combinator (exception exits are not constrained)")


_ORDER_EXAMPLE = """
def match(self, observed):
    remaining_matchers = set(self.matchers)
    not_matched = []
    for value in observed:
        for matcher in remaining_matchers:
            if matcher.match(value) is None:
                remaining_matchers.remove(matcher)
                break
        else:
            not_matched.append(value)
    return not_matched
"""


def set_selection_sites(f):
    """(kind, node, set variable, is_first_match_selection) for iterations over local sets."""
    out = []
    set_vars = set()
    for n in walk_shallow(f, include_self=False):
        if isinstance(n, ast.Assign) and isinstance(n.targets[0], ast.Name):
            v = n.value
            if isinstance(v, (ast.Set, ast.SetComp)) or (isinstance(v, ast.Call) and dotted(v.func) in ("set", "frozenset")) or (
                    isinstance(v, ast.BinOp) and isinstance(v.op, (ast.BitAnd, ast.BitOr, ast.Sub)) and any(isinstance(x, ast.Call) and dotted(x.func) in ("set", "frozenset") for x in (v.left, v.right))):
                set_vars.add(n.targets[0].id)
    for l in walk_shallow(f, include_self=False):
        if isinstance(l, ast.For) and isinstance(l.iter, ast.Name) and l.iter.id in set_vars:
            first = [x for x in walk_shallow(l) if isinstance(x, (ast.Break, ast.Return)) and _innermost_loop(x, f) is l]
            out.append(("first match", l, l.iter.id, bool(first)))
        if isinstance(l, ast.Call) and dotted(l.func) == "next" and l.args and isinstance(l.args[0], ast.Call) and dotted(l.args[0].func) == "iter" and l.args[0].args and dotted(l.args[0].args[0]) in set_vars:
            out.append(("next(iter(..))", l, dotted(l.args[0].args[0]), True))
        if isinstance(l, ast.Call) and isinstance(l.func, ast.Attribute) and l.func.attr == "pop" and dotted(l.func.value) in set_vars and not l.args:
            out.append(("pop()", l, dotted(l.func.value), True))
    return out


def _innermost_loop(node, func):
    p = getattr(node, "_parent", None)
    while p is not None and p is not func:
        if isinstance(p, (ast.For, ast.While)):
            return p
        p = getattr(p, "_parent", None)
    return None
