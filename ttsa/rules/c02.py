"""C02 -- stages run in order; every cleanup runs exactly once, LIFO, whatever failed."""

import ast

from ..absint import EMPTY, FALSE, NONE, NONEMPTY, TOP, TRUE, DefaultDomain, Interp, State, exc, val
from ..astutil import FUNC_TYPES, attr_chain, dotted, norm, walk_shallow
from ..cfg import live_nodes, node_calls
from ..loader import AnalysisError
from ..symbols import mangle
from . import runmodel
from .common import RUNTEST, TESTCASE, TWRUNTEST, cfg_of, module_function, nodes_calling, own_method
from .runmodel import RERAISE

EXPLANATION = (
    "R-STAGE-ORDER: in the abstract run of RunTest (see C01) the order of first occurrences of the "
    "stages at every normal exit is setUp < test < tearDown < cleanups, and test/tearDown occur iff "
    "setUp returned normally. R-CLEANUPS-ALWAYS: on the exceptional CFG of _run_core every path from "
    "the setUp invocation to any exit passes an invocation of _run_cleanups. R-DRAIN-LIFO: both "
    "implementations of _run_cleanups are drain loops over the live cleanup list that remove the last "
    "element, invoke the popped triple exactly once with its positional and keyword arguments and have no "
    "early exit. R-RESET-COMPLETE: every private attribute of TestCase written by code reachable from "
    "run() is assigned a fresh value in _reset. R-PATCH-PAIR: patch()/useFixture() register their undo "
    "actions; MonkeyPatcher records the original before setattr and restores last-first with both arms. "
    "R-CALL-SHAPE: receiver-sensitive class-hierarchy analysis over the whole package -- every "
    "self.m(...) / super().m(...) call shape is accepted by the method m resolves to for every receiver "
    "class that can execute the enclosing body."
)

MONKEY = "testtools.monkey"


def check_drain_loop(ctx, func, qual, list_expr, rule="R-DRAIN-LIFO"):
    """Rule instances for a LIFO drain loop over ``list_expr`` in func."""
    loops = [n for n in walk_shallow(func, include_self=False) if isinstance(n, ast.While)]
    cand = []
    for lp in loops:
        pops = [c for c in walk_shallow(lp) if isinstance(c, ast.Call) and dotted(c.func) == f"{list_expr}.pop"]
        if pops:
            cand.append((lp, pops))
    if len(cand) != 1:
        ctx.check(rule, f"{qual}: one drain loop over {list_expr}", func, False,
                  f"expected exactly one while-loop popping from {list_expr}, found {len(cand)} (iterating a snapshot would miss cleanups registered by cleanups)",
                  construct=f"{qual}::drain-loop")
        return None
    lp, pops = cand[0]
    live_cond = dotted(lp.test) == list_expr
    true_try = isinstance(lp.test, ast.Constant) and lp.test.value is True and any(
        isinstance(t, ast.Try) and any(c in list(walk_shallow(t)) for c in pops) and any("IndexError" in norm(h.type) for h in t.handlers if h.type is not None) for t in lp.body)
    ctx.check(rule, f"{qual}: loop condition re-reads the live list", lp, live_cond or true_try,
              f"the loop condition is `{norm(lp.test)}`, not the live {list_expr}: cleanups added by a cleanup would never run / the list is not empty afterwards",
              construct=f"{qual}::live-condition")
    p = pops[0]
    lifo = len(pops) == 1 and (not p.args or (len(p.args) == 1 and isinstance(p.args[0], ast.UnaryOp) and isinstance(p.args[0].op, ast.USub)
                                               and isinstance(p.args[0].operand, ast.Constant) and p.args[0].operand.value == 1))
    ctx.check(rule, f"{qual}: removes the last element", p, lifo,
              f"`{norm(p)}` does not remove the most recently registered cleanup (reverse registration order is lost)", construct=f"{qual}::pop-last")
    def generator_close(x):
        # `except GeneratorExit: raise` only lets the generator be closed; it skips nothing
        h = getattr(x, "_parent", None)
        return isinstance(x, ast.Raise) and x.exc is None and isinstance(h, ast.ExceptHandler) and h.type is not None and norm(h.type) == "GeneratorExit" and len(h.body) == 1

    jumps = [x for x in walk_shallow(lp) if isinstance(x, (ast.Break, ast.Return, ast.Raise)) and not (true_try and isinstance(x, ast.Break)) and not generator_close(x)]
    ctx.check(rule, f"{qual}: no early exit from the loop", lp, not jumps,
              f"the drain loop can be left by `{norm(jumps[0]) if jumps else ''}`: the remaining cleanups would not run", construct=f"{qual}::no-early-exit")
    return lp, p


def run(ctx):
    ctx.rule("R-STAGE-ORDER", "setUp first; test and tearDown iff setUp returned normally; cleanups after them")
    ctx.rule("R-CLEANUPS-ALWAYS", "every path from the setUp invocation to an exit of _run_core runs the cleanups")
    ctx.rule("R-DRAIN-LIFO", "_run_cleanups drains the live list last-first, invoking each cleanup exactly once, without early exit")
    ctx.rule("R-RESET-COMPLETE", "every private per-run attribute of TestCase is re-initialised by _reset")
    ctx.rule("R-PATCH-PAIR", "patch/useFixture register their undo; MonkeyPatcher saves before setattr and restores last-first")
    ctx.rule("R-CALL-SHAPE", "self/super call shapes are accepted by the resolved callee for every possible receiver class")
    classes = ctx.classes
    rt = classes.get(RUNTEST, "RunTest")
    Q = f"{RUNTEST}:RunTest"

    # ------------------------------------------------------------------ stage order from the abstract run
    res, interp = runmodel.analyse_run(ctx, rt)
    seqs = {}
    for r in res:
        clean = r.kind == "val" or r.value == RERAISE
        if not clean:
            continue
        seq = r.state.get("ev.stages", None)
        if seq is None or seq == ():
            continue  # decorator-skip path runs nothing
        seqs.setdefault(seq, r)
    for seq, r in sorted(seqs.items()):
        def pos(x):
            return seq.index(x) if x in seq else None
        problems = []
        if seq[0] != "setUp":
            problems.append("setUp is not the first stage")
        setup_failed = "setUp!" in seq
        if ("test" in seq) == setup_failed:
            problems.append("test method runs iff setUp FAILED" if setup_failed else "test method skipped although setUp returned normally")
        if ("tearDown" in seq) != ("test" in seq):
            problems.append("tearDown does not run exactly when the test method was invoked")
        order = [pos(x) for x in ("setUp", "test", "tearDown", "cleanup") if pos(x) is not None]
        if order != sorted(order):
            problems.append("stages out of order")
        ctx.check("R-STAGE-ORDER", f"stage sequence {' '.join(seq)}", own_method(ctx, RUNTEST, "RunTest", "_run_core"), not problems,
                  "; ".join(problems), path=runmodel.fmt_log(r.state), construct=f"{Q}._run_core::stages {' '.join(seq)}")
    ctx.floor("R-STAGE-ORDER", 8, "distinct stage sequences")

    # ------------------------------------------------------------------ cleanups / tearDown always (abstract run, all exits)
    rc = own_method(ctx, RUNTEST, "RunTest", "_run_core")
    sig = {}
    for r in res:
        s_ = r.state
        seq = s_.get("ev.stages", ()) or ()
        if not seq:
            continue
        framework = r.kind == "exc" and isinstance(r.value, tuple) and r.value and r.value[0] == "framework"
        sig.setdefault((framework, tuple(seq), s_.get("ev.drained", 0), s_.get("ev.last_stage", None)), r)
    n_paths = 0
    for (framework, seq, drained, last_stage), r in sorted(sig.items(), key=repr):
        n_paths += 1
        how = "a result method or addOnException handler raised" if framework else "normal exit"
        # an exception escaping from the setUp stage's own recording ends the run at once (nothing else was started)
        exempt = framework and last_stage == "setUp" and "test" not in seq
        ctx.check("R-CLEANUPS-ALWAYS", f"stages {' '.join(seq)} ({how}): the cleanups are drained", rc, bool(drained) or exempt,
                  f"on a path where the stages {' '.join(seq)} ran ({how}) _run_core is left without draining the cleanups",
                  path=runmodel.fmt_log(r.state), construct=f"{Q}._run_core::cleanups-always stages={' '.join(seq)} framework={framework}")
        if "test" in seq or "test!" in seq:
            ctx.check("R-CLEANUPS-ALWAYS", f"stages {' '.join(seq)} ({how}): tearDown runs once the test method was invoked", rc, "tearDown" in seq or "tearDown!" in seq,
                      "a path leaves the test-method invocation (normally or by exception) without tearDown",
                      path=runmodel.fmt_log(r.state), construct=f"{Q}._run_core::teardown-always stages={' '.join(seq)} framework={framework}")
    ctx.floor("R-CLEANUPS-ALWAYS", 10, "exit signatures")

    # ------------------------------------------------------------------ drain loops
    rcl = own_method(ctx, RUNTEST, "RunTest", "_run_cleanups")
    ctx.analysed(rcl)
    aliases = {"self.case._cleanups"} | {n.targets[0].id for n in walk_shallow(rcl, include_self=False)
                                         if isinstance(n, ast.Assign) and len(n.targets) == 1 and isinstance(n.targets[0], ast.Name) and dotted(n.value) == "self.case._cleanups"}
    pops = [c for c in walk_shallow(rcl, include_self=False) if isinstance(c, ast.Call) and isinstance(c.func, ast.Attribute) and c.func.attr == "pop" and dotted(c.func.value) in aliases]
    got = None
    if len(pops) != 1:
        ctx.check("R-DRAIN-LIFO", f"{Q}._run_cleanups: pops from the live cleanup list", rcl, False,
                  f"expected exactly one self.case._cleanups.pop() (the live list, so cleanups registered by cleanups are seen), found {len(pops)}", construct=f"{Q}._run_cleanups::drain-loop")
    else:
        p = pops[0]
        lifo = not p.args or (len(p.args) == 1 and isinstance(p.args[0], ast.UnaryOp) and isinstance(p.args[0].op, ast.USub) and isinstance(p.args[0].operand, ast.Constant) and p.args[0].operand.value == 1)
        ctx.check("R-DRAIN-LIFO", f"{Q}._run_cleanups: removes the last element", p, lifo,
                  f"`{norm(p)}` does not remove the most recently registered cleanup (reverse registration order is lost)", construct=f"{Q}._run_cleanups::pop-last")
        lp = p
        while lp is not None and not isinstance(lp, (ast.While, ast.For)):
            lp = getattr(lp, "_parent", None)
        got = (lp if lp is not None else rcl, p)
    if got:
        lp, p = got
        tgt = getattr(p, "_parent", None)
        names = [dotted(e) for e in tgt.targets[0].elts] if isinstance(tgt, ast.Assign) and isinstance(tgt.targets[0], ast.Tuple) else []
        ok, why = forwards_triple(ctx, lp, names, rt)
        ctx.check("R-DRAIN-LIFO", "RunTest._run_cleanups hands each popped cleanup its args and kwargs", lp, ok,
                  "the popped (function, arguments, keywordArguments) triple is not invoked as function(*arguments, **keywordArguments) "
                  f"(directly, through _run_user or through a helper): {why}", construct=f"{Q}._run_cleanups::invoke-once")
        for label, suffix, ok2, msg, r in runmodel.drain_verdicts(ctx, rt):
            ctx.check("R-DRAIN-LIFO", label, rcl, ok2, msg, path=runmodel.fmt_log(r.state), construct=f"{Q}._run_cleanups::{suffix}")
    acl = own_method(ctx, TWRUNTEST, "AsynchronousDeferredRunTest", "_run_cleanups")
    ctx.analysed(acl)
    got = check_drain_loop(ctx, acl, f"{TWRUNTEST}:AsynchronousDeferredRunTest._run_cleanups", "self.case._cleanups")
    if got:
        lp, p = got
        tgt = getattr(p, "_parent", None)
        names = [dotted(e) for e in tgt.targets[0].elts] if isinstance(tgt, ast.Assign) and isinstance(tgt.targets[0], ast.Tuple) else []
        ok, why = forwards_triple(ctx, lp, names, classes.get(TWRUNTEST, "AsynchronousDeferredRunTest"))
        yields = [y for y in walk_shallow(lp) if isinstance(y, ast.Yield)]
        ctx.check("R-DRAIN-LIFO", "AsynchronousDeferredRunTest._run_cleanups invokes each popped cleanup once and waits for it", lp, ok and len(yields) == 1,
                  f"the popped (f, args, kwargs) triple is not invoked once as f(*args, **kwargs) (directly, through maybeDeferred or a helper) and awaited with one yield: {why}",
                  construct=f"{TWRUNTEST}:AsynchronousDeferredRunTest._run_cleanups::invoke-once")

    # ------------------------------------------------------------------ reset completeness
    tc = classes.get(TESTCASE, "TestCase")
    reset = own_method(ctx, TESTCASE, "TestCase", "_reset")
    reset_attrs = set()
    for n in walk_shallow(reset, include_self=False):
        if isinstance(n, ast.Assign):
            for t in n.targets:
                ch = attr_chain(t)
                if ch and ch[0] == "self" and len(ch) == 2:
                    reset_attrs.add(mangle("TestCase", ch[1]))
    written = {}
    MUT = {"append", "extend", "setdefault", "pop", "update", "add", "insert", "clear", "remove"}
    for mname, f in tc.methods.items():
        if mname in ("__init__", "_reset"):
            continue
        for n in walk_shallow(f, include_self=False):
            attr = None
            if isinstance(n, ast.Attribute) and isinstance(n.ctx, ast.Store):
                ch = attr_chain(n)
                if ch and ch[0] == "self" and len(ch) == 2:
                    attr = ch[1]
            elif isinstance(n, ast.Call) and isinstance(n.func, ast.Attribute) and n.func.attr in MUT:
                ch = attr_chain(n.func.value)
                if ch and ch[0] == "self" and len(ch) == 2:
                    attr = ch[1]
            elif isinstance(n, ast.Call) and dotted(n.func) == "next" and n.args:
                ch = attr_chain(n.args[0])
                if ch and ch[0] == "self" and len(ch) == 2:
                    attr = ch[1]
            elif isinstance(n, ast.Subscript) and isinstance(n.ctx, (ast.Store, ast.Del)):
                ch = attr_chain(n.value)
                if ch and ch[0] == "self" and len(ch) == 2:
                    attr = ch[1]
            if attr and attr.startswith("_") and not (attr.startswith("__") and attr.endswith("__")):
                written.setdefault(mangle("TestCase", attr), (mname, n))
    exempt = {
        mangle("TestCase", "__exception_handlers"): "addOnException handlers are configuration that may be supplied before run(); resetting would discard it",
        mangle("TestCase", "__RunTest"): "runner factory chosen at construction",
        "_testMethodName": "unittest's own identity of the test",
    }
    for attr, (mname, node) in sorted(written.items()):
        if attr in exempt:
            ctx.note(f"R-RESET-COMPLETE frozen exception: {attr} ({exempt[attr]})")
            continue
        ctx.check("R-RESET-COMPLETE", f"TestCase.{attr} (written by {mname}) is reset", reset, attr in reset_attrs,
                  f"TestCase.{mname} changes self.{attr} during a run but _reset does not re-initialise it: a second run() of the same instance starts from stale state",
                  construct=f"{TESTCASE}:TestCase._reset::{attr}")
    ctx.floor("R-RESET-COMPLETE", 6, "per-run private attributes")
    init = own_method(ctx, TESTCASE, "TestCase", "__init__")
    ok = any(isinstance(c, ast.Call) and dotted(c.func) == "self._reset" for c in walk_shallow(init, include_self=False))
    ctx.check("R-RESET-COMPLETE", "TestCase.__init__ initialises through _reset", init, ok, "constructor no longer calls _reset()", construct=f"{TESTCASE}:TestCase.__init__::reset")
    run_f = own_method(ctx, TESTCASE, "TestCase", "run")
    g = cfg_of(ctx, run_f)
    lv = live_nodes(g)
    resets = nodes_calling(g, lambda c: dotted(c.func) == "self._reset", lv)
    runs = nodes_calling(g, lambda c: isinstance(c.func, ast.Attribute) and c.func.attr == "run" and dotted(c.func.value) != "self", lv)
    ctx.check("R-RESET-COMPLETE", "TestCase.run resets before running", run_f, bool(resets) and bool(runs) and all(g.dominated_by(r, set(resets)) for r in runs),
              "run() can start the runner without _reset()", construct=f"{TESTCASE}:TestCase.run::reset-dominates")

    # ------------------------------------------------------------------ patch / fixture pairing
    pf = own_method(ctx, TESTCASE, "TestCase", "patch")
    ok = False
    for n in walk_shallow(pf, include_self=False):
        if isinstance(n, ast.Call) and dotted(n.func) == "self.addCleanup" and n.args and isinstance(n.args[0], ast.Call) and dotted(n.args[0].func) == "patch":
            inner = n.args[0]
            ok = [dotted(a) for a in inner.args] == [a.arg for a in pf.args.args[1:]]
    ctx.check("R-PATCH-PAIR", "TestCase.patch registers the restore callable as a cleanup in the same statement", pf, ok,
              "patch() applies the monkey patch without registering its undo action as a cleanup", construct=f"{TESTCASE}:TestCase.patch::register")
    mp = module_function(ctx, MONKEY, "patch")
    stmts = [norm(s) for s in mp.body if not (isinstance(s, ast.Expr) and isinstance(s.value, ast.Constant))]
    ok = (len(stmts) == 3 and "MonkeyPatcher((" in stmts[0] and stmts[1].endswith(".patch()") and stmts[2].startswith("return ") and stmts[2].endswith(".restore"))
    ctx.check("R-PATCH-PAIR", "monkey.patch applies the patch and returns the patcher's restore", mp, ok,
              "monkey.patch no longer returns the restore method of the patcher it applied", construct=f"{MONKEY}:patch::shape")
    check_monkey_patcher(ctx)
    uf = own_method(ctx, TESTCASE, "TestCase", "useFixture")
    g = cfg_of(ctx, uf)
    lv = live_nodes(g)
    setup = nodes_calling(g, lambda c: dotted(c.func) == "fixture.setUp", lv)
    reg1 = nodes_calling(g, lambda c: dotted(c.func) == "self.addCleanup" and c.args and dotted(c.args[0]) == "fixture.cleanUp", lv)
    reg2 = nodes_calling(g, lambda c: dotted(c.func) == "self.addCleanup" and c.args and dotted(c.args[0]) == "gather_details", lv)
    ok = len(setup) == 1 and len(reg1) == 1 and len(reg2) == 1
    if ok:
        esc = g.escape_path(g.after(setup[0]), set(reg1), targets=[g.exit_return])
        esc2 = g.escape_path(g.after(setup[0]), set(reg2), targets=[g.exit_return])
        ok = esc is None and esc2 is None and g.dominated_by(reg2[0], set(reg1))
    ctx.check("R-PATCH-PAIR", "useFixture registers fixture.cleanUp and the details gatherer after a successful setUp", uf, ok,
              "a fixture can be set up without its cleanUp / details gathering being registered as cleanups", construct=f"{TESTCASE}:TestCase.useFixture::register")
    # failure arms gather details before re-raising, and always re-raise
    handlers = [n for n in g.nodes if n.id in lv and n.kind == "handler"]
    hn = [h.id for h in handlers]
    esc = g.escape_path(hn, set(), targets=[g.exit_return]) if hn else [0]
    ctx.check("R-PATCH-PAIR", "useFixture's failure arms always re-raise", uf, bool(hn) and esc is None,
              "a failing fixture setUp can be swallowed by useFixture", path=g.describe_path(esc) if esc and hn else None, construct=f"{TESTCASE}:TestCase.useFixture::reraise")
    gathers = [c for c in walk_shallow(uf, include_self=False) if isinstance(c, ast.Call) and dotted(c.func) == "gather_details"]
    in_handlers = [c for c in gathers if any(isinstance(p, ast.ExceptHandler) for p in _ancestors(c, uf))]
    ctx.check("R-PATCH-PAIR", "useFixture gathers the fixture's details when setUp fails", uf, len(in_handlers) >= 2,
              "details of a fixture whose setUp failed are no longer gathered", construct=f"{TESTCASE}:TestCase.useFixture::gather-on-failure")

    # ------------------------------------------------------------------ call shape (receiver-sensitive CHA)
    n_sites = check_call_shapes(ctx)
    ctx.floor("R-CALL-SHAPE", 150, "resolved self/super call sites")
    ctx.assume("unittest.TestCase.doCleanups is not used: testtools keeps its own _cleanups list")


class _MonkeyDomain(DefaultDomain):
    """MonkeyPatcher.patch / restore over one requested patch (obj, name, new) whose attribute either
    exists (value `orig`) or does not; the saved-originals list is a bounded tuple of abstract entries;
    setattr / delattr on the patched object are logged."""

    def __init__(self, present):
        self.present = present

    def load_attr(self, chain, st, fr):
        if chain == ["self", "_originals"]:
            return NONEMPTY if st.get("orig", ()) else EMPTY
        if chain == ["self", "_patches_to_apply"]:
            return ("patches",)
        if chain[:1] == ["self"] and len(chain) == 2 and chain[1].isupper():
            return ("const", chain[1])
        return None

    def iter_kind(self, value):
        return "nonempty" if value == ("patches",) else super().iter_kind(value)

    def for_step(self, interp, stmt, itervalue, st, fr, first):
        if itervalue == ("patches",):
            return (True, False) if first else (False, True)
        return None

    def element(self, itervalue, st, node):
        if itervalue == ("patches",):
            return ("tuple", ("const", "obj"), ("const", "name"), ("const", "new"))
        return TOP

    def call(self, interp, call, st, fr):
        d = dotted(call.func)
        out = []
        for r in interp.eval_list([a for a in call.args if not isinstance(a, ast.Starred)], st, fr):
            if r.kind == "exc":
                out.append(r)
                continue
            v, s_ = r.value, r.state
            log = s_.get("log", ())
            if d == "getattr" and len(v) >= 2 and v[0] == ("const", "obj"):
                got = ("const", "orig") if self.present else (v[2] if len(v) > 2 else None)
                if got is None:
                    out.append(exc(("framework", "AttributeError"), s_))
                else:
                    out.append(val(got, s_.set("log", log + (("read",),))))
            elif d == "hasattr" and len(v) == 2 and v[0] == ("const", "obj"):
                out.append(val(TRUE if self.present else FALSE, s_.set("log", log + (("read",),))))
            elif d == "setattr" and len(v) == 3 and v[0] == ("const", "obj") and v[1] == ("const", "name"):
                out.append(val(NONE, s_.set("log", log + (("set", v[2]),))))
            elif d == "delattr" and len(v) == 2 and v[0] == ("const", "obj") and v[1] == ("const", "name"):
                out.append(val(NONE, s_.set("log", log + (("del",),))))
            elif d == "self._originals.append" and len(v) == 1:
                out.append(val(NONE, s_.set("orig", s_.get("orig", ()) + (v[0],))))
            elif d == "self._originals.pop":
                cur = s_.get("orig", ())
                idx_last = not v or v[0] == ("const", -1)
                if not cur:
                    out.append(exc(("framework", "IndexError"), s_))
                else:
                    out.append(val(cur[-1] if idx_last else cur[0], s_.set("orig", cur[:-1] if idx_last else cur[1:])))
            else:
                out.append(val(TOP, s_))
        return out

    def constant(self, node):
        return ("const", node.value)

    def truth(self, value):
        if isinstance(value, tuple) and len(value) == 2 and value[0] == "const" and not isinstance(value[1], str):
            return "T" if value[1] else "F"
        if isinstance(value, tuple) and len(value) == 2 and value[0] == "const":
            return "T" if value[1] else "F"
        return super().truth(value)

    def is_none(self, value):
        if isinstance(value, tuple) and len(value) == 2 and value[0] == "const":
            return "T" if value[1] is None else "F"
        return super().is_none(value)


def check_monkey_patcher(ctx):
    mp_cls = ctx.classes.get(MONKEY, "MonkeyPatcher")
    for present in (True, False):
        dom = _MonkeyDomain(present)

        def go(name, st):
            owner, f = ctx.classes.resolve_method(mp_cls, name)
            if not isinstance(f, FUNC_TYPES):
                raise AnalysisError(f"anchor vanished: MonkeyPatcher.{name}")
            it = Interp(dom, max_depth=3)
            res = it.analyze(f, {}, st, receiver=mp_cls, name=name)
            ctx.stats["states"] += it.steps
            ctx.analysed(f)
            return res

        finals = []
        for r1 in go("patch", State([("orig", ()), ("log", ())])):
            if r1.kind != "val":
                finals.append(("patch raises", r1.state))
                continue
            s1 = State([(k, v) for k, v in r1.state.items if k in ("orig", "log")])
            for r2 in go("restore", s1):
                finals.append(("ok" if r2.kind == "val" else "restore raises", r2.state))
        want = (("read",), ("set", ("const", "new")), ("set", ("const", "orig"))) if present else (("read",), ("set", ("const", "new")), ("del",))
        problems = []
        for how, s_ in finals:
            log = s_.get("log", ())
            if how != "ok":
                problems.append(how)
            elif log != want:
                problems.append("patch(); restore() does " + " ".join(("read-original" if e[0] == "read" else f"setattr({e[1][1]})" if e[0] == "set" else "delattr") for e in log))
            elif s_.get("orig", ()):
                problems.append("restore() leaves saved originals behind")
        what = "an attribute that existed gets its original value back" if present else "an attribute that did not exist is deleted again"
        ctx.check("R-PATCH-PAIR", f"MonkeyPatcher patch(); restore(): the original is read before it is overwritten, and {what}", mp_cls.node, bool(finals) and not problems,
                  "; ".join(sorted(set(problems))) or "no path explored", examined=len(finals), construct=f"{MONKEY}:MonkeyPatcher::roundtrip present={present}")
    mr = own_method(ctx, MONKEY, "MonkeyPatcher", "restore")
    pops = [c for c in walk_shallow(mr, include_self=False) if isinstance(c, ast.Call) and dotted(c.func) == "self._originals.pop"]
    lifo = len(pops) == 1 and (not pops[0].args or norm(pops[0].args[0]) == "-1")
    ctx.check("R-PATCH-PAIR", "MonkeyPatcher.restore undoes the patches last-first", mr, lifo,
              "restore does not pop the most recently saved original first (an attribute patched twice would end with the first patch's value)", construct=f"{MONKEY}:MonkeyPatcher.restore::pop-last")


INVOKERS = {"self._run_user", "defer.maybeDeferred", "maybeDeferred"}


def _invokes(call, f, a, k):
    """Is call `f(*a, **k)`, or `<invoker>(f, *a, **k)`?"""
    star = any(isinstance(x, ast.Starred) and dotted(x.value) == a for x in call.args)
    kw = any(x.arg is None and dotted(x.value) == k for x in call.keywords)
    if not (star and kw):
        return False
    if dotted(call.func) == f:
        return True
    return dotted(call.func) in INVOKERS and bool(call.args) and dotted(call.args[0]) == f


def forwards_triple(ctx, loop, names, receiver):
    """The three names bound from the popped entry reach exactly one invocation per iteration: in the
    loop body itself, or in a helper method that receives them (in order) and invokes them."""
    if len(names) != 3:
        return False, "the popped entry is not unpacked into (function, args, kwargs)"
    f, a, k = names
    direct = [c for c in walk_shallow(loop) if isinstance(c, ast.Call) and _invokes(c, f, a, k)]
    if len(direct) == 1:
        return True, ""
    if len(direct) > 1:
        return False, "the cleanup is invoked more than once per iteration"
    via = []
    for c in walk_shallow(loop):
        ch = attr_chain(c.func) if isinstance(c, ast.Call) else None
        if ch and ch[0] == "self" and len(ch) == 2 and [dotted(x) for x in c.args] == [f, a, k] and not c.keywords:
            owner, h = ctx.classes.resolve_method(receiver, ch[1])
            if isinstance(h, FUNC_TYPES):
                ps = [p.arg for p in h.args.args][1:]
                inner = [x for x in walk_shallow(h, include_self=False) if isinstance(x, ast.Call) and len(ps) == 3 and _invokes(x, *ps)]
                if len(inner) == 1:
                    ctx.analysed(h)
                    via.append(c)
    if len(via) == 1:
        return True, ""
    return False, "no call of the form f(*args, **kwargs) on the popped names was found"


def _ancestors(node, stop):
    out = []
    n = getattr(node, "_parent", None)
    while n is not None and n is not stop:
        out.append(n)
        n = getattr(n, "_parent", None)
    return out


def call_shape_problem(call, callee, bound, enclosing):
    """Why callee (a def) cannot accept this call shape, or None."""
    a = callee.args
    pos_params = [p.arg for p in a.posonlyargs + a.args]
    if bound and pos_params:
        pos_params = pos_params[1:]
    n_defaults = len(a.defaults)
    required = pos_params[: len(pos_params) - n_defaults] if n_defaults else list(pos_params)
    kwonly = [p.arg for p in a.kwonlyargs]
    kwonly_required = [p.arg for p, d in zip(a.kwonlyargs, a.kw_defaults) if d is None]
    has_star = any(isinstance(x, ast.Starred) for x in call.args)
    dstar = [k for k in call.keywords if k.arg is None]
    n_pos = sum(1 for x in call.args if not isinstance(x, ast.Starred))
    kw_names = [k.arg for k in call.keywords if k.arg is not None]
    if n_pos > len(pos_params) and a.vararg is None:
        return f"passes {n_pos} positional arguments, callee accepts at most {len(pos_params)}"
    for k in kw_names:
        if k not in pos_params and k not in kwonly and a.kwarg is None:
            return f"passes keyword {k!r}, which the callee does not accept"
        if k in a.posonlyargs:
            return f"passes positional-only parameter {k!r} by keyword"
        if k in pos_params[:n_pos]:
            return f"passes {k!r} both positionally and by keyword"
    if not has_star and not dstar:
        missing = [p for p in required[n_pos:] if p not in kw_names]
        if missing:
            return f"misses required argument(s) {missing}"
        missing = [p for p in kwonly_required if p not in kw_names]
        if missing:
            return f"misses required keyword-only argument(s) {missing}"
    for k in dstar:
        own_kwarg = enclosing.args.kwarg.arg if isinstance(enclosing, FUNC_TYPES) and enclosing.args.kwarg else None
        if a.kwarg is None and dotted(k.value) != own_kwarg:
            return (f"passes arbitrary keyword arguments (**{norm(k.value)}) but the callee "
                    f"`def {callee.name}({norm(a)})` has no **kwargs: any keyword argument raises TypeError")
    return None


def check_call_shapes(ctx):
    classes = ctx.classes
    n = 0
    seen = set()
    for c in sorted(classes.all, key=lambda c: (c.module.name, c.node.lineno)):
        if c.external:
            continue
        # every method body that can execute with receiver class c
        names = set()
        for k in classes.mro(c):
            names |= set(k.methods)
        for mname in sorted(names):
            owner, body = classes.resolve_method(c, mname)
            if not isinstance(body, FUNC_TYPES) or owner is None or owner.external:
                continue
            if "staticmethod" in [dotted(d) for d in body.decorator_list] or "classmethod" in [dotted(d) for d in body.decorator_list]:
                continue
            for call in walk_shallow(body, include_self=False):
                if not isinstance(call, ast.Call):
                    continue
                ch = attr_chain(call.func)
                if not ch or len(ch) != 2 or ch[0] not in ("self", "super()"):
                    continue
                if ch[0] == "self":
                    o2, callee = classes.resolve_method(c, ch[1])
                    # an instance attribute assigned in some method shadows the class attribute
                else:
                    o2, callee = classes.resolve_method(c, ch[1], after=owner)
                if not isinstance(callee, FUNC_TYPES) or o2 is None:
                    continue
                decos = [dotted(d) for d in callee.decorator_list]
                if "property" in decos:
                    continue
                bound = "staticmethod" not in decos
                key = (id(call), id(callee))
                if key in seen:
                    continue
                seen.add(key)
                ctx.repo.module(c.module.name) if c.module.name in ctx.repo.modules else None
                problem = call_shape_problem(call, callee, bound, body)
                n += 1
                ctx.check("R-CALL-SHAPE", f"{owner.name}.{mname} (receiver {c.name}): {norm(call.func)}(...) -> {o2.name}.{callee.name}", call, problem is None,
                          f"for receiver class {c.name} the call `{norm(call)[:70]}` in {owner.name}.{mname} resolves to {o2.name}.{callee.name} and {problem}",
                          construct=f"{owner.module.name}:{owner.name}.{mname}::{norm(call.func)} -> {o2.module.name}:{o2.name}.{callee.name}")
    return n
